"""
Statement-level control-flow graph for one function, with `finally` bodies duplicated per
continuation kind so that path queries stay precise.

Two modes:
  normal       only explicit `raise` / failing `assert` leave early
  exceptional  additionally, every node for which `may_raise(node)` holds gets an edge to the
               innermost handler / finally copy / the RAISE exit

All queries are phrased as reachability in pruned graphs, which is exact for this graph:
  dominated_by(b, A)       every ENTRY->b path passes a node of A
  postdominated_by(b, A)   every b->exit path passes a node of A
  path_avoiding(...)       witness path, for reports
"""
import ast
from .index import AnalysisError


class Node(object):
  __slots__ = ("id", "kind", "stmt", "exprs", "copy_of")

  def __init__(self, nid, kind, stmt, exprs):
    self.id = nid
    self.kind = kind      # entry, exit, raise, stmt, if, for, while, with, handler, return...
    self.stmt = stmt      # ast statement (or None for synthetic nodes)
    self.exprs = exprs    # ast nodes evaluated at this node

  @property
  def lineno(self):
    return getattr(self.stmt, "lineno", 0)

  def __repr__(self):
    return "<N%d %s L%s>" % (self.id, self.kind, self.lineno)


class _Ctx(object):
  def __init__(self, cfg, parent=None):
    self.cfg = cfg
    self.parent = parent

  def on_return(self, preds): self.parent.on_return(preds)
  def on_raise(self, preds): self.parent.on_raise(preds)
  def on_break(self, preds): self.parent.on_break(preds)
  def on_continue(self, preds): self.parent.on_continue(preds)


class _Base(_Ctx):
  def on_return(self, preds): self.cfg._connect(preds, self.cfg.exit.id)
  def on_raise(self, preds): self.cfg._connect(preds, self.cfg.raise_exit.id)
  def on_break(self, preds): raise AnalysisError("break outside loop")
  def on_continue(self, preds): raise AnalysisError("continue outside loop")


class _Loop(_Ctx):
  def __init__(self, cfg, parent, head):
    _Ctx.__init__(self, cfg, parent)
    self.head = head
    self.breaks = set()

  def on_break(self, preds): self.breaks |= set(preds)
  def on_continue(self, preds): self.cfg._connect(preds, self.head)


class _Handlers(_Ctx):
  def __init__(self, cfg, parent, handler_entries, catch_all):
    _Ctx.__init__(self, cfg, parent)
    self.handler_entries = handler_entries
    self.catch_all = catch_all

  def on_raise(self, preds):
    for h in self.handler_entries:
      self.cfg._connect(preds, h)
    if not self.catch_all:
      self.parent.on_raise(preds)


class _Finally(_Ctx):
  def __init__(self, cfg, parent, finalbody):
    _Ctx.__init__(self, cfg, parent)
    self.finalbody = finalbody
    self.pending = {"return": set(), "raise": set(), "break": set(), "continue": set()}

  def on_return(self, preds): self.pending["return"] |= set(preds)
  def on_raise(self, preds): self.pending["raise"] |= set(preds)
  def on_break(self, preds): self.pending["break"] |= set(preds)
  def on_continue(self, preds): self.pending["continue"] |= set(preds)

  def finalize(self):
    for kind in ("return", "raise", "break", "continue"):
      preds = self.pending[kind]
      if not preds:
        continue
      if kind == "raise":
        # edges from nodes that only *may* raise stay tagged as exceptional edges
        self.cfg._exc_pred_filter = set(preds) & self.cfg._implicit_srcs
      outs = self.cfg._seq(self.finalbody, preds, self.parent, tag="finally-" + kind)
      self.cfg._exc_pred_filter = None
      getattr(self.parent, "on_" + kind)(outs)


_CATCH_ALL = {"Exception", "BaseException"}


class CFG(object):
  def __init__(self, fnode, may_raise=None):
    """
    fnode: ast.FunctionDef. may_raise: optional predicate over Node -> bool (exceptional mode).
    """
    self.fnode = fnode
    self.may_raise = may_raise
    self.nodes = []
    self.succ = {}
    self.pred = {}
    self.exc_edges = set()   # (src, dst) edges that exist only because src may raise
    self._marking_exc = False
    self._implicit_srcs = set()
    self._exc_pred_filter = None
    self.if_true = {}
    self.if_exc = {}
    self.entry = self._new("entry", None, [])
    self.exit = self._new("exit", None, [])
    self.raise_exit = self._new("raise", None, [])
    outs = self._seq(fnode.body, {self.entry.id}, _Base(self))
    self._connect(outs, self.exit.id)

  # ------------------------------------------------------------------ construction
  def _new(self, kind, stmt, exprs):
    n = Node(len(self.nodes), kind, stmt, exprs)
    self.nodes.append(n)
    self.succ[n.id] = set()
    self.pred[n.id] = set()
    return n

  def _connect(self, preds, to):
    flt = self._exc_pred_filter
    self._exc_pred_filter = None
    for p in preds:
      if self._marking_exc or (flt is not None and p in flt):
        if to not in self.succ[p]:
          self.exc_edges.add((p, to))
      else:
        self.exc_edges.discard((p, to))
      self.succ[p].add(to)
      self.pred[to].add(p)

  def _node(self, kind, stmt, exprs, preds, ctx):
    n = self._new(kind, stmt, exprs)
    self._connect(preds, n.id)
    if self.may_raise is not None and self.may_raise(n):
      self._implicit_raise(n, ctx)
    return n

  def _implicit_raise(self, n, ctx):
    # Route "n raised before completing" to the innermost handler / finally / RAISE. The edge
    # (or, through a finally, the chain) is tagged so queries can start from n's *completed*
    # effect by skipping it.
    self._implicit_srcs.add(n.id)
    self._marking_exc = True
    try:
      ctx.on_raise({n.id})
    finally:
      self._marking_exc = False

  def _seq(self, stmts, preds, ctx, tag=None):
    for s in stmts:
      preds = self._stmt(s, preds, ctx)
    return preds

  def _stmt(self, s, preds, ctx):
    if isinstance(s, ast.If):
      n = self._node("if", s, [s.test], preds, ctx)
      const = _const_truth(s.test)
      outs = set()
      before = set(self.succ[n.id])
      if const is not False:
        outs |= self._seq(s.body, {n.id}, ctx)
      # branch labels: successors entered because the test was true; every other (non-exceptional)
      # successor of the node is entered because it was false (see sa/guards.py)
      self.if_true[n.id] = set(self.succ[n.id]) - before
      self.if_exc[n.id] = before
      if const is not True:
        outs |= self._seq(s.orelse, {n.id}, ctx) if s.orelse else {n.id}
      return outs
    if isinstance(s, (ast.For, ast.AsyncFor)):
      n = self._node("for", s, [s.iter, s.target], preds, ctx)
      loop = _Loop(self, ctx, n.id)
      body_outs = self._seq(s.body, {n.id}, loop)
      self._connect(body_outs, n.id)
      outs = self._seq(s.orelse, {n.id}, ctx) if s.orelse else {n.id}
      return outs | loop.breaks
    if isinstance(s, ast.While):
      n = self._node("while", s, [s.test], preds, ctx)
      loop = _Loop(self, ctx, n.id)
      body_outs = self._seq(s.body, {n.id}, loop)
      self._connect(body_outs, n.id)
      if _const_truth(s.test) is True:
        outs = set()
      else:
        outs = self._seq(s.orelse, {n.id}, ctx) if s.orelse else {n.id}
      return outs | loop.breaks
    if isinstance(s, (ast.With, ast.AsyncWith)):
      exprs = []
      for it in s.items:
        exprs.append(it.context_expr)
        if it.optional_vars is not None:
          exprs.append(it.optional_vars)
      n = self._node("with", s, exprs, preds, ctx)
      return self._seq(s.body, {n.id}, ctx)
    if isinstance(s, ast.Try) or s.__class__.__name__ == "TryStar":
      return self._try(s, preds, ctx)
    if isinstance(s, ast.Return):
      n = self._node("return", s, [s.value] if s.value is not None else [], preds, ctx)
      ctx.on_return({n.id})
      return set()
    if isinstance(s, ast.Raise):
      ex = [e for e in (s.exc, s.cause) if e is not None]
      n = self._new("raise_stmt", s, ex)
      self._connect(preds, n.id)
      ctx.on_raise({n.id})
      return set()
    if isinstance(s, ast.Break):
      n = self._new("break", s, [])
      self._connect(preds, n.id)
      ctx.on_break({n.id})
      return set()
    if isinstance(s, ast.Continue):
      n = self._new("continue", s, [])
      self._connect(preds, n.id)
      ctx.on_continue({n.id})
      return set()
    if isinstance(s, ast.Assert):
      n = self._node("assert", s, [s.test] + ([s.msg] if s.msg else []), preds, ctx)
      self._implicit_srcs.discard(n.id)
      ctx.on_raise({n.id})
      return {n.id}
    if isinstance(s, (ast.FunctionDef, ast.AsyncFunctionDef, ast.ClassDef)):
      n = self._new("def", s, [])
      self._connect(preds, n.id)
      return {n.id}
    if isinstance(s, (ast.Expr, ast.Assign, ast.AugAssign, ast.AnnAssign, ast.Delete, ast.Pass,
                      ast.Import, ast.ImportFrom, ast.Global, ast.Nonlocal)):
      n = self._node("stmt", s, [s], preds, ctx)
      return {n.id}
    raise AnalysisError("unsupported statement kind %s at line %s"
                        % (s.__class__.__name__, getattr(s, "lineno", "?")))

  def _try(self, s, preds, ctx):
    fin = _Finally(self, ctx, s.finalbody) if s.finalbody else None
    inner = fin if fin is not None else ctx
    handler_nodes = []
    catch_all = False
    for h in s.handlers:
      hn = self._new("handler", h, [h.type] if h.type is not None else [])
      handler_nodes.append(hn)
      if h.type is None:
        catch_all = True
      else:
        names = [h.type] if not isinstance(h.type, ast.Tuple) else h.type.elts
        for nm in names:
          if isinstance(nm, ast.Name) and nm.id in _CATCH_ALL:
            catch_all = True
    if handler_nodes:
      body_ctx = _Handlers(self, inner, [h.id for h in handler_nodes], catch_all)
    else:
      body_ctx = inner
    outs = self._seq(s.body, preds, body_ctx)
    if s.orelse:
      outs = self._seq(s.orelse, outs, inner)
    for h, hn in zip(s.handlers, handler_nodes):
      outs |= self._seq(h.body, {hn.id}, inner)
    if fin is not None:
      fin.finalize()
      outs = self._seq(s.finalbody, outs, ctx, tag="finally-normal") if outs else set()
    return outs

  # ------------------------------------------------------------------ queries
  def nodes_where(self, pred):
    return [n for n in self.nodes if pred(n)]

  def reach(self, starts, removed=(), forward=True):
    """Set of node ids reachable from `starts` (ids) without entering `removed` ids.
    Start nodes themselves are included only if re-reached... they are included as visited."""
    removed = set(removed)
    adj = self.succ if forward else self.pred
    seen = set()
    stack = [s for s in starts if s not in removed]
    while stack:
      x = stack.pop()
      if x in seen:
        continue
      seen.add(x)
      for y in adj[x]:
        if y not in removed and y not in seen:
          stack.append(y)
    return seen

  def normal_succ(self, n):
    return {t for t in self.succ[n] if (n, t) not in self.exc_edges}

  def reach_after(self, starts, removed=(), completed=False):
    """Nodes reachable from the *successors* of starts (i.e. strictly after them). With
    completed=True the first step only follows edges taken when the start node finished
    normally (its own may-raise edge is skipped)."""
    removed = set(removed)
    nxt = set()
    for s in starts:
      nxt |= self.normal_succ(s) if completed else self.succ[s]
    return self.reach(nxt, removed)

  def dominated_by(self, b, A):
    """Every ENTRY->b path passes through some node of A (A, b: node ids). b in A counts."""
    A = set(A)
    if b in A:
      return True
    return b not in self.reach({self.entry.id}, removed=A)

  def postdominated_by(self, b, A, exits=None, completed=False):
    """Every path from b (exclusive) to one of `exits` passes through a node of A."""
    A = set(A)
    exits = set(exits) if exits is not None else {self.exit.id}
    r = self.reach_after({b}, removed=A, completed=completed)
    return not (r & exits)

  def path(self, src, dst_set, removed=(), after=False, completed=False):
    """A witness path (list of node ids) from src to any of dst_set avoiding `removed`."""
    removed = set(removed)
    dst_set = set(dst_set)
    from collections import deque
    starts = (list(self.normal_succ(src) if completed else self.succ[src])) if after else [src]
    prev = {}
    dq = deque()
    for s in starts:
      if s not in removed and s not in prev:
        prev[s] = src if after else None
        dq.append(s)
    if after:
      prev.setdefault(src, None)
    while dq:
      x = dq.popleft()
      if x in dst_set:
        out = [x]
        while prev.get(out[-1]) is not None:
          out.append(prev[out[-1]])
        return list(reversed(out))
      for y in self.succ[x]:
        if y not in removed and y not in prev:
          prev[y] = x
          dq.append(y)
    return None

  def describe_path(self, ids):
    out = []
    for i in ids or []:
      n = self.nodes[i]
      if n.kind in ("entry", "exit", "raise"):
        out.append(n.kind.upper())
      else:
        out.append("L%d:%s" % (n.lineno, n.kind))
    return " -> ".join(out)

  def reachable_nodes(self):
    return self.reach({self.entry.id})


def _const_truth(test):
  if isinstance(test, ast.Constant):
    return bool(test.value)
  return None
