"""Resolved call graph over the indexed functions (class-hierarchy analysis + light typing)."""
import ast
from .index import dotted, AnalysisError
from .astutil import calls_in, walk_no_nested, text
from . import types as T

# method names that collide with builtin container/str methods: never resolved by name alone
COLLISION = {
  "add", "update", "remove", "insert", "append", "extend", "pop", "get", "clear", "copy", "keys",
  "values", "items", "index", "count", "sort", "reverse", "discard", "setdefault", "join",
  "split", "strip", "format", "replace", "startswith", "endswith", "lower", "upper", "encode",
  "decode", "read", "write", "close", "find", "match", "search", "sub", "group", "set", "union",
  "difference", "intersection", "popitem", "lstrip", "rstrip", "title", "isdigit", "send",
  "filter", "all", "max", "min", "next", "convert", "__init__", "__getitem__", "__contains__",
}


class CallGraph(object):
  def __init__(self, world):
    self.w = world
    self.repo = world.repo
    self._by_method = {}
    for ci in self.repo.classes.values():
      for m, fi in ci.methods.items():
        self._by_method.setdefault(m, []).append(fi)
    self._edges = {}
    self._unresolved = 0
    self._resolved = 0

  # ------------------------------------------------------------------
  def _class_targets(self, ci, meth):
    out = []
    f = self.repo.find_method(ci, meth)
    if f is not None:
      out.append(f)
    for sub in self.repo.subclasses(ci, strict=True):
      if meth in sub.methods:
        out.append(sub.methods[meth])
    return out

  def resolve(self, fn, call):
    """List of FuncInfo the call may invoke (empty when external/builtin/unknown)."""
    f = call.func
    fi = fn.fi
    mod = fi.module
    # getattr(x, name)(...) dynamic dispatch
    if isinstance(f, ast.Call) and dotted(f.func) == "getattr" and f.args:
      base = fn.name(f.args[0]) or ""
      t = fn.type_of(f.args[0])
      if t == T.USERACTIONS or base.endswith("user_actions"):
        return list(self.w.useraction_methods().values())
      if t == T.DOCACTIONS or base.endswith("doc_actions"):
        ci = self.repo.cls(T.DOCACTIONS)
        return [ci.methods[n] for n in self.w.doc_action_names() if n in ci.methods]
      return []
    if isinstance(f, ast.Name):
      nm = f.id
      # local variable holding a bound override method:  method = self._overrides.get((A, T), dflt)
      for v in _local_defs(fi.node, nm):
        if isinstance(v, ast.Call) and (fn.name(v) or "").endswith("_overrides.get") and v.args:
          key = v.args[0]
          out = []
          if isinstance(key, ast.Tuple) and key.elts and isinstance(key.elts[0], ast.Constant):
            act = key.elts[0].value
            out = [m for (a, t), m in self.w.override_methods().items() if a == act]
          if len(v.args) > 1:
            d = fn.name(v.args[1]) or ""
            if d.startswith("self.") and fi.cls is not None:
              out += self._class_targets(fi.cls, d.split(".")[1])
          return out
      # nested def
      q = fi.qualname + "." + nm
      p = fi
      while p is not None:
        if self.repo.has_func(p.qualname + "." + nm):
          return [self.repo.funcs[p.qualname + "." + nm]]
        p = p.parent
      if nm in mod.functions:
        return [mod.functions[nm]]
      if nm in mod.classes:
        init = self.repo.find_method(mod.classes[nm], "__init__")
        return [init] if init else []
      imp = mod.imports.get(nm)
      if imp and imp[0] == "name":
        m2 = self.repo.modules.get(imp[1])
        if m2:
          if imp[2] in m2.functions:
            return [m2.functions[imp[2]]]
          if imp[2] in m2.classes:
            init = self.repo.find_method(m2.classes[imp[2]], "__init__")
            return [init] if init else []
      return []
    if isinstance(f, ast.Attribute):
      meth = f.attr
      recv = f.value
      # super(...).m
      if isinstance(recv, ast.Call) and dotted(recv.func) == "super" and fi.cls is not None:
        for c in self.repo.mro(fi.cls)[1:]:
          if meth in c.methods:
            return [c.methods[meth]]
        return []
      # module.func
      d = dotted(recv)
      if d is not None and "." not in d:
        imp = mod.imports.get(d)
        if imp and imp[0] == "module":
          m2 = self.repo.modules.get(imp[1])
          if m2:
            if meth in m2.functions:
              return [m2.functions[meth]]
            if meth in m2.classes:
              init = self.repo.find_method(m2.classes[meth], "__init__")
              return [init] if init else []
            return []
      t = fn.type_of(recv)
      ci = self.w.typer.class_of(t) if t else None
      if ci is not None:
        return self._class_targets(ci, meth)
      if t is not None:
        return []           # a container pseudo-type: builtin method
      if meth in COLLISION:
        return []
      return list(self._by_method.get(meth, []))
    return []

  def callees(self, fi):
    if fi.qualname in self._edges:
      return self._edges[fi.qualname]
    fn = self.w.fn_of(fi)
    out = {}
    for s in fi.node.body:
      for c in calls_in(s):
        tg = self.resolve(fn, c)
        if tg:
          self._resolved += 1
        else:
          self._unresolved += 1
        for t in tg:
          out[t.qualname] = t
    self._edges[fi.qualname] = out
    return out

  def reaches(self, seeds, cut=()):
    """Set of qualnames of functions from which some seed function is reachable. Edges *into*
    the functions named in `cut` are ignored."""
    callers = {}
    for fi in self.repo.all_functions():
      for q in self.callees(fi):
        if q in cut:
          continue
        callers.setdefault(q, set()).add(fi.qualname)
    self._callers = callers
    out = set(seeds)
    work = list(seeds)
    while work:
      x = work.pop()
      for c in callers.get(x, ()):
        if c not in out:
          out.add(c)
          work.append(c)
    return out


def _local_defs(fnode, name):
  out = []
  for s in fnode.body:
    for n in walk_no_nested(s):
      if isinstance(n, ast.Assign):
        for t in n.targets:
          if isinstance(t, ast.Name) and t.id == name:
            out.append(n.value)
  return out


  def witness_chain(self, start, targets, cut=()):
    """A call chain (list of qualnames) from `start` to any function in `targets`."""
    from collections import deque
    prev = {start: None}
    dq = deque([start])
    while dq:
      x = dq.popleft()
      if x in targets and x != start:
        out = [x]
        while prev[out[-1]] is not None:
          out.append(prev[out[-1]])
        return list(reversed(out))
      fi = self.repo.funcs.get(x)
      if fi is None:
        continue
      for q in self.callees(fi):
        if q in cut or q in prev:
          continue
        prev[q] = x
        dq.append(q)
    return None
