"""
Light receiver typing for call resolution (no execution; a small points-to over names).

Types are tags: a class qualname ('engine.Engine') or a pseudo tag for containers
('dict[table.Table]', 'list:ActionGroup.undo', 'Schema', 'SchemaTable', 'SchemaColumns').

Sources of knowledge, in order:
  1. constructor propagation, read from the code on every run:
       self.X = mod.Class(...)  inside Class0.__init__  =>  (Class0, X) : Class
       self.X = []|{}|set()     =>  (Class0, X) : 'list:Class0.X' etc.
  2. a small frozen seed table (one reason per line) for container element types and for
     attributes initialised from constructor parameters.
"""
import ast
from .index import dotted, AnalysisError
from .astutil import walk_no_nested, func_body_walk, assigned_names

ENGINE = "engine.Engine"
TABLE = "table.Table"
COLUMN = "column.BaseColumn"
ACTIONGROUP = "action_obj.ActionGroup"
SUMMARY = "action_summary.ActionSummary"
DOCMODEL = "docmodel.DocModel"
DOCACTIONS = "docactions.DocActions"
USERACTIONS = "useractions.UserActions"
GRAPH = "depend.Graph"

# (owner tag, attribute) -> tag.  Reasons:
SEED_ATTRS = {
  (ENGINE, "tables"): "dict[table.Table]",       # Engine.rebuild_usercode fills it with Table objects
  (ENGINE, "schema"): "Schema",                  # OrderedDict tableId -> schema.SchemaTable
  ("SchemaTable", "columns"): "SchemaColumns",   # OrderedDict colId -> schema.SchemaColumn
  (TABLE, "all_columns"): "dict[column.BaseColumn]",  # Table._rebuild_model fills with columns
  (TABLE, "_back_references"): "set[column.BaseColumn]",  # BaseReferenceColumn.__init__ adds self
  (TABLE, "_engine"): ENGINE,                    # Table(table_id, engine)
  (COLUMN, "_table"): TABLE,                     # BaseColumn(table, ...)
}
# attribute names that carry the same type on every class that has them (set from ctor params)
SEED_ATTR_NAMES = {
  "_engine": ENGINE, "engine": ENGINE,           # DocActions/UserActions/DocModel/... (engine)
  "_docmodel": DOCMODEL, "docmodel": DOCMODEL,
  "_useractions": USERACTIONS, "useractions": USERACTIONS, "user_actions": USERACTIONS,
  "doc_actions": DOCACTIONS,
  "out_actions": ACTIONGROUP,
}
SEED_PARAM_NAMES = {
  "engine": ENGINE, "eng": ENGINE, "docmodel": DOCMODEL, "useractions": USERACTIONS,
}
# method results: (owner tag, method) -> tag
SEED_RESULTS = {
  (TABLE, "get_column"): COLUMN,
  ("dict[table.Table]", "get"): TABLE,
  ("dict[column.BaseColumn]", "get"): COLUMN,
  ("Schema", "get"): "SchemaTable",
  ("Schema", "pop"): "SchemaTable",
}


class Typer(object):
  def __init__(self, repo):
    self.repo = repo
    self.attrs = dict(SEED_ATTRS)
    self._ctor_propagation()
    self._cache = {}

  def _ctor_propagation(self):
    for ci in self.repo.classes.values():
      init = ci.methods.get("__init__")
      if init is None:
        continue
      for n in func_body_walk(init.node):
        if not (isinstance(n, ast.Assign) and len(n.targets) == 1):
          continue
        t = n.targets[0]
        if not (isinstance(t, ast.Attribute) and isinstance(t.value, ast.Name) and t.value.id == "self"):
          continue
        v = n.value
        key = (ci.qualname, t.attr)
        if isinstance(v, ast.Call):
          c = self.repo.resolve_class_name(ci.module, dotted(v.func))
          if c is not None:
            self.attrs.setdefault(key, c.qualname)
          elif dotted(v.func) in ("set", "SortedSet"):
            self.attrs.setdefault(key, "set:%s.%s" % (ci.name, t.attr))
          elif dotted(v.func) in ("OrderedDict", "dict", "defaultdict"):
            self.attrs.setdefault(key, "dict:%s.%s" % (ci.name, t.attr))
        elif isinstance(v, ast.List):
          self.attrs.setdefault(key, "list:%s.%s" % (ci.name, t.attr))
        elif isinstance(v, ast.Dict):
          self.attrs.setdefault(key, "dict:%s.%s" % (ci.name, t.attr))

  # ------------------------------------------------------------------
  def class_of(self, tag):
    return self.repo.classes.get(tag) if tag else None

  def attr_type(self, owner, attr):
    if owner is not None:
      ci = self.class_of(owner)
      if ci is not None:
        for c in self.repo.mro(ci):
          t = self.attrs.get((c.qualname, attr))
          if t is not None:
            return t
        # subclasses of column.BaseColumn share its seeds
      t = self.attrs.get((owner, attr))
      if t is not None:
        return t
      if ci is not None and any(c.qualname == COLUMN for c in self.repo.mro(ci)):
        t = self.attrs.get((COLUMN, attr))
        if t is not None:
          return t
    return SEED_ATTR_NAMES.get(attr)

  def elem(self, tag):
    """Element type of a container tag."""
    if tag and "[" in tag and tag.endswith("]"):
      return tag[tag.index("[") + 1:-1]
    if tag == "Schema":
      return "SchemaTable"
    return None

  def env(self, fi):
    """Local variable -> tag for function fi (flow-insensitive; conflicting tags -> None)."""
    if fi.qualname in self._cache:
      return self._cache[fi.qualname]
    env = {}
    if fi.cls is not None and fi.params()[:1] == ["self"]:
      env["self"] = fi.cls.qualname
    for p in fi.params():
      if p in SEED_PARAM_NAMES:
        env[p] = SEED_PARAM_NAMES[p]
    # closures see the enclosing function's environment
    if fi.parent is not None:
      for k, v in self.env(fi.parent).items():
        env.setdefault(k, v)
    conflicts = set()
    def bind(name, tag):
      if tag is None:
        return
      if name in env and env[name] != tag:
        conflicts.add(name)
      env.setdefault(name, tag)
    for _ in range(3):   # small fixpoint for chains of local assignments
      for n in func_body_walk(fi.node):
        if isinstance(n, ast.Assign) and len(n.targets) == 1:
          t = n.targets[0]
          if isinstance(t, ast.Name):
            bind(t.id, self.type_of(n.value, env))
          elif isinstance(t, ast.Tuple) and isinstance(n.value, ast.Tuple) and \
              len(t.elts) == len(n.value.elts):
            for a, b in zip(t.elts, n.value.elts):
              if isinstance(a, ast.Name):
                bind(a.id, self.type_of(b, env))
        elif isinstance(n, (ast.For, ast.comprehension)):
          self._bind_iter(n.target, n.iter, env, bind)
    for c in conflicts:
      env[c] = None
    self._cache[fi.qualname] = env
    return env

  def _bind_iter(self, target, it, env, bind):
    # for x in C.values() / for k, x in C.items() / for x in C / sorted(C...) wrappers
    while isinstance(it, ast.Call) and dotted(it.func) in ("sorted", "list", "reversed", "iter",
                                                          "enumerate", "tuple"):
      if dotted(it.func) == "enumerate":
        if isinstance(target, ast.Tuple) and len(target.elts) == 2:
          target = target.elts[1]
        else:
          return
      if not it.args:
        return
      it = it.args[0]
    if isinstance(it, ast.Call) and isinstance(it.func, ast.Attribute) and \
        it.func.attr in ("values", "items", "keys") and not it.args:
      ctag = self.type_of(it.func.value, env)
      et = self.elem(ctag)
      if et is None:
        return
      if it.func.attr == "values" and isinstance(target, ast.Name):
        bind(target.id, et)
      elif it.func.attr == "items" and isinstance(target, ast.Tuple) and len(target.elts) == 2 \
          and isinstance(target.elts[1], ast.Name):
        bind(target.elts[1].id, et)
      return
    ctag = self.type_of(it, env)
    if ctag and ctag.startswith(("set[", "list[")) and isinstance(target, ast.Name):
      bind(target.id, self.elem(ctag))

  def type_of(self, expr, env):
    if isinstance(expr, ast.Name):
      return env.get(expr.id)
    if isinstance(expr, ast.Attribute):
      owner = self.type_of(expr.value, env)
      return self.attr_type(owner, expr.attr)
    if isinstance(expr, ast.Subscript):
      owner = self.type_of(expr.value, env)
      return self.elem(owner)
    if isinstance(expr, ast.Call):
      f = expr.func
      if isinstance(f, ast.Attribute):
        owner = self.type_of(f.value, env)
        if owner is not None:
          r = SEED_RESULTS.get((owner, f.attr))
          if r is not None:
            return r
          ci = self.class_of(owner)
          if ci is not None and any(c.qualname == TABLE for c in self.repo.mro(ci)):
            return SEED_RESULTS.get((TABLE, f.attr))
        return None
      return None
    if isinstance(expr, ast.BoolOp):
      ts = {self.type_of(v, env) for v in expr.values}
      ts.discard(None)
      if len(ts) == 1:
        return ts.pop()
    if isinstance(expr, ast.IfExp):
      a, b = self.type_of(expr.body, env), self.type_of(expr.orelse, env)
      return a if a == b else (a or b)
    return None

  def is_column(self, tag):
    if tag is None:
      return False
    if tag == COLUMN:
      return True
    ci = self.class_of(tag)
    return ci is not None and any(c.qualname == COLUMN for c in self.repo.mro(ci))
