"""
Branch-sensitive guard queries over the statement CFG.

`facts(test, polarity)` reads what a branch of `if test:` establishes about the atoms of the test:
  facts(`a and not b`, True)  = {(a, True), (b, False)};  facts(`a or b`, False) = {(a, False), (b, False)}.
`guarded_by(cfg, nid, atom, want)` decides "on every path from the entry to node nid, the last thing
known about `atom` is that its truth value is `want`", independent of how the guard is spelled:
`if c: X`, `if not c: return` + X, `if not c: ... else: X`, `if c and d: X` all guard X by c.
Atoms are compared by a caller-supplied predicate over expressions (usually normalised text).
`kills` are CFG node ids that may change the atom's value (assignments to it): a path from a kill to
nid that does not cross an establishing edge again loses the guard.
"""
import ast


_POS = {ast.NotIn: ast.In, ast.IsNot: ast.Is, ast.NotEq: ast.Eq}


def facts(test, polarity=True):
  """List of (expr, bool) pairs known when `test` evaluated to `polarity`. Negative comparisons are
  reported through their positive form (`a not in b` false == `a in b` true); a disjunction known
  true (or a conjunction known false) is reported whole, as one opaque atom."""
  out = []
  def go(e, pol):
    if isinstance(e, ast.UnaryOp) and isinstance(e.op, ast.Not):
      go(e.operand, not pol)
      return
    if isinstance(e, ast.BoolOp):
      if isinstance(e.op, ast.And) and pol:
        for v in e.values:
          go(v, True)
        return
      if isinstance(e.op, ast.Or) and not pol:
        for v in e.values:
          go(v, False)
        return
      out.append((e, pol))
      return
    if isinstance(e, ast.Compare) and len(e.ops) == 1 and type(e.ops[0]) in _POS:
      pos = ast.Compare(left=e.left, ops=[_POS[type(e.ops[0])]()], comparators=e.comparators)
      ast.copy_location(pos, e)
      out.append((pos, not pol))
      return
    out.append((e, pol))
  go(test, polarity)
  return out


def establishing_edges(cfg, atom, want=True):
  """Edges (if-node id, successor id) on which `atom` (predicate over an expression) is known to
  have truth value `want`."""
  edges = set()
  for n in cfg.nodes:
    if n.kind != "if" or n.id not in cfg.if_true:
      continue
    t_succ = cfg.if_true[n.id]
    exc = cfg.if_exc.get(n.id, set())
    f_succ = set(cfg.succ[n.id]) - t_succ - exc
    if any(atom(e) and pol == want for (e, pol) in facts(n.stmt.test, True)):
      edges |= {(n.id, s) for s in t_succ}
    if any(atom(e) and pol == want for (e, pol) in facts(n.stmt.test, False)):
      edges |= {(n.id, s) for s in f_succ}
  return edges


def _reach_cut(cfg, starts, cut_edges, stops=()):
  seen = set(starts)
  todo = list(starts)
  while todo:
    a = todo.pop()
    if a in stops:
      continue
    for b in cfg.succ[a]:
      if (a, b) in cut_edges or b in seen:
        continue
      seen.add(b)
      todo.append(b)
  return seen


def guarded_by(cfg, nid, atom, want=True, kills=()):
  """True iff every entry->nid path crosses an edge establishing atom == want after its last kill."""
  edges = establishing_edges(cfg, atom, want)
  if not edges:
    return False
  starts = {cfg.entry.id}
  # a kill node loses the fact for what follows it
  for k in kills:
    starts |= set(cfg.succ[k])
  return nid not in _reach_cut(cfg, starts, edges)


def text_atom(*texts):
  """Atom predicate: the expression's unparsed text is one of `texts`."""
  want = set(texts)
  def pred(e):
    try:
      return ast.unparse(e) in want
    except Exception:
      return False
  return pred


def branch_successors(cfg, nid):
  """(successors taken when the `if` test at nid is true, successors taken when it is false)."""
  t = set(cfg.if_true.get(nid, ()))
  f = set(cfg.succ[nid]) - t - set(cfg.if_exc.get(nid, ()))
  return t, f


def eval_test(expr, atom_value):
  """Three-valued evaluation of a test under `atom_value(expr) -> True | False | None` (None:
  unknown). not/and/or are interpreted; everything else is an atom. Negative comparisons are
  handed to atom_value in their positive form and the answer is flipped."""
  if isinstance(expr, ast.UnaryOp) and isinstance(expr.op, ast.Not):
    v = eval_test(expr.operand, atom_value)
    return None if v is None else (not v)
  if isinstance(expr, ast.BoolOp):
    vals = [eval_test(v, atom_value) for v in expr.values]
    if isinstance(expr.op, ast.And):
      if any(v is False for v in vals):
        return False
      return True if all(v is True for v in vals) else None
    if any(v is True for v in vals):
      return True
    return False if all(v is False for v in vals) else None
  if isinstance(expr, ast.Compare) and len(expr.ops) == 1 and type(expr.ops[0]) in _POS:
    pos = ast.Compare(left=expr.left, ops=[_POS[type(expr.ops[0])]()], comparators=expr.comparators)
    v = atom_value(pos)
    return None if v is None else (not v)
  return atom_value(expr)


def reaches_under(cfg, starts, targets, stops, atom_value):
  """Follow the CFG from `starts` under a truth assignment of test atoms: at an `if` whose test
  evaluates to a definite value only that branch is taken (both when unknown). Exceptional edges
  are not followed. Returns (reached_some_target, met_unknown_test). `stops` are not passed."""
  seen = set()
  todo = list(starts)
  unknown = False
  hit = False
  while todo:
    a = todo.pop()
    if a in seen:
      continue
    seen.add(a)
    if a in targets:
      hit = True
      continue
    if a in stops:
      continue
    n = cfg.nodes[a]
    nxt = set(b for b in cfg.succ[a] if (a, b) not in cfg.exc_edges)
    if n.kind == "if" and a in cfg.if_true:
      v = eval_test(n.stmt.test, atom_value)
      t, f = branch_successors(cfg, a)
      if v is True:
        nxt = t
      elif v is False:
        nxt = f - {b for b in f if (a, b) in cfg.exc_edges}
      else:
        unknown = True
    todo.extend(nxt)
  return hit, unknown


def reachable_with_flags(cfg, starts, targets, stops=(), follow_exc=True, env0=None):
  """Is some node of `targets` reachable from `starts` when boolean *flag* locals are tracked?
  A flag is a local assigned the constants True/False; along a path its last assignment is
  remembered and `if` tests made of flags (with not/and/or) take only the branch that value
  selects. Any other assignment to the name forgets it. `stops` are not passed. Exceptional
  edges are followed when follow_exc. Returns a witness path (list of node ids) or None."""
  def step_env(n, env):
    s = n.stmt
    if n.kind == "stmt" and isinstance(s, ast.Assign):
      names = [t.id for t in s.targets if isinstance(t, ast.Name)]
      if names:
        env = dict(env)
        for nm in names:
          if isinstance(s.value, ast.Constant) and isinstance(s.value.value, bool):
            env[nm] = s.value.value
          else:
            env.pop(nm, None)
        return env
    if n.kind in ("for", "with") or (n.kind == "stmt" and isinstance(s, (ast.AugAssign, ast.AnnAssign))):
      killed = set()
      for x in ast.walk(s.target if hasattr(s, "target") else s):
        if isinstance(x, ast.Name) and isinstance(x.ctx, ast.Store):
          killed.add(x.id)
      if killed & set(env):
        env = {k: v for k, v in env.items() if k not in killed}
    return env
  seen = set()
  todo = [(a, tuple(sorted((env0 or {}).items())), (a,)) for a in starts]
  while todo:
    a, envt, path = todo.pop()
    if (a, envt) in seen:
      continue
    seen.add((a, envt))
    if a in targets:
      return list(path)
    if a in stops:
      continue
    n = cfg.nodes[a]
    env = dict(envt)
    nxt = set(cfg.succ[a])
    if not follow_exc:
      nxt = {b for b in nxt if (a, b) not in cfg.exc_edges}
    if n.kind == "if" and a in cfg.if_true:
      def av(e):
        return env.get(e.id) if isinstance(e, ast.Name) else None
      v = eval_test(n.stmt.test, av)
      t, f = branch_successors(cfg, a)
      exc = nxt - t - f
      if v is True:
        nxt = t | exc
      elif v is False:
        nxt = f | exc
    env2 = step_env(n, env)
    # an exceptional edge leaves before the node's own assignment took effect
    for b in nxt:
      e_use = env if (a, b) in cfg.exc_edges else env2
      todo.append((b, tuple(sorted(e_use.items())), path + (b,)))
  return None

