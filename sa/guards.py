"""
Branch-sensitive guard queries over the statement CFG.

`facts(test, polarity)` reads what a branch of `if test:` establishes about the atoms of the test:
  facts(`a and not b`, True)  = {(a, True), (b, False)};  facts(`a or b`, False) = {(a, False), (b, False)}.
`guarded_by(cfg, nid, atom, want)` decides "on every path from the entry to node nid, the last thing
known about `atom` is that its truth value is `want`", independent of how the guard is spelled:
`if c: X`, `if not c: return` + X, `if not c: ... else: X`, `if c and d: X` all guard X by c.
Atoms are compared by a caller-supplied predicate over expressions (usually normalised text).
`kills` are CFG node ids that may change the atom's value (assignments to it): a path from a kill to
nid that does not cross an establishing edge again loses the guard.
"""
import ast


def facts(test, polarity=True):
  """Set of (expr, bool) pairs known when `test` evaluated to `polarity`."""
  out = []
  def go(e, pol):
    if isinstance(e, ast.UnaryOp) and isinstance(e.op, ast.Not):
      go(e.operand, not pol)
      return
    if isinstance(e, ast.BoolOp):
      if isinstance(e.op, ast.And) and pol:
        for v in e.values:
          go(v, True)
        return
      if isinstance(e.op, ast.Or) and not pol:
        for v in e.values:
          go(v, False)
        return
      return
    out.append((e, pol))
  go(test, polarity)
  return out


def establishing_edges(cfg, atom, want=True):
  """Edges (if-node id, successor id) on which `atom` (predicate over an expression) is known to
  have truth value `want`."""
  edges = set()
  for n in cfg.nodes:
    if n.kind != "if" or n.id not in cfg.if_true:
      continue
    t_succ = cfg.if_true[n.id]
    exc = cfg.if_exc.get(n.id, set())
    f_succ = set(cfg.succ[n.id]) - t_succ - exc
    if any(atom(e) and pol == want for (e, pol) in facts(n.stmt.test, True)):
      edges |= {(n.id, s) for s in t_succ}
    if any(atom(e) and pol == want for (e, pol) in facts(n.stmt.test, False)):
      edges |= {(n.id, s) for s in f_succ}
  return edges


def _reach_cut(cfg, starts, cut_edges):
  seen = set(starts)
  todo = list(starts)
  while todo:
    a = todo.pop()
    for b in cfg.succ[a]:
      if (a, b) in cut_edges or b in seen:
        continue
      seen.add(b)
      todo.append(b)
  return seen


def guarded_by(cfg, nid, atom, want=True, kills=()):
  """True iff every entry->nid path crosses an edge establishing atom == want after its last kill."""
  edges = establishing_edges(cfg, atom, want)
  if not edges:
    return False
  starts = {cfg.entry.id}
  # a kill node loses the fact for what follows it
  for k in kills:
    starts |= set(cfg.succ[k])
  return nid not in _reach_cut(cfg, starts, edges)


def text_atom(*texts):
  """Atom predicate: the expression's unparsed text is one of `texts`."""
  want = set(texts)
  def pred(e):
    try:
      return ast.unparse(e) in want
    except Exception:
      return False
  return pred
