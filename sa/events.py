"""
Repository-specific event predicates, filled from the code's own roles:
which call records an inverse, which call mutates column data / the schema, which call is the
gateway, and so on. Each predicate has the signature pred(call, expanded_dotted_name, fn).
"""
import ast
from .astutil import endswith, text, calls_in, walk_no_nested
from .index import dotted, AnalysisError
from . import types as T

COLUMN_MUTATORS = ("set", "unset", "copy_from_column", "clear")
ENGINE_MUTATORS = ("add_records", "load_table", "rebuild_usercode")
SCHEMA_TAGS = ("Schema", "SchemaColumns")
DICT_WRITE_METHODS = ("pop", "popitem", "clear", "update", "setdefault", "__setitem__",
                      "__delitem__", "move_to_end")


def is_undo_record(c, nm, fn):
  return endswith(nm, "out_actions.undo.append", "out_actions.undo.insert",
                  "out_actions.undo.extend")


def is_summary_add_changes(c, nm, fn):
  return endswith(nm, "out_actions.summary.add_changes", "summary.add_changes") and \
      (endswith(nm, "out_actions.summary.add_changes") or
       fn.type_of(c.func.value) == T.SUMMARY)


def is_engine_call(method):
  def pred(c, nm, fn):
    if not (isinstance(c.func, ast.Attribute) and c.func.attr == method):
      return False
    rt = fn.type_of(c.func.value)
    if rt == T.ENGINE:
      return True
    return endswith(nm, "_engine." + method, "engine." + method)
  return pred


def column_method_owner_ok(world, method):
  """True when every repo class defining `method` is a column class (so resolution by name is
  sound for untyped receivers)."""
  owners = [ci for ci in world.repo.classes.values() if method in ci.methods]
  return bool(owners) and all(world.typer.is_column(ci.qualname) for ci in owners)


def is_column_mutation(c, nm, fn):
  """A call that writes column storage: Column.set/unset/copy_from_column/clear."""
  if not isinstance(c.func, ast.Attribute):
    return False
  m = c.func.attr
  if m not in COLUMN_MUTATORS:
    return False
  # super(X, self).set(...) inside column classes is the column's own implementation chain
  rt = fn.type_of(c.func.value)
  if fn.world.typer.is_column(rt):
    return True
  if rt is not None:
    return False
  if m == "clear":
    return False       # dict/set/list .clear() on untyped receivers: needs a typed receiver
  if m == "set" and len(c.args) + len(c.keywords) < 2:
    return False       # Event.set() and the like
  if isinstance(c.func.value, ast.Call) and dotted(c.func.value.func) == "super":
    return fn.fi.cls is not None and fn.world.typer.is_column(fn.fi.cls.qualname)
  return column_method_owner_ok(fn.world, m)


def is_engine_mutation(c, nm, fn):
  return any(is_engine_call(m)(c, nm, fn) for m in ENGINE_MUTATORS)


def schema_write_nodes(fn, cfg=None):
  """ids of CFG nodes that write Engine.schema or a SchemaTable.columns dict, or rebind
  Engine.schema itself."""
  cfg = cfg or fn.cfg
  out = set()
  for n in cfg.nodes:
    s = n.stmt
    if s is None:
      continue
    hit = False
    if n.kind == "stmt":
      targets = []
      if isinstance(s, ast.Assign):
        targets = s.targets
      elif isinstance(s, (ast.AugAssign, ast.AnnAssign)):
        targets = [s.target]
      elif isinstance(s, ast.Delete):
        targets = s.targets
      for t in targets:
        for el in (t.elts if isinstance(t, (ast.Tuple, ast.List)) else [t]):
          if isinstance(el, ast.Subscript) and fn.type_of(el.value) in SCHEMA_TAGS:
            hit = True
          if isinstance(el, ast.Attribute) and el.attr == "schema" and \
              fn.type_of(el.value) == T.ENGINE:
            hit = True
    for c in calls_in(n.exprs):
      if isinstance(c.func, ast.Attribute) and c.func.attr in DICT_WRITE_METHODS and \
          fn.type_of(c.func.value) in SCHEMA_TAGS:
        hit = True
    if hit:
      out.add(n.id)
  return out


def mutation_nodes(fn, cfg=None):
  cfg = cfg or fn.cfg
  out = fn.nodes_calling(is_column_mutation, cfg) | fn.nodes_calling(is_engine_mutation, cfg)
  return out | schema_write_nodes(fn, cfg)


def is_gateway_call(c, nm, fn):
  return isinstance(c.func, (ast.Attribute, ast.Name)) and \
      (endswith(nm, "_do_doc_action") or endswith(nm, "_do_extra_doc_action"))


def is_strict_gateway_call(c, nm, fn):
  return endswith(nm, "_do_doc_action")


def action_ctor(expr, action_names, fn=None):
  """If expr constructs a doc action -- actions.X(...), X(...), optionally followed by
  .simplify() -- return (name, Call), else None."""
  e = expr
  if isinstance(e, ast.Call) and isinstance(e.func, ast.Attribute) and e.func.attr == "simplify":
    e = e.func.value
  if isinstance(e, ast.Call):
    d = dotted(e.func)
    if d is not None:
      last = d.split(".")[-1]
      if last in action_names and (d == last or d == "actions." + last):
        return (last, e)
  return None


def local_defs(fnode, name):
  """All assignment value nodes `name = <value>` in the function (any depth, not nested defs)."""
  out = []
  for s in fnode.body:
    for n in walk_no_nested(s):
      if isinstance(n, ast.Assign):
        for t in n.targets:
          if isinstance(t, ast.Name) and t.id == name:
            out.append(n.value)
      elif isinstance(n, ast.AnnAssign) and isinstance(n.target, ast.Name) and \
          n.target.id == name and n.value is not None:
        out.append(n.value)
  return out
