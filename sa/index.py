"""
Source index: parses every non-test module of the data engine (never imports or runs it).

Nothing here executes repository code; everything is ast over the current working tree.
"""
import ast
import os

REPO = os.environ.get("VERIF_REPO", "/repo")
GRIST = os.path.join(REPO, "sandbox", "grist")


class AnalysisError(Exception):
  """The checker cannot decide (anchor vanished, unsupported construct, floor not met)."""


class FuncInfo(object):
  def __init__(self, module, cls, node, qualname, parent=None):
    self.module = module      # Module
    self.cls = cls            # ClassInfo or None
    self.node = node          # ast.FunctionDef
    self.qualname = qualname  # 'engine.Engine._recompute_step'
    self.parent = parent      # enclosing FuncInfo for closures
    self.name = node.name

  @property
  def path(self):
    return self.module.relpath

  def params(self):
    a = self.node.args
    return [x.arg for x in a.posonlyargs + a.args]

  def decorators(self):
    return self.node.decorator_list

  def __repr__(self):
    return "<Func %s>" % self.qualname


class ClassInfo(object):
  def __init__(self, module, node, qualname):
    self.module = module
    self.node = node
    self.qualname = qualname
    self.name = node.name
    self.methods = {}       # name -> FuncInfo
    self.inner = {}         # name -> ClassInfo (nested classes)
    self.base_names = [dotted(b) for b in node.bases]

  def __repr__(self):
    return "<Class %s>" % self.qualname


class Module(object):
  def __init__(self, name, path, relpath, source, tree):
    self.name = name
    self.path = path
    self.relpath = relpath
    self.source = source
    self.tree = tree
    self.functions = {}     # top-level name -> FuncInfo
    self.classes = {}       # top-level name -> ClassInfo
    self.imports = {}       # local alias -> ('module', modname) | ('name', modname, attr)
    self.assigns = {}       # top-level simple Name assignment -> value node (last one)


def dotted(node):
  """'a.b.c' for Name/Attribute chains, else None."""
  parts = []
  while isinstance(node, ast.Attribute):
    parts.append(node.attr)
    node = node.value
  if isinstance(node, ast.Name):
    parts.append(node.id)
    return ".".join(reversed(parts))
  return None


def _is_test_file(fname):
  base = os.path.basename(fname)
  return (base.startswith("test_") or base.endswith("_test.py") or base in
          ("testutil.py", "testscript.py", "runtests.py", "xmlrunner.py", "gen_test_data.py"))


class Repo(object):
  """
  Index of the engine's modules. Module names are the import names used in the repo
  ('engine', 'functions.lookup', 'imports.import_csv', 'gen_js_schema').
  """
  def __init__(self, repo_root=None):
    self.root = repo_root or REPO
    self.grist = os.path.join(self.root, "sandbox", "grist")
    self.modules = {}
    self.funcs = {}     # qualname -> FuncInfo
    self.classes = {}   # qualname -> ClassInfo
    self._load()

  # ------------------------------------------------------------------ loading
  def _load(self):
    if not os.path.isdir(self.grist):
      raise AnalysisError("sandbox/grist not found under %s" % self.root)
    files = []
    for sub, prefix in (("", ""), ("functions", "functions."), ("imports", "imports.")):
      d = os.path.join(self.grist, sub)
      if not os.path.isdir(d):
        continue
      for f in sorted(os.listdir(d)):
        if f.endswith(".py") and not _is_test_file(f):
          name = prefix + f[:-3]
          if f == "__init__.py":
            name = prefix.rstrip(".") or "__init__"
          files.append((name, os.path.join(d, f)))
    gjs = os.path.join(self.root, "sandbox", "gen_js_schema.py")
    if os.path.exists(gjs):
      files.append(("gen_js_schema", gjs))
    for name, path in files:
      try:
        with open(path, encoding="utf-8") as fh:
          src = fh.read()
        tree = ast.parse(src, filename=path)
      except SyntaxError as e:
        raise AnalysisError("cannot parse %s: %s" % (path, e))
      mod = Module(name, path, os.path.relpath(path, self.root), src, tree)
      self.modules[name] = mod
      self._index_module(mod)

  def _index_module(self, mod):
    for node in mod.tree.body:
      if isinstance(node, (ast.Import,)):
        for a in node.names:
          mod.imports[a.asname or a.name.split(".")[0]] = ("module", a.name)
      elif isinstance(node, ast.ImportFrom):
        for a in node.names:
          mod.imports[a.asname or a.name] = ("name", node.module, a.name)
      elif isinstance(node, ast.Assign) and len(node.targets) == 1 and \
          isinstance(node.targets[0], ast.Name):
        mod.assigns[node.targets[0].id] = node.value
    self._index_body(mod, mod.tree.body, mod.name, None, None)

  def _index_body(self, mod, body, prefix, cls, parent_func):
    for node in body:
      if isinstance(node, (ast.FunctionDef, ast.AsyncFunctionDef)):
        q = "%s.%s" % (prefix, node.name)
        fi = FuncInfo(mod, cls, node, q, parent_func)
        self.funcs[q] = fi
        if cls is not None and parent_func is None:
          cls.methods[node.name] = fi
        elif cls is None and parent_func is None:
          mod.functions[node.name] = fi
        # closures
        self._index_body(mod, _nested_defs(node), q, cls, fi)
      elif isinstance(node, ast.ClassDef):
        q = "%s.%s" % (prefix, node.name)
        ci = ClassInfo(mod, node, q)
        self.classes[q] = ci
        if cls is None and parent_func is None:
          mod.classes[node.name] = ci
        elif cls is not None:
          cls.inner[node.name] = ci
        self._index_body(mod, node.body, q, ci, None)
      elif isinstance(node, (ast.If, ast.Try, ast.With)):
        # conditional definitions at module/class level
        for sub in _sub_bodies(node):
          self._index_body(mod, sub, prefix, cls, parent_func)

  # ------------------------------------------------------------------ lookups
  def module(self, name):
    m = self.modules.get(name)
    if m is None:
      raise AnalysisError("anchor module vanished: %s" % name)
    return m

  def func(self, qualname):
    f = self.funcs.get(qualname)
    if f is None:
      raise AnalysisError("anchor function vanished: %s" % qualname)
    return f

  def has_func(self, qualname):
    return qualname in self.funcs

  def cls(self, qualname):
    c = self.classes.get(qualname)
    if c is None:
      raise AnalysisError("anchor class vanished: %s" % qualname)
    return c

  def methods_of(self, class_qualname):
    return dict(self.cls(class_qualname).methods)

  def resolve_class_name(self, mod, name):
    """Resolve a base-class / constructor name as written in `mod` to a ClassInfo or None."""
    if name is None:
      return None
    parts = name.split(".")
    if len(parts) == 1:
      if parts[0] in mod.classes:
        return mod.classes[parts[0]]
      imp = mod.imports.get(parts[0])
      if imp and imp[0] == "name":
        m = self.modules.get(imp[1])
        if m and imp[2] in m.classes:
          return m.classes[imp[2]]
      return None
    head, rest = parts[0], parts[1:]
    imp = mod.imports.get(head)
    if imp and imp[0] == "module":
      m = self.modules.get(imp[1])
      if m and len(rest) == 1 and rest[0] in m.classes:
        return m.classes[rest[0]]
    # nested class reference like Outer.Inner in same module
    if head in mod.classes and len(rest) == 1:
      return mod.classes[head].inner.get(rest[0])
    return None

  def mro(self, ci):
    """Linearised ancestors (simple DFS order, good enough for single inheritance + mixins)."""
    out, seen = [], set()
    def go(c):
      if c.qualname in seen:
        return
      seen.add(c.qualname)
      out.append(c)
      for b in c.base_names:
        bc = self.resolve_class_name(c.module, b)
        if bc is not None:
          go(bc)
    go(ci)
    return out

  def subclasses(self, ci, strict=False):
    out = []
    for c in self.classes.values():
      if c is ci:
        if not strict:
          out.append(c)
        continue
      if any(a is ci for a in self.mro(c)[1:]):
        out.append(c)
    return out

  def find_method(self, ci, name):
    for c in self.mro(ci):
      if name in c.methods:
        return c.methods[name]
    return None

  def all_functions(self):
    return list(self.funcs.values())


def _nested_defs(fnode):
  """Function/class definitions directly nested (at any statement depth) inside fnode, not
  descending into further defs."""
  out = []
  def walk(stmts):
    for s in stmts:
      if isinstance(s, (ast.FunctionDef, ast.AsyncFunctionDef, ast.ClassDef)):
        out.append(s)
      else:
        for sub in _sub_bodies(s):
          walk(sub)
  walk(fnode.body)
  return out


def _sub_bodies(stmt):
  bodies = []
  for fld in ("body", "orelse", "finalbody"):
    b = getattr(stmt, fld, None)
    if isinstance(b, list) and b and isinstance(b[0], ast.stmt):
      bodies.append(b)
  for h in getattr(stmt, "handlers", []) or []:
    bodies.append(h.body)
  for c in getattr(stmt, "cases", []) or []:
    bodies.append(c.body)
  return bodies
