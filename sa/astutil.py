"""AST helpers shared by the rules (pure syntax; nothing is evaluated)."""
import ast
from .index import dotted, AnalysisError

FUNC_TYPES = (ast.FunctionDef, ast.AsyncFunctionDef, ast.Lambda)


def walk_no_nested(node, into_lambda=False):
  """ast.walk that does not descend into nested function/class definitions (their bodies do not
  run where they are defined). Comprehensions are entered (they do run). The root itself is always
  entered even when it is a def."""
  stack = [node]
  first = True
  while stack:
    n = stack.pop()
    yield n
    for ch in ast.iter_child_nodes(n):
      if isinstance(ch, (ast.FunctionDef, ast.AsyncFunctionDef, ast.ClassDef)):
        continue
      if isinstance(ch, ast.Lambda) and not into_lambda:
        continue
      stack.append(ch)
    first = False


def func_body_walk(fnode, into_lambda=False):
  """Walk all nodes of a function body, not entering nested defs."""
  for s in fnode.body:
    for n in walk_no_nested(s, into_lambda):
      yield n


def text(node):
  """Normalised source text of a node (ast.unparse: whitespace/comment/quote independent)."""
  try:
    return ast.unparse(node)
  except Exception:  # pragma: no cover
    return "<%s>" % node.__class__.__name__


def short(node, n=110):
  t = text(node).replace("\n", " ")
  return t if len(t) <= n else t[:n - 3] + "..."


def call_name(call):
  """Dotted callee of a Call ('self._engine.apply_doc_action'), or None."""
  return dotted(call.func) if isinstance(call, ast.Call) else None


def attr_tail(call, k=1):
  """Last k components of the dotted callee name, as a tuple; () when not a dotted call."""
  nm = call_name(call)
  if nm is None:
    # method call on a complex receiver: still provide the attr name
    if isinstance(call, ast.Call) and isinstance(call.func, ast.Attribute):
      return (call.func.attr,)
    return ()
  return tuple(nm.split(".")[-k:])


def method_name(call):
  if isinstance(call, ast.Call):
    if isinstance(call.func, ast.Attribute):
      return call.func.attr
    if isinstance(call.func, ast.Name):
      return call.func.id
  return None


def calls_in(nodes, into_lambda=False):
  """All Call nodes inside the given ast node(s), not entering nested defs."""
  if isinstance(nodes, ast.AST):
    nodes = [nodes]
  out = []
  for root in nodes:
    if root is None:
      continue
    for n in walk_no_nested(root, into_lambda):
      if isinstance(n, ast.Call):
        out.append(n)
  return out


def names_in(node):
  return {n.id for n in ast.walk(node) if isinstance(n, ast.Name)}


def names_loaded(node):
  return {n.id for n in ast.walk(node) if isinstance(n, ast.Name) and isinstance(n.ctx, ast.Load)}


def assigned_names(target):
  """Names bound by an assignment target / for target / with-as."""
  out = set()
  for n in ast.walk(target):
    if isinstance(n, ast.Name) and isinstance(n.ctx, (ast.Store, ast.Del)):
      out.add(n.id)
  return out


def stmt_defs(stmt):
  """Names (re)bound by a simple statement or a compound statement header."""
  out = set()
  if isinstance(stmt, ast.Assign):
    for t in stmt.targets:
      out |= assigned_names(t)
  elif isinstance(stmt, (ast.AugAssign, ast.AnnAssign)):
    out |= assigned_names(stmt.target)
  elif isinstance(stmt, (ast.For, ast.AsyncFor)):
    out |= assigned_names(stmt.target)
  elif isinstance(stmt, (ast.With, ast.AsyncWith)):
    for it in stmt.items:
      if it.optional_vars is not None:
        out |= assigned_names(it.optional_vars)
  elif isinstance(stmt, (ast.Import, ast.ImportFrom)):
    for a in stmt.names:
      out.add((a.asname or a.name).split(".")[0])
  for n in ast.walk(stmt) if not isinstance(stmt, (ast.For, ast.With, ast.If, ast.While, ast.Try)) \
      else []:
    if isinstance(n, ast.NamedExpr):
      out |= assigned_names(n.target)
  return out


class Aliases(object):
  """
  Local alias expansion: a local Name assigned exactly once in the function from a pure
  attribute chain (`oa = self._engine.out_actions`) is expanded when computing dotted names, so
  rules see through simple local renaming.
  """
  def __init__(self, fnode):
    counts = {}
    values = {}
    for n in func_body_walk(fnode):
      if isinstance(n, ast.Assign) and len(n.targets) == 1 and isinstance(n.targets[0], ast.Name):
        nm = n.targets[0].id
        counts[nm] = counts.get(nm, 0) + 1
        values[nm] = n.value
      elif isinstance(n, (ast.AugAssign, ast.For, ast.With, ast.NamedExpr, ast.comprehension,
                          ast.AnnAssign, ast.Assign)):
        tgts = []
        if isinstance(n, ast.Assign):
          tgts = n.targets
        elif isinstance(n, (ast.AugAssign, ast.AnnAssign, ast.For, ast.NamedExpr, ast.comprehension)):
          tgts = [n.target]
        elif isinstance(n, ast.With):
          tgts = [i.optional_vars for i in n.items if i.optional_vars is not None]
        for t in tgts:
          for nm in assigned_names(t):
            counts[nm] = counts.get(nm, 0) + 2   # not a simple single alias
    params = {a.arg for a in fnode.args.args + fnode.args.kwonlyargs + fnode.args.posonlyargs}
    self.map = {}
    for nm, c in counts.items():
      if c == 1 and nm not in params:
        d = dotted(values[nm])
        if d is not None and d.split(".")[0] != nm:
          self.map[nm] = d

  def expand(self, name, depth=0):
    """Expand a dotted name through local aliases."""
    if name is None or depth > 5:
      return name
    head, _, rest = name.partition(".")
    if head in self.map:
      base = self.expand(self.map[head], depth + 1)
      return base + ("." + rest if rest else "")
    return name

  def dotted(self, node):
    return self.expand(dotted(node))

  def call_name(self, call):
    return self.dotted(call.func) if isinstance(call, ast.Call) else None


def endswith(name, *suffixes):
  """True when dotted `name` ends with one of the dotted suffixes on a component boundary."""
  if name is None:
    return False
  for s in suffixes:
    if name == s or name.endswith("." + s):
      return True
  return False


def const_str(node):
  if isinstance(node, ast.Constant) and isinstance(node.value, str):
    return node.value
  return None


def is_name(node, ident):
  return isinstance(node, ast.Name) and node.id == ident


def find_stmts(fnode, pred):
  """All statements (at any depth, not in nested defs) of fnode satisfying pred."""
  out = []
  def go(stmts):
    for s in stmts:
      if pred(s):
        out.append(s)
      if isinstance(s, (ast.FunctionDef, ast.AsyncFunctionDef, ast.ClassDef)):
        continue
      for fld in ("body", "orelse", "finalbody"):
        b = getattr(s, fld, None)
        if isinstance(b, list):
          go(b)
      for h in getattr(s, "handlers", []) or []:
        go(h.body)
  go(fnode.body)
  return out


def enclosing_chain(fnode, target):
  """List of compound statements of fnode that lexically enclose ast node `target`
  (outermost first), each as (stmt, fieldname)."""
  chain = []
  def go(stmts, acc):
    for s in stmts:
      if s is target or any(n is target for n in ast.walk(s)):
        if isinstance(s, (ast.FunctionDef, ast.AsyncFunctionDef, ast.ClassDef)) and s is not target:
          return None
        for fld in ("body", "orelse", "finalbody"):
          b = getattr(s, fld, None)
          if isinstance(b, list) and b and isinstance(b[0], ast.stmt):
            if any(any(n is target for n in ast.walk(x)) for x in b):
              r = go(b, acc + [(s, fld)])
              if r is not None:
                return r
        for h in getattr(s, "handlers", []) or []:
          if any(any(n is target for n in ast.walk(x)) for x in h.body):
            r = go(h.body, acc + [(s, "handler")])
            if r is not None:
              return r
        return acc
    return None
  r = go(fnode.body, [])
  if r is None:
    raise AnalysisError("node not found in function")
  return r
