"""C33 JSON import reconstructs the input -- structural clauses (narrow claim of DESIGN.md 4/C33)."""
import ast
from ..fn import World
from ..index import AnalysisError, dotted
from ..astutil import text, short, endswith, calls_in, walk_no_nested
from ..dataflow import DefUse
from .. import events as E
from . import _h_D as H

EXPLANATION = (
  "Decides (R1) that every column _dump_table emits has one value per row *by construction*: the "
  "row dictionaries, each transposed column and the parent-reference column are built by one "
  "unfiltered pass (comprehension or accumulating loop) over the same never-modified `rows`, every "
  "Col is built that way, and the emitted metadata and data iterate the same column dict "
  "unfiltered; (R2) that add_row visits every key of every object, recurses for every dict and "
  "every list element (passing the parent row for list elements), stores a scalar only under the "
  "include test, creates the row reference with the 1-based position the row is about to take, "
  "and that dumps() adds every top-level item; (R3) that the parent-reference column holds each "
  "row's own parent and is added whenever *some* row of the table has a parent (the test scans "
  "all rows, not particular ones); (R4) that no function of the module writes into the "
  "module-level default option containers, directly, through a local alias or through a "
  "parameter whose default value they are (one import's filters would leak into the next). "
  "Guards are read from the CFG (if/else polarity, early "
  "continue/return, `and` chains are equivalent), locals are compared by the value they stand "
  "for, private helpers are followed. Not decided: placement of every scalar, type inference of "
  "columns, the include/exclude prefix semantics.")

M = "imports.import_json"
# module helpers the rules anchor on (never inlined into their callers)
KEEP = ("_transpose", "_dictify", "_is_included", "_dump_table", "_dump_value", "_grist_type")


class Anchors(object):
  """The private helpers the rules look at, found by what they do (their current names are only
  hints): a renamed helper is followed."""
  def __init__(self, w):
    mod = w.repo.module(M)
    tables = w.repo.cls(M + ".Tables")
    self.add_row = tables.methods.get("add_row")
    if self.add_row is None:
      raise AnalysisError("anchor function vanished: %s.Tables.add_row" % M)
    funcs = list(mod.functions.values())

    def returns_table_dict(fi):
      v = H.View(w.fn_of(fi))
      for r in walk_no_nested(fi.node):
        if isinstance(r, ast.Return) and r.value is not None:
          e = v.res(r.value)
          if isinstance(e, ast.Dict) and any(isinstance(k, ast.Constant) and
                                             k.value == "column_metadata" for k in e.keys):
            return True
      return False

    self.dump_table = self._one([f for f in funcs if returns_table_dict(f)], "_dump_table", mod,
                                "the function that returns the jgrist table dict")
    called = {dotted(c.func) for c in calls_in(self.dump_table.node.body)}
    self.transpose = self._one(
      [f for f in funcs if f is not self.dump_table and f.name in called and
       any(dotted(c.func) == "Col" for c in calls_in(f.node.body))], "_transpose", mod,
      "the function that turns row dictionaries into columns")
    ps = self.add_row.params()
    value_p = ps[2] if len(ps) > 2 else None
    self.dictify = self._one(
      [mod.functions[dotted(c.func)] for c in calls_in(self.add_row.node.body)
       if dotted(c.func) in mod.functions and len(c.args) == 1 and not c.keywords and
       text(c.args[0]) == value_p], "_dictify", mod,
      "the function add_row applies to its value before visiting the keys")
    self.is_included = self._one(
      [tables.methods[c.func.attr] for c in calls_in(self.add_row.node.body)
       if isinstance(c.func, ast.Attribute) and isinstance(c.func.value, ast.Name) and
       c.func.value.id == "self" and c.func.attr in tables.methods and
       tables.methods[c.func.attr] is not self.add_row and
       len(tables.methods[c.func.attr].params()) == 2], "_is_included", tables,
      "the include/exclude test of Tables")
    self.keep = tuple({f.name for f in (self.dump_table, self.transpose, self.dictify,
                                        self.is_included)}) + ("_dump_value", "_grist_type")

  @staticmethod
  def _one(cands, hint, owner, what):
    uniq = []
    for f in cands:
      if not any(f is g for g in uniq):
        uniq.append(f)
    named = [f for f in uniq if f.name == hint]
    if named:
      return named[0]
    if len(uniq) == 1:
      return uniq[0]
    raise AnalysisError("%s: %s was not found (hint: %s; %d candidates)"
                        % (M, what, hint, len(uniq)))


_ANCHORS = {}


def anchors(w):
  if id(w) not in _ANCHORS:
    _ANCHORS[id(w)] = (Anchors(w), w)
  return _ANCHORS[id(w)][0]


def check(run, repo, tier):
  w = World(repo)
  r1_equal_length(run, w)
  r2_add_row(run, w)
  r3_parent_column(run, w)
  r4_shared_defaults(run, w)


def _returns(fn):
  return [s for s in walk_no_nested(fn.node) if isinstance(s, ast.Return)]


def _coll(v, e):
  """Collection view of an expression (through locals). AnalysisError when the expression is
  not recognisably built by one pass over something (a violation needs a pass that was seen to
  skip or filter rows, not a spelling that was not understood)."""
  if e is None:
    raise AnalysisError("%s: an expected argument is missing" % v.fn.qualname)
  c = v.collection(e)
  if c is None:
    raise AnalysisError("%s: %s is not recognisably built by one pass over the rows"
                        % (v.fn.qualname, short(e)))
  return c


def _over_all(coll, over):
  """The collection is built from one unfiltered pass over `over` (text of the iterable)."""
  return coll is not None and not coll.conds and coll.iter_text == over


def _never_stops(loop):
  return not any(isinstance(z, (ast.Break, ast.Return)) for b in loop.body
                 for z in walk_no_nested(b)) and not loop.orelse


def r1_equal_length(run, w):
  R1 = run.rule("C33-R1", "every emitted column is an unfiltered comprehension over the same "
                "row list (equal length by construction)", floor=9)
  A = anchors(w)
  KEEP = A.keep
  dt = H.xfn(w, A.dump_table.qualname, keep=KEEP)
  tp = H.xfn(w, A.transpose.qualname, keep=KEEP)
  vd, vt = H.View(dt), H.View(tp)
  run = H.Guarded(run, [vd, vt], keep=KEEP)
  rows = dt.fi.params()[1]
  trows = tp.fi.params()[0]
  for (fn, v, p) in ((dt, vd, rows), (tp, vt, trows)):
    wr = {n for n, names in v._gens().items() if p in names} | v.du.muts.get(p, set())
    run.ob(R1, fn.qualname, "%s is not written" % p, "the row list stays the same object and "
           "length throughout %s" % fn.fi.name, not wr, fi=fn.fi)
  # _dump_table -> _transpose(<one value dictionary per row>)
  calls = [c for (n, c, nm) in dt.calls() if nm == A.transpose.name]
  if len(calls) != 1:
    raise AnalysisError("_dump_table: one call of _transpose expected")
  c = _coll(vd, vd.arg(calls[0], 0)) if len(calls[0].args) + len(calls[0].keywords) == 1 else None
  ok = c is not None and c.kind == "list" and _over_all(c, rows) and c.value == "_v0.values"
  run.ob(R1, dt.qualname, "_transpose([r.values for r in %s])" % rows,
         "one value dictionary per row reaches the transposition (no row is filtered out)", ok,
         fi=dt.fi, node=calls[0])
  colsvar = None
  for s in walk_no_nested(dt.node):
    if isinstance(s, ast.Assign) and s.value is calls[0] and isinstance(s.targets[0], ast.Name):
      colsvar = s.targets[0].id
  if colsvar is None:
    raise AnalysisError("_dump_table: result of _transpose is not bound to a local")
  # every Col(...) built anywhere in the module carries an unfiltered comprehension over rows
  ncol = 0
  for fn, v, rv in ((dt, vd, rows), (tp, vt, trows)):
    for c in calls_in(fn.node.body):
      if dotted(c.func) == "Col":
        ncol += 1
        b = H.bind_args(c, ("type", "values")) or {}
        cc = _coll(v, b.get("values"))
        ok = cc is not None and cc.kind == "list" and _over_all(cc, rv)
        run.ob(R1, fn.qualname, short(c), "a column's values are computed once per row of the "
               "table, rows without the key included", ok, fi=fn.fi, node=c)
  others = [fi.qualname for fi in w.repo.all_functions() if fi.module.name == M and
            fi.qualname not in (dt.qualname, tp.qualname) and
            any(dotted(c.func) == "Col" for c in calls_in(fi.node.body))]
  run.ob(R1, M, "Col(...) constructed only in _dump_table and _transpose",
         "no other code builds columns of another length", not others and ncol >= 2,
         witness=", ".join(others) or None, fi=dt.fi)
  _transpose_keys(run, R1, tp, vt, trows)
  # the emitted dict: metadata and data iterate the same columns, unfiltered
  rets = _returns(dt)
  rv = vd.res(rets[0].value) if len(rets) == 1 else None
  if not isinstance(rv, ast.Dict):
    raise AnalysisError("_dump_table no longer returns one dict literal")
  out = {k.value: x for k, x in zip(rv.keys, rv.values) if isinstance(k, ast.Constant)}
  md = _coll(vd, out.get("column_metadata"))
  td = _coll(vd, out.get("table_data"))
  ok = md is not None and td is not None and md.kind == "list" and td.kind == "list" and \
      _over_all(md, colsvar + ".items()") and _over_all(td, colsvar + ".values()")
  if ok:
    # each element of table_data is itself one value per row of the column
    e = vd.res(out["table_data"])
    elt = e.elt if isinstance(e, ast.ListComp) else None
    inner = _coll(vd, elt) if elt is not None else None
    ok = inner is not None and not inner.conds and \
        text(H._Renamer(dict(td.mapping)).visit(vd.x(inner.iter, at=vd.point_of(e)))) == \
        "_v0.values"
  run.ob(R1, dt.qualname, "column_metadata over %s.items(), table_data over %s.values() / "
         "col.values" % (colsvar, colsvar), "metadata and data list the same columns in the "
         "same order and every value of every column is emitted", ok, fi=dt.fi,
         node=rets[0])
  # nothing but _transpose's result and the parent column enters the column dict
  writers = {n for n, names in vd._gens().items() if colsvar in names} | \
      vd.du.muts.get(colsvar, set())
  bad = []
  for nid in writers:
    s = dt.cfg.nodes[nid].stmt
    if isinstance(s, ast.Assign) and s.value is calls[0]:
      continue
    if isinstance(s, ast.Assign) and isinstance(s.targets[0], ast.Subscript) and \
        vd.denotes(s.value, lambda e: isinstance(e, ast.Call) and dotted(e.func) == "Col"):
      continue
    bad.append(short(s))
  run.ob(R1, dt.qualname, "%s written only by _transpose(...) and %s[..] = Col(...)"
         % (colsvar, colsvar), "only equal-length columns enter the table", not bad,
         witness="; ".join(bad) or None, fi=dt.fi)


def _transpose_keys(run, R1, tp, vt, trows):
  """_transpose: every key seen in any row gets a column; the returned dict holds those."""
  cfg = tp.cfg
  keysrc = None
  for (n, c, nm) in tp.calls():
    f = c.func
    if not (isinstance(f, ast.Attribute) and f.attr == "update" and len(c.args) == 1 and
            isinstance(f.value, ast.Name)):
      continue
    loops = vt.enclosing_loops(n.stmt)
    if len(loops) != 1 or not isinstance(loops[0], ast.For) or \
        not isinstance(loops[0].target, ast.Name):
      continue
    lp = loops[0]
    it = vt.x(lp.iter)
    if isinstance(it, ast.Call) and dotted(it.func) == "reversed" and len(it.args) == 1:
      it = it.args[0]
    tm = vt.loop_map(lp)
    if text(it) == trows and vt.t(c.args[0], tm) == "_v0" and vt.runs_for_all(lp, c):
      keysrc = f.value.id
  # the result: one column per collected key, one value per row (None where the key is absent)
  rets = _returns(tp)
  ok = False
  if keysrc is not None and len(rets) == 1:
    try:
      rc = vt.collection(rets[0].value)
    except AnalysisError:
      rc = None
    if rc is not None and rc.kind == "dict" and not rc.conds:
      it = rc.iter_text
      if it == keysrc + ".items()":
        kv = "_v0_0"
      elif it in (keysrc, keysrc + ".keys()"):
        kv = "_v0"
      else:
        kv = None
      if kv is not None and rc.key == kv:
        try:
          ve = ast.parse(rc.value, mode="eval").body
        except SyntaxError:
          ve = None
        b = H.bind_args(ve, ("type", "values")) if isinstance(ve, ast.Call) and \
            dotted(ve.func) == "Col" else None
        comp = b.get("values") if b else None
        if isinstance(comp, ast.ListComp) and len(comp.generators) == 1 and \
            not comp.generators[0].ifs and text(comp.generators[0].iter) == trows and \
            isinstance(comp.generators[0].target, ast.Name):
          rv_ = comp.generators[0].target.id
          ok = text(comp.elt) in ("%s.get(%s, None)" % (rv_, kv), "%s.get(%s)" % (rv_, kv))
  run.ob(R1, tp.qualname, "for key in <union of all rows' keys>: transpose[key] = Col(.., "
         "[row.get(key, None) for row in rows])",
         "every key of any row becomes a column and a row lacking the key contributes None at "
         "its own position", ok, fi=tp.fi)


def _branch_ok(facts, val, want, allowed_extra=()):
  """facts = what is known relative to the start of one iteration. `want`: the type whose branch
  this is ('dict' / 'list' / None for the scalar branch). Only type tests of the item may
  restrict the branch (plus `allowed_extra` atoms, which must then be known true)."""
  seen = False
  for (a, pol) in facts:
    if want is not None and a == "isinstance(%s, %s)" % (val, want) and pol is True:
      seen = True
    elif a.startswith("isinstance(%s, " % val) and pol is False:
      continue
    elif a in allowed_extra and pol is True:
      continue
    else:
      return False
  if want is None:
    return {("isinstance(%s, dict)" % val, False), ("isinstance(%s, list)" % val, False)} <= facts
  return seen


def r2_add_row(run, w):
  R2 = run.rule("C33-R2", "add_row visits every key, recurses into every dict and list element, "
                "stores scalars under the include test, numbers rows by position", floor=9)
  A = anchors(w)
  KEEP = A.keep
  DICTIFY, INCLUDED = A.dictify.name, A.is_included.name
  fn = H.xfn(w, M + ".Tables.add_row", keep=KEEP)
  v = H.View(fn)
  run = H.Guarded(run, v, keep=KEEP)
  cfg = fn.cfg
  q = fn.qualname
  ps = fn.fi.params()      # self, table, value, parent
  if len(ps) != 4:
    raise AnalysisError("Tables.add_row signature changed: %s" % ps)
  _, p_table, p_value, p_parent = ps
  params = ps[1:]
  loops = [s for s in walk_no_nested(fn.node) if isinstance(s, ast.For) and
           isinstance(s.target, ast.Tuple) and len(s.target.elts) == 2 and
           ".items()" in v.t(s.iter)]
  if len(loops) != 1:
    raise AnalysisError("Tables.add_row: one loop over the value's items expected")
  lp = loops[0]
  tm = v.loop_map(lp)
  head = tm.head
  it = v.x(lp.iter)
  inner = it.args[0] if isinstance(it, ast.Call) and dotted(it.func) == "sorted" and \
      len(it.args) == 1 and not it.keywords else it
  # the loop runs on every path, over all items of the dictified value
  ok = text(inner) == "%s(%s).items()" % (DICTIFY, p_value) and \
      cfg.dominated_by(cfg.exit.id, {head}) and \
      not any(isinstance(z, ast.Break) for b in lp.body for z in walk_no_nested(b))
  run.ob(R2, q, "for (k, val) in sorted(_dictify(%s).items())" % p_value, "every key of the "
         "object is visited (no slice, no filter) and a non-object item is stored under the "
         "unnamed column instead of being dropped", ok, fi=fn.fi, node=lp)
  if not ok:
    return
  kv, vv = "_v0_0", "_v0_1"
  dfy = w.fn_of(A.dictify)
  dv = H.View(dfy)
  dp = dfy.fi.params()[0]
  arms = H.decision_arms(dfy.node)
  got = sorted((sorted(a.facts(dv)), a.kind, text(a.value)) for a in arms)
  want = sorted([([("isinstance(%s, dict)" % dp, True)], "return", dp),
                 ([("isinstance(%s, dict)" % dp, False)], "return", "{'': %s}" % dp)])
  run.ob(R2, dfy.qualname, "return value if isinstance(value, dict) else {'': value}",
         "objects are kept as they are, anything else becomes a one-cell row", got == want,
         fi=dfy.fi)
  rowvar = _row_var(fn, v)
  sub = "%s + '_' + %s" % (p_table, kv)
  in_loop = lambda node: any(y is node for b in lp.body for y in ast.walk(b))
  recs = [(n, c) for (n, c, nm) in fn.calls() if text(c.func) == "self.add_row" and in_loop(c)]

  def info_of(c, mapping):
    b = H.bind_args(c, params)
    return {k: v.t(x, mapping) for k, x in b.items()} if b is not None else None

  # dict branch: the item itself is handed to the recursive call
  dict_calls = [(n, c) for (n, c) in recs if (info_of(c, tm) or {}).get(p_value) == vv]
  ok = len(dict_calls) == 1
  if ok:
    n, c = dict_calls[0]
    info = info_of(c, tm)
    ok = info.get(p_table) == sub and info.get(p_parent, "None") == "None" and \
        _branch_ok(v.facts_at(c, start=head, mapping=tm), vv, "dict")
  run.ob(R2, q, "if isinstance(val, dict): self.add_row(%s, val)" % sub,
         "every nested object (empty ones included) becomes a row of the sub-table named after "
         "its key, unconditionally", ok, fi=fn.fi, node=dict_calls[0][1] if dict_calls else lp)
  stores = []
  for n in cfg.nodes:
    s = n.stmt
    if n.kind == "stmt" and isinstance(s, ast.Assign) and len(s.targets) == 1 and \
        isinstance(s.targets[0], ast.Subscript) and in_loop(s) and \
        v.t(s.targets[0].value, tm) == "%s.values" % rowvar:
      stores.append((n, s))
  subrow = v.t(dict_calls[0][1], tm) if dict_calls else None
  ref_stores = [(n, s) for (n, s) in stores if subrow and v.t(s.value, tm) == "%s.ref" % subrow]
  ok = len(ref_stores) == 1
  if ok:
    n, s = ref_stores[0]
    ok = v.t(s.targets[0].slice, tm) == kv and \
        _branch_ok(v.facts_at(s, start=head, mapping=tm), vv, "dict",
                   allowed_extra=(rowvar, subrow)) and \
        n.id in cfg.reach_after({dict_calls[0][0].id})
  run.ob(R2, q, "%s.values[k] = <sub-row>.ref" % rowvar, "the parent's cell holds the "
         "reference of the row just created for the nested object", ok, fi=fn.fi,
         node=ref_stores[0][1] if ref_stores else lp)
  # list branch: every element, with this row as parent
  list_calls = [(n, c) for (n, c) in recs if not (dict_calls and c is dict_calls[0][1])]
  ok = len(list_calls) == 1
  if ok:
    n, c = list_calls[0]
    inner_loops = [l for l in v.enclosing_loops(n.stmt) if l is not lp]
    ok = len(inner_loops) == 1 and isinstance(inner_loops[0], ast.For) and \
        isinstance(inner_loops[0].target, ast.Name)
    if ok:
      il = inner_loops[0]
      tm2 = H.LoopMap(dict(tm), None)
      tm2[il.target.id] = "_e"
      tm2["%s@%d" % (il.target.id, v.loop_head(il))] = "_e"
      for k in list(tm):
        tm2["%s@%d" % (k, head)] = tm[k]
      ok = v.t(il.iter, tm) == vv and _never_stops(il) and v.runs_for_all(il, c) and \
          info_of(c, tm2) == {p_table: sub, p_value: "_e", p_parent: rowvar} and \
          _branch_ok(v.facts_at(il, start=head, mapping=tm), vv, "list")
  run.ob(R2, q, "elif isinstance(val, list): for x in val: self.add_row(%s, x, %s)"
         % (sub, rowvar), "every element of every array becomes a sub-table row that "
         "points back to this row", ok, fi=fn.fi, node=list_calls[0][1] if list_calls else lp)
  # scalar branch
  sc = [(n, s) for (n, s) in stores if (n, s) not in ref_stores]
  ok = len(sc) == 1
  if ok:
    n, s = sc[0]
    inc = "self.%s(%s)" % (INCLUDED, sub)
    facts = v.facts_at(s, start=head, mapping=tm)
    ok = v.t(s.targets[0].slice, tm) == kv and v.t(s.value, tm) == vv and \
        _branch_ok(facts, vv, None, allowed_extra=(rowvar, inc)) and (inc, True) in facts
  run.ob(R2, q, "else: if %s and self._is_included(%s): %s.values[k] = val"
         % (rowvar, sub, rowvar), "a scalar is stored, as it is, in its own row under "
         "its own key, subject only to the include/exclude test", ok, fi=fn.fi,
         node=sc[0][1] if sc else lp)
  # row creation: Ref(table, len(rows)+1) then rows.append(row), once, under the include test
  mk = [(n, c) for (n, c, nm) in fn.calls() if nm == "Row"]
  app = [(n, c) for (n, c, nm) in fn.calls() if isinstance(c.func, ast.Attribute) and
         c.func.attr == "append" and len(c.args) == 1 and mk and
         (v.t(c.args[0]) in (rowvar, v.t(mk[0][1])) or v.binding(c.args[0]) is mk[0][1])]
  ok = len(mk) == 1 and len(app) == 1
  if ok:
    rowsv = v.t(app[0][1].func.value)
    b = H.bind_args(mk[0][1], ("values", "parent", "ref")) or {}
    ref = v.x(b.get("ref"))
    rb = H.bind_args(ref, ("table_name", "rowid")) if isinstance(ref, ast.Call) and \
        dotted(ref.func) == "Ref" else None
    ok = rb is not None and v.t(b.get("parent")) == p_parent and \
        text(rb.get("table_name")) == p_table and \
        text(rb.get("rowid")) in ("len(%s) + 1" % rowsv, "1 + len(%s)" % rowsv) and \
        app[0][0].id in cfg.reach_after({mk[0][0].id}) and \
        mk[0][0].id not in cfg.reach_after({app[0][0].id}) and \
        cfg.postdominated_by(mk[0][0].id, {app[0][0].id}) and \
        rowsv == "self._tables.setdefault(%s, [])" % p_table
  run.ob(R2, q, "row = Row(.., %s, Ref(%s, len(rows)+1)); rows.append(row)" % (p_parent, p_table),
         "a row's reference is its 1-based position in its table (what a Ref column stores), and "
         "it remembers its parent", ok, fi=fn.fi)
  rets = _returns(fn)
  run.ob(R2, q, "return %s" % rowvar, "the caller receives the row it must reference",
         len(rets) == 1 and v.t(rets[0].value) == rowvar, fi=fn.fi)
  _dumps(run, R2, w, params, p_table, p_value, p_parent)


def _dumps(run, R2, w, params, p_table, p_value, p_parent):
  """dumps(): every top-level item becomes a row of the main table."""
  KEEP = anchors(w).keep
  dm = H.xfn(w, M + ".dumps", keep=KEEP)
  vm = H.View(dm)
  run = H.Guarded(run, vm, keep=KEEP)
  dp = dm.fi.params()
  ok = False
  for (n, c, nm) in dm.calls():
    if not (isinstance(c.func, ast.Attribute) and c.func.attr == "add_row" and
            vm.denotes(c.func.value, lambda e: isinstance(e, ast.Call) and
                       dotted(e.func) == "Tables")):
      continue
    loops_ = vm.enclosing_loops(n.stmt)
    if len(loops_) != 1 or not isinstance(loops_[0], ast.For) or \
        not isinstance(loops_[0].target, ast.Name):
      continue
    l = loops_[0]
    tm = vm.loop_map(l)
    b = H.bind_args(c, params) or {}
    h = tm.head
    # at the loop, the iterable is the data itself when it is a list, or the single item wrapped
    # in a list when it is not
    whole = vm.runs_for_all(l, c) and _never_stops(l) and \
        dm.cfg.dominated_by(dm.cfg.exit.id, {h})
    wrap_ok = _list_or_wrapped(vm, dm, l.iter, h, dp[0])
    ok = ok or (whole and vm.t(b.get(p_table), tm) == dp[1] and
                vm.t(b.get(p_value), tm) == "_v0" and p_parent not in b and wrap_ok)
  run.ob(R2, dm.qualname, "for val in %s: tables.add_row(%s, val)" % (dp[0], dp[1]),
         "every top-level item (or the single root object) becomes a row of the main table",
         ok, fi=dm.fi)


def _list_or_wrapped(vm, dm, it, head, data):
  """Every value the iterable `it` can have at the loop is `data` itself, known to be a list, or
  `[data]`, with data known not to be a list."""
  is_list = "isinstance(%s, list)" % data
  alts = []      # (value expr, facts, def node or None)

  def split(e, at, facts, d):
    e, at = vm.resolve(e, at=at)
    if isinstance(e, ast.IfExp):
      split(e.body, at, facts | vm.test_facts(e.test, True, at=at), d)
      split(e.orelse, at, facts | vm.test_facts(e.test, False, at=at), d)
    elif isinstance(e, ast.Name) and e.id != data and len(vm.reaching(e.id, at)) > 1:
      for dd in vm.reaching(e.id, at):
        val = vm._plain_value(e.id, dd) if dd != vm.ENTRY else None
        if val is None:
          alts.append((None, facts, dd))
        else:
          split(val, dd, facts | vm.cfg_facts(dd), dd)
    else:
      alts.append((e, facts, d))

  split(it, head, set(), None)
  if not alts:
    return False
  for (e, facts, d) in alts:
    if e is None:
      return False
    if isinstance(e, ast.Name) and e.id == data:
      defs = vm.reaching(data, head if d is None else d)
      wraps = [x for x in defs if x != vm.ENTRY]
      if not wraps:
        if (is_list, True) not in facts:
          return False
        continue
      # the parameter itself is rebound to [data] on the way: `if not isinstance(..): data = [data]`
      if d is not None or vm.ENTRY not in defs or len(wraps) != 1:
        return False
      val = vm._plain_value(data, wraps[0])
      if not (val is not None and text(val) == "[%s]" % data and
              (is_list, False) in vm.cfg_facts(wraps[0]) and
              _reaches_unwrapped_only_as_list(vm, dm, data, head, wraps[0])):
        return False
    elif isinstance(e, ast.List) and len(e.elts) == 1 and text(e.elts[0]) == data:
      if (is_list, False) not in facts:
        return False
    else:
      return False
  return True


def _reaches_unwrapped_only_as_list(vm, dm, name, head, wrap):
  """Every path from the entry to the loop that does not pass the wrapping assignment crosses
  the false branch of `if not isinstance(data, list)` (i.e. data is a list)."""
  cfg = dm.cfg
  key = ("isinstance(%s, list)" % name, True)
  edges = vm._edges().get(key, set())
  r = vm._reach_cut({cfg.entry.id}, set(edges) | {(p, wrap) for p in cfg.pred[wrap]})
  return head not in r


def r3_parent_column(run, w):
  """The back-reference column of a sub-table: present whenever *any* row has a parent."""
  R3 = run.rule("C33-R3", "the parent-reference column is added whenever some row of the table "
                "has a parent, and holds each row's own parent", floor=2)
  A = anchors(w)
  KEEP = A.keep
  dt = H.xfn(w, A.dump_table.qualname, keep=KEEP)
  v = H.View(dt)
  run = H.Guarded(run, v, keep=KEEP)
  rows = dt.fi.params()[1]
  pc = []
  for c in calls_in(dt.node.body):
    if dotted(c.func) != "Col":
      continue
    b = H.bind_args(c, ("type", "values")) or {}
    cc = _coll(v, b.get("values"))
    if cc is not None and ".parent" in (cc.value or ""):
      pc.append((c, cc))
  ok = len(pc) == 1 and pc[0][1].value == "_v0.parent.ref if _v0.parent else None" and \
      _over_all(pc[0][1], rows)
  run.ob(R3, dt.qualname, "[row.parent.ref if row.parent else None for row in %s]" % rows,
         "array elements point back to the row that contained them", ok, fi=dt.fi)
  if len(pc) != 1:
    raise AnalysisError("_dump_table: the parent-reference column was not found")
  # under which condition is that column stored into the table?
  col = pc[0][0]
  site = col
  for n in dt.cfg.nodes:
    s = n.stmt
    if n.kind == "stmt" and isinstance(s, ast.Assign) and isinstance(s.targets[0], ast.Subscript) \
        and v.denotes(s.value, lambda e: e is col):
      site = s
  facts = v.facts_at(site)
  scans, partial = [], []
  for (a, pol) in facts:
    try:
      e = ast.parse(a, mode="eval").body
    except SyntaxError:
      continue
    for y in ast.walk(e):
      if isinstance(y, (ast.GeneratorExp, ast.ListComp, ast.SetComp)) and \
          len(y.generators) == 1 and text(y.generators[0].iter) == rows:
        g = y.generators[0]
        tv = text(g.target)
        if all(text(c) == "%s.parent" % tv for c in g.ifs) and \
            (g.ifs or text(y.elt) == "%s.parent" % tv):
          scans.append((a, pol))
      if isinstance(y, ast.Subscript) and text(y.value) == rows:
        partial.append(a)
  # a flag / value found by an explicit search loop: `ref = None; for r in rows: if r.parent:
  # ref = r.parent.ref; break` -- a truthy value can only come from the binding inside the loop
  for (a, pol) in facts:
    if not (pol and a.isidentifier()):
      continue
    at = v.node_of(site).id
    for d in v.reaching(a, at):
      val = v._plain_value(a, d) if d != v.ENTRY else None
      if val is None:
        continue
      if isinstance(val, ast.Constant) and not val.value:
        continue                       # None / False / 0: cannot make the test true
      if any(isinstance(y, ast.Subscript) and text(y.value) == rows for y in ast.walk(val)):
        partial.append(text(val))
        continue
      loops = [l for l in v.enclosing_loops(dt.cfg.nodes[d].stmt) if isinstance(l, ast.For)]
      if len(loops) != 1 or not isinstance(loops[0].target, ast.Name) or \
          v.t(loops[0].iter) != rows:
        continue
      l = loops[0]
      tm = v.loop_map(l)
      lf = v.cfg_facts(d, start=tm.head, mapping=tm)
      # nothing ends the search before a row with a parent is found
      early = [x.id for x in dt.cfg.nodes if x.kind in ("break", "return") and
               any(y is x.stmt for b in l.body for y in ast.walk(b)) and
               dt.cfg.path(tm.head, {x.id}, removed={d}, after=True) is not None]
      if lf == {("_v0.parent", True)} and not early:
        scans.append((a, True))
  wit = None
  if partial:
    wit = "decided from particular rows only: %s" % partial[0]
  if not scans and not partial:
    raise AnalysisError("_dump_table: cannot tell from which rows the presence of the parent "
                        "column is decided: %s" % sorted(facts))
  ok = bool(scans) and not partial and all(pol is True for (_, pol) in scans)
  run.ob(R3, dt.qualname, "if <some row of %s has a parent>: columns[..] = Col(<parents>)" % rows,
         "a table whose first row came from a nested object but whose later rows came from an "
         "array still gets its reference to the parent table: the test scans all rows", ok,
         witness=wit, fi=dt.fi, node=site)


def r4_shared_defaults(run, w):
  """Module-level option containers (DEFAULT_PARSE_OPTIONS, SCHEMA ...) are shared by every
  import of the process: a function that writes into one -- directly, through a local alias, or
  through a parameter whose default value it is -- leaks one import's includes/excludes into the
  next, which then silently drops tables."""
  from ..dataflow import MUTATING_METHODS
  R4 = run.rule("C33-R4", "module-level default option containers are never modified (not "
                "directly, not through an alias, not through a parameter defaulting to them)",
                floor=2)
  mod = w.repo.module(M)
  shared = {n for n, val in mod.assigns.items() if isinstance(val, (ast.Dict, ast.List, ast.Set))
            or (isinstance(val, ast.Call) and dotted(val.func) in ("dict", "OrderedDict", "list",
                                                                   "set"))}
  if "DEFAULT_PARSE_OPTIONS" not in shared:
    raise AnalysisError("%s.DEFAULT_PARSE_OPTIONS is not a module-level container any more" % M)

  def root(e):
    while isinstance(e, (ast.Subscript, ast.Attribute)):
      e = e.value
    return e if isinstance(e, ast.Name) else None

  n_checked = 0
  for fi in sorted((f for f in w.repo.all_functions() if f.module.name == M),
                   key=lambda f: f.node.lineno):
    fn = w.fn_of(fi)
    v = H.View(fn)
    a = fi.node.args
    names = [x.arg for x in a.args]
    defaults = dict(zip(names[len(names) - len(a.defaults):], a.defaults))
    dflt_params = {p: d.id for p, d in defaults.items()
                   if isinstance(d, ast.Name) and d.id in shared}

    def denotes_shared(name_node, nid):
      """module container the Name may stand for at node nid (through local aliases)"""
      seen = set()
      work = [(name_node.id, nid)]
      out = set()
      while work:
        nm, at = work.pop()
        if (nm, at) in seen:
          continue
        seen.add((nm, at))
        defs = v.reaching(nm, at)
        if not defs:
          if nm in shared:
            out.add(nm)
          continue
        for d in defs:
          if d == v.ENTRY:
            if nm in dflt_params:
              out.add(dflt_params[nm])
            continue
          val = v._plain_value(nm, d)
          while isinstance(val, ast.IfExp) or (isinstance(val, ast.BoolOp)):
            # x = a or DEFAULT / x = a if c else DEFAULT: any operand may be the value
            ops = [val.body, val.orelse] if isinstance(val, ast.IfExp) else list(val.values)
            for o in ops[1:]:
              if isinstance(o, ast.Name):
                work.append((o.id, d))
            val = ops[0]
          if isinstance(val, ast.Name):
            work.append((val.id, d))
      return out

    writes = []
    for n in fn.cfg.nodes:
      for e in (list(n.exprs) + ([n.stmt] if n.kind == "stmt" else [])):
        for y in walk_no_nested(e):
          tgt = None
          if isinstance(y, (ast.Subscript, ast.Attribute)) and \
              isinstance(y.ctx, (ast.Store, ast.Del)):
            tgt = root(y)
          elif isinstance(y, ast.Call) and isinstance(y.func, ast.Attribute) and \
              y.func.attr in MUTATING_METHODS:
            tgt = root(y.func.value)
          elif isinstance(y, ast.AugAssign) and isinstance(y.target, ast.Name):
            tgt = y.target
          if tgt is not None:
            for g in sorted(denotes_shared(tgt, n.id)):
              writes.append((g, n.stmt, tgt.id))
    touches = any(isinstance(y, ast.Name) and y.id in shared for y in ast.walk(fi.node)) or \
        bool(dflt_params)
    if not touches:
      continue
    n_checked += 1
    wit = None
    if writes:
      g, st, via = writes[0]
      wit = "%s is modified through `%s`: %s" % (g, via, short(st))
    run.ob(R4, fi.qualname, "no write into %s" % ", ".join(sorted(
      {y.id for y in ast.walk(fi.node) if isinstance(y, ast.Name) and y.id in shared} |
      set(dflt_params.values()))), "the shared defaults stay what the module defines: a later "
           "import without explicit options must not inherit an earlier import's filters",
           not writes, witness=wit, fi=fi, node=writes[0][1] if writes else None)
  if n_checked < 2:
    raise AnalysisError("%s: fewer than 2 functions use the shared default options" % M)


def _row_var(fn, v):
  """The local that holds this call's row: the name add_row returns, every value of which is the
  Row(...) built here or None (table excluded)."""
  rets = _returns(fn)
  if len(rets) == 1 and rets[0].value is not None:
    r = v.alias_root(rets[0].value)
    if isinstance(r, ast.Name):
      alts = []
      for (e, at, facts) in v.alternatives(r, at=v.point_of(rets[0].value)):
        # the row object is filled in place later, so its name is kept: look at its binding
        if isinstance(e, ast.Name) and at is not None and len(v.reaching(e.id, at)) == 1:
          d = next(iter(v.reaching(e.id, at)))
          val = v._plain_value(e.id, d) if d != v.ENTRY else None
          if val is not None:
            e = val
        alts.append((e, at, facts))
      if alts and all((isinstance(e, ast.Constant) and e.value is None) or
                      (isinstance(e, ast.Call) and dotted(e.func) == "Row")
                      for (e, at, facts) in alts) and \
          any(isinstance(e, ast.Call) for (e, at, facts) in alts):
        return r.id
  raise AnalysisError("Tables.add_row: the row built by Row(...) is not what is returned")


J = "sandbox/grist/imports/import_json.py"
VARIANTS = [
  ("transpose-skips-rows-without-key", J, "[row.get(key, None) for row in rows])",
   "[row[key] for row in rows if key in row])", "C33-R1"),
  ("parent-column-only-for-rows-with-parent", J,
   "[row.parent.ref if row.parent else None for row in rows])",
   "[row.parent.ref for row in rows if row.parent])", "C33-R1"),
  ("empty-rows-not-transposed", J, "columns = _transpose([r.values for r in rows])",
   "columns = _transpose([r.values for r in rows if r.values])", "C33-R1"),
  ("table-data-drops-empty-columns", J,
   "'table_data': [[_dump_value(val) for val in col.values] for col in columns.values()],",
   "'table_data': [[_dump_value(val) for val in col.values] for col in columns.values() "
   "if any(col.values)],", "C33-R1"),
  ("values-drop-none", J, "[[_dump_value(val) for val in col.values] for col in columns.values()]",
   "[[_dump_value(val) for val in col.values if val is not None] for col in columns.values()]",
   "C33-R1"),
  ("transpose-uses-first-row-keys", J, "  for row in reversed(rows):\n    values.update(row)\n",
   "  for row in rows[:1]:\n    values.update(row)\n", "C33-R1"),
  ("list-elements-lose-parent", J, "self.add_row(table + '_' + k, list_val, row)",
   "self.add_row(table + '_' + k, list_val)", "C33-R2"),
  ("first-list-element-skipped", J, "        for list_val in val:\n",
   "        for list_val in val[1:]:\n", "C33-R2"),
  ("empty-objects-stored-as-scalars", J, "      if isinstance(val, dict):\n",
   "      if isinstance(val, dict) and val:\n", "C33-R2"),
  ("row-ref-zero-based", J, "Ref(table, len(rows)+1))", "Ref(table, len(rows)))", "C33-R2"),
  ("keys-truncated", J, "for (k, val) in sorted(value.items()):",
   "for (k, val) in sorted(value.items())[:64]:", "C33-R2"),
  ("scalar-stored-without-include-test", J,
   "        if row and self._is_included(table + '_' + k):\n", "        if row:\n", "C33-R2"),
  ("top-level-first-item-only", J, "  for val in data:\n    tables.add_row(name, val)\n",
   "  for val in data[:1]:\n    tables.add_row(name, val)\n", "C33-R2"),
  ("parent-column-decided-from-first-row", J,
   "  ref = next((r.parent.ref for r in rows if r.parent), None)\n",
   "  ref = rows[0].parent.ref if rows and rows[0].parent else None\n", "C33-R3"),
  ("parent-column-holds-first-parent", J,
   "[row.parent.ref if row.parent else None for row in rows])",
   "[ref for row in rows])", "C33-R3"),
  ("seeded-options-merged-into-shared-defaults", J, "  tables = Tables(parse_options)\n",
   "  options = DEFAULT_PARSE_OPTIONS\n  options.update(parse_options)\n"
   "  tables = Tables(options)\n", "C33-R4"),
  ("defaults-updated-instead-of-options", J, "    parse_options.update(DEFAULT_PARSE_OPTIONS)",
   "    DEFAULT_PARSE_OPTIONS.update(parse_options)", "C33-R4"),
  ("nested-ref-of-parent-row", J, "          row.values[k] = val.ref\n",
   "          row.values[k] = row.ref\n", "C33-R2"),
]
