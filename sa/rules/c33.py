"""C33 JSON import reconstructs the input -- structural clauses (narrow claim of DESIGN.md 4/C33)."""
import ast
from ..fn import World
from ..index import AnalysisError, dotted
from ..astutil import text, short, endswith, calls_in, walk_no_nested
from ..dataflow import DefUse
from .. import events as E

EXPLANATION = (
  "Decides (R1) that every column _dump_table emits has one value per row *by construction*: the "
  "row dictionaries, each transposed column and the parent-reference column are comprehensions "
  "with a single unfiltered generator over the same never-modified `rows`, every Col is built "
  "that way, and the emitted metadata and data iterate the same column dict unfiltered; (R2) that "
  "add_row visits every key of every object, recurses for every dict and every list element "
  "(passing the parent row for list elements), stores a scalar only under the include test, "
  "creates the row reference with the 1-based position the row is about to take, and that "
  "dumps() adds every top-level item. Not decided: placement of every scalar, type inference of "
  "columns, the include/exclude prefix semantics.")

M = "imports.import_json"


def check(run, repo, tier):
  w = World(repo)
  r1_equal_length(run, w)
  r2_add_row(run, w)


def _plain_listcomp(e, over):
  """[<elt> for x in <over>] with one generator, no filter, not async."""
  return isinstance(e, ast.ListComp) and len(e.generators) == 1 and \
      not e.generators[0].ifs and not e.generators[0].is_async and \
      text(e.generators[0].iter) == over


def _unwritten(fn, name):
  du = DefUse(fn)
  w = du.defs.get(name, set()) | du.muts.get(name, set())
  # comprehension targets shadow nothing here; a parameter has no defining node
  return not w


def r1_equal_length(run, w):
  R1 = run.rule("C33-R1", "every emitted column is an unfiltered comprehension over the same "
                "row list (equal length by construction)", floor=9)
  dt = w.fn(M + "._dump_table")
  tp = w.fn(M + "._transpose")
  rows = dt.fi.params()[1]
  trows = tp.fi.params()[0]
  run.ob(R1, dt.qualname, "%s is not written" % rows, "the row list stays the same object and "
         "length throughout _dump_table", _unwritten(dt, rows), fi=dt.fi)
  run.ob(R1, tp.qualname, "%s is not written" % trows, "the row list stays the same throughout "
         "_transpose", _unwritten(tp, trows), fi=tp.fi)
  # _dump_table -> _transpose([r.values for r in rows])
  calls = [c for (n, c, nm) in dt.calls() if nm == "_transpose"]
  ok = len(calls) == 1 and len(calls[0].args) == 1 and _plain_listcomp(calls[0].args[0], rows)
  run.ob(R1, dt.qualname, "_transpose([r.values for r in %s])" % rows,
         "one value dictionary per row reaches the transposition (no row is filtered out)", ok,
         fi=dt.fi, node=calls[0] if calls else None)
  colsvar = None
  for s in walk_no_nested(dt.node):
    if isinstance(s, ast.Assign) and calls and s.value is calls[0] and \
        isinstance(s.targets[0], ast.Name):
      colsvar = s.targets[0].id
  if colsvar is None:
    raise AnalysisError("_dump_table: result of _transpose is not bound to a local")
  # every Col(...) built anywhere in the module carries an unfiltered comprehension over rows
  ncol = 0
  for fn, rv in ((dt, rows), (tp, trows)):
    for c in calls_in(fn.node.body):
      if dotted(c.func) == "Col":
        ncol += 1
        ok = len(c.args) == 2 and not c.keywords and _plain_listcomp(c.args[1], rv)
        run.ob(R1, fn.qualname, short(c), "a column's values are computed once per row of the "
               "table, rows without the key included", ok, fi=fn.fi, node=c)
  others = [fi.qualname for fi in w.repo.all_functions() if fi.module.name == M and
            fi.qualname not in (dt.qualname, tp.qualname) and
            any(dotted(c.func) == "Col" for c in calls_in(fi.node.body))]
  run.ob(R1, M, "Col(...) constructed only in _dump_table and _transpose",
         "no other code builds columns of another length", not others and ncol >= 2,
         witness=", ".join(others) or None, fi=dt.fi)
  # _transpose: every key seen in any row gets a column; returned dict holds only those
  keysrc = None
  for s in tp.node.body:
    if isinstance(s, ast.For) and isinstance(s.iter, ast.Call) and \
        dotted(s.iter.func) == "reversed" and text(s.iter.args[0]) == trows and \
        len(s.body) == 1 and isinstance(s.body[0], ast.Expr) and \
        isinstance(s.body[0].value, ast.Call) and \
        isinstance(s.body[0].value.func, ast.Attribute) and \
        s.body[0].value.func.attr == "update" and \
        text(s.body[0].value.args[0]) == text(s.target):
      keysrc = text(s.body[0].value.func.value)
  fill = [s for s in tp.node.body if isinstance(s, ast.For) and keysrc is not None and
          text(s.iter) == keysrc + ".items()"]
  ok = False
  retvar = None
  if len(fill) == 1 and isinstance(fill[0].target, ast.Tuple):
    kv = text(fill[0].target.elts[0])
    st = [b for b in fill[0].body if isinstance(b, ast.Assign) and
          isinstance(b.targets[0], ast.Subscript) and text(b.targets[0].slice) == kv]
    if len(st) == 1 and len(fill[0].body) == 1:
      retvar = text(st[0].targets[0].value)
      v = st[0].value
      e = v.args[1].elt if isinstance(v, ast.Call) and len(v.args) == 2 and \
          isinstance(v.args[1], ast.ListComp) else None
      rowv = text(v.args[1].generators[0].target) if e is not None else None
      ok = e is not None and text(e) in ("%s.get(%s, None)" % (rowv, kv),
                                         "%s.get(%s)" % (rowv, kv))
  rets = [s for s in walk_no_nested(tp.node) if isinstance(s, ast.Return)]
  ok = ok and len(rets) == 1 and text(rets[0].value) == retvar
  run.ob(R1, tp.qualname, "for key in <union of all rows' keys>: transpose[key] = Col(.., "
         "[row.get(key, None) for row in rows])",
         "every key of any row becomes a column and a row lacking the key contributes None at "
         "its own position", ok, fi=tp.fi)
  # the emitted dict: metadata and data iterate the same columns, unfiltered
  rets = [s for s in walk_no_nested(dt.node) if isinstance(s, ast.Return)]
  if len(rets) != 1 or not isinstance(rets[0].value, ast.Dict):
    raise AnalysisError("_dump_table no longer returns one dict literal")
  out = {k.value: v for k, v in zip(rets[0].value.keys, rets[0].value.values)
         if isinstance(k, ast.Constant)}
  md, td = out.get("column_metadata"), out.get("table_data")
  ok = _plain_listcomp(md, colsvar + ".items()") and _plain_listcomp(td, colsvar + ".values()")
  if ok:
    inner = td.elt
    cv = text(td.generators[0].target)
    ok = _plain_listcomp(inner, cv + ".values")
  run.ob(R1, dt.qualname, "column_metadata over %s.items(), table_data over %s.values() / "
         "col.values" % (colsvar, colsvar), "metadata and data list the same columns in the "
         "same order and every value of every column is emitted", ok, fi=dt.fi,
         node=rets[0])
  # nothing but _transpose's result and the parent column enters the column dict
  du = DefUse(dt)
  writers = du.defs.get(colsvar, set()) | du.muts.get(colsvar, set())
  bad = []
  for nid in writers:
    s = dt.cfg.nodes[nid].stmt
    if isinstance(s, ast.Assign) and s.value is calls[0]:
      continue
    if isinstance(s, ast.Assign) and isinstance(s.targets[0], ast.Subscript) and \
        isinstance(s.value, ast.Call) and dotted(s.value.func) == "Col":
      continue
    bad.append(short(s))
  run.ob(R1, dt.qualname, "%s written only by _transpose(...) and %s[..] = Col(...)"
         % (colsvar, colsvar), "only equal-length columns enter the table", not bad,
         witness="; ".join(bad) or None, fi=dt.fi)


def r2_add_row(run, w):
  R2 = run.rule("C33-R2", "add_row visits every key, recurses into every dict and list element, "
                "stores scalars under the include test, numbers rows by position", floor=9)
  fn = w.fn(M + ".Tables.add_row")
  q = fn.qualname
  ps = fn.fi.params()      # self, table, value, parent
  if len(ps) != 4:
    raise AnalysisError("Tables.add_row signature changed: %s" % ps)
  _, p_table, p_value, p_parent = ps
  loops = [s for s in fn.node.body if isinstance(s, ast.For)]
  if len(loops) != 1:
    raise AnalysisError("Tables.add_row: one loop over the value's items expected")
  lp = loops[0]
  it = lp.iter
  inner = it.args[0] if isinstance(it, ast.Call) and dotted(it.func) == "sorted" and \
      len(it.args) == 1 and not it.keywords else it
  ok = text(inner) == p_value + ".items()" and isinstance(lp.target, ast.Tuple) and \
      len(lp.target.elts) == 2
  run.ob(R2, q, "for (k, val) in sorted(%s.items())" % p_value, "every key of the object is "
         "visited (no slice, no filter)", ok, fi=fn.fi, node=lp)
  if not ok:
    return
  kv, vv = [text(e) for e in lp.target.elts]
  # value = _dictify(value) before the loop: scalars become {'': value}
  pre = [s for s in fn.node.body[:fn.node.body.index(lp)] if isinstance(s, ast.Assign) and
         text(s.targets[0]) == p_value]
  ok = len(pre) == 1 and text(pre[0].value) == "_dictify(%s)" % p_value
  run.ob(R2, q, "%s = _dictify(%s)" % (p_value, p_value), "a non-object item is stored under "
         "the unnamed column instead of being dropped", ok, fi=fn.fi)
  dfy = w.fn(M + "._dictify")
  rets = [s for s in walk_no_nested(dfy.node) if isinstance(s, ast.Return)]
  dp = dfy.fi.params()[0]
  ok = len(rets) == 1 and text(rets[0].value) == \
      "%s if isinstance(%s, dict) else {'': %s}" % (dp, dp, dp)
  run.ob(R2, dfy.qualname, "return value if isinstance(value, dict) else {'': value}",
         "objects are kept as they are, anything else becomes a one-cell row", ok, fi=dfy.fi)
  # the if / elif / else chain of the loop body
  if len(lp.body) != 1 or not isinstance(lp.body[0], ast.If):
    raise AnalysisError("Tables.add_row: loop body is not one if/elif/else chain")
  c1 = lp.body[0]
  c2 = c1.orelse[0] if len(c1.orelse) == 1 and isinstance(c1.orelse[0], ast.If) else None
  if c2 is None or not c2.orelse:
    raise AnalysisError("Tables.add_row: dict / list / scalar chain not recognised")
  rowvar = _row_var(fn)
  sub = "%s + '_' + %s" % (p_table, kv)
  # dict branch
  ok = text(c1.test) == "isinstance(%s, dict)" % vv
  rec = [c for b in c1.body for c in calls_in(b) if text(c.func) == "self.add_row"]
  ok = ok and len(rec) == 1 and len(rec[0].args) == 2 and text(rec[0].args[0]) == sub and \
      text(rec[0].args[1]) == vv and isinstance(c1.body[0], ast.Assign) and \
      c1.body[0].value is rec[0]
  run.ob(R2, q, "if isinstance(%s, dict): self.add_row(%s, %s)" % (vv, sub, vv),
         "every nested object (empty ones included) becomes a row of the sub-table named after "
         "its key, unconditionally", ok, fi=fn.fi, node=c1)
  refv = text(c1.body[0].targets[0]) if ok else None
  st = [b for x in c1.body for b in ast.walk(x) if isinstance(b, ast.Assign) and
        isinstance(b.targets[0], ast.Subscript) and
        text(b.targets[0]) == "%s.values[%s]" % (rowvar, kv)]
  ok = ok and len(st) == 1 and text(st[0].value) == "%s.ref" % refv
  run.ob(R2, q, "%s.values[%s] = <sub-row>.ref" % (rowvar, kv), "the parent's cell holds the "
         "reference of the row just created for the nested object", ok, fi=fn.fi, node=c1)
  # list branch
  ok = text(c2.test) == "isinstance(%s, list)" % vv and len(c2.body) == 1 and \
      isinstance(c2.body[0], ast.For) and text(c2.body[0].iter) == vv
  if ok:
    lv = text(c2.body[0].target)
    rec = [c for b in c2.body[0].body for c in calls_in(b) if text(c.func) == "self.add_row"]
    ok = len(c2.body[0].body) == 1 and len(rec) == 1 and \
        [text(a) for a in rec[0].args] == [sub, lv, rowvar] and not rec[0].keywords
  run.ob(R2, q, "elif isinstance(%s, list): for x in %s: self.add_row(%s, x, %s)"
         % (vv, vv, sub, rowvar), "every element of every array becomes a sub-table row that "
         "points back to this row", ok, fi=fn.fi, node=c2)
  # scalar branch
  els = c2.orelse
  ok = len(els) == 1 and isinstance(els[0], ast.If) and not els[0].orelse and \
      text(els[0].test) == "%s and self._is_included(%s)" % (rowvar, sub) and \
      len(els[0].body) == 1 and isinstance(els[0].body[0], ast.Assign) and \
      text(els[0].body[0].targets[0]) == "%s.values[%s]" % (rowvar, kv) and \
      text(els[0].body[0].value) == vv
  run.ob(R2, q, "else: if %s and self._is_included(%s): %s.values[%s] = %s"
         % (rowvar, sub, rowvar, kv, vv), "a scalar is stored, as it is, in its own row under "
         "its own key, subject only to the include/exclude test", ok, fi=fn.fi, node=c2)
  # row creation: Ref(table, len(rows)+1) then rows.append(row), once, under the include test
  cfg = fn.cfg
  mk = [(n, c) for (n, c, nm) in fn.calls() if nm == "Row"]
  app = [(n, c) for (n, c, nm) in fn.calls() if isinstance(c.func, ast.Attribute) and
         c.func.attr == "append" and len(c.args) == 1 and text(c.args[0]) == rowvar]
  ok = len(mk) == 1 and len(app) == 1
  if ok:
    rowsv = text(app[0][1].func.value)
    a = mk[0][1].args
    ok = len(a) == 3 and text(a[1]) == p_parent and \
        text(a[2]) in ("Ref(%s, len(%s) + 1)" % (p_table, rowsv),
                       "Ref(%s, 1 + len(%s))" % (p_table, rowsv)) and \
        app[0][0].id in cfg.reach_after({mk[0][0].id}) and \
        mk[0][0].id not in cfg.reach_after({app[0][0].id}) and \
        cfg.postdominated_by(mk[0][0].id, {app[0][0].id})
    src = [v for v in E.local_defs(fn.node, rowsv)]
    ok = ok and len(src) == 1 and text(src[0]) == "self._tables.setdefault(%s, [])" % p_table
  run.ob(R2, q, "row = Row(.., %s, Ref(%s, len(rows)+1)); rows.append(row)" % (p_parent, p_table),
         "a row's reference is its 1-based position in its table (what a Ref column stores), and "
         "it remembers its parent", ok, fi=fn.fi)
  rets = [s for s in walk_no_nested(fn.node) if isinstance(s, ast.Return)]
  run.ob(R2, q, "return %s" % rowvar, "the caller receives the row it must reference",
         len(rets) == 1 and text(rets[0].value) == rowvar, fi=fn.fi)
  # dumps(): every top-level item becomes a row of the main table
  dm = w.fn(M + ".dumps")
  dp = dm.fi.params()
  lps = [s for s in dm.node.body if isinstance(s, ast.For) and text(s.iter) == dp[0]]
  ok = len(lps) == 1 and len(lps[0].body) == 1 and not lps[0].orelse and \
      text(lps[0].body[0]) == "tables.add_row(%s, %s)" % (dp[1], text(lps[0].target))
  wrap = [s for s in dm.node.body if isinstance(s, ast.If) and
          text(s.test) == "not isinstance(%s, list)" % dp[0] and len(s.body) == 1 and
          text(s.body[0]) == "%s = [%s]" % (dp[0], dp[0])]
  run.ob(R2, dm.qualname, "for val in %s: tables.add_row(%s, val)" % (dp[0], dp[1]),
         "every top-level item (or the single root object) becomes a row of the main table",
         ok and len(wrap) == 1, fi=dm.fi)
  # the parent column of _dump_table reads the same parent link add_row stored
  dt = w.fn(M + "._dump_table")
  rows = dt.fi.params()[1]
  pc = [c for c in calls_in(dt.node.body) if dotted(c.func) == "Col" and len(c.args) == 2 and
        isinstance(c.args[1], ast.ListComp)]
  ok = False
  for c in pc:
    g = c.args[1].generators[0]
    rv = text(g.target)
    if text(c.args[1].elt) == "%s.parent.ref if %s.parent else None" % (rv, rv):
      ok = True
  run.ob(R2, dt.qualname, "[row.parent.ref if row.parent else None for row in %s]" % rows,
         "array elements point back to the row that contained them", ok, fi=dt.fi)


def _row_var(fn):
  for s in walk_no_nested(fn.node):
    if isinstance(s, ast.Assign) and isinstance(s.value, ast.Call) and \
        dotted(s.value.func) == "Row" and isinstance(s.targets[0], ast.Name):
      return s.targets[0].id
  raise AnalysisError("Tables.add_row: Row(...) construction not found")


J = "sandbox/grist/imports/import_json.py"
VARIANTS = [
  ("transpose-skips-rows-without-key", J, "[row.get(key, None) for row in rows])",
   "[row[key] for row in rows if key in row])", "C33-R1"),
  ("parent-column-only-for-rows-with-parent", J,
   "[row.parent.ref if row.parent else None for row in rows])",
   "[row.parent.ref for row in rows if row.parent])", "C33-R1"),
  ("empty-rows-not-transposed", J, "columns = _transpose([r.values for r in rows])",
   "columns = _transpose([r.values for r in rows if r.values])", "C33-R1"),
  ("table-data-drops-empty-columns", J,
   "'table_data': [[_dump_value(val) for val in col.values] for col in columns.values()],",
   "'table_data': [[_dump_value(val) for val in col.values] for col in columns.values() "
   "if any(col.values)],", "C33-R1"),
  ("values-drop-none", J, "[[_dump_value(val) for val in col.values] for col in columns.values()]",
   "[[_dump_value(val) for val in col.values if val is not None] for col in columns.values()]",
   "C33-R1"),
  ("transpose-uses-first-row-keys", J, "  for row in reversed(rows):\n    values.update(row)\n",
   "  for row in rows[:1]:\n    values.update(row)\n", "C33-R1"),
  ("list-elements-lose-parent", J, "self.add_row(table + '_' + k, list_val, row)",
   "self.add_row(table + '_' + k, list_val)", "C33-R2"),
  ("first-list-element-skipped", J, "        for list_val in val:\n",
   "        for list_val in val[1:]:\n", "C33-R2"),
  ("empty-objects-stored-as-scalars", J, "      if isinstance(val, dict):\n",
   "      if isinstance(val, dict) and val:\n", "C33-R2"),
  ("row-ref-zero-based", J, "Ref(table, len(rows)+1))", "Ref(table, len(rows)))", "C33-R2"),
  ("keys-truncated", J, "for (k, val) in sorted(value.items()):",
   "for (k, val) in sorted(value.items())[:64]:", "C33-R2"),
  ("scalar-stored-without-include-test", J,
   "        if row and self._is_included(table + '_' + k):\n", "        if row:\n", "C33-R2"),
  ("top-level-first-item-only", J, "  for val in data:\n    tables.add_row(name, val)\n",
   "  for val in data[:1]:\n    tables.add_row(name, val)\n", "C33-R2"),
  ("nested-ref-of-parent-row", J, "          row.values[k] = val.ref\n",
   "          row.values[k] = row.ref\n", "C33-R2"),
]
