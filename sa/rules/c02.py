"""C02 Emitted doc actions are a faithful persistence delta -- structural clauses."""
import ast
from ..fn import World
from ..index import AnalysisError, dotted
from ..astutil import text, short, endswith, calls_in, walk_no_nested, names_loaded
from ..dataflow import DefUse
from .. import events as E
from .. import types as T
from ..guards import guarded_by, text_atom
from ._h_E import decide, anchors_of, analysed_separately, cname, calls_E, nodes_calling_E, Flow, arg, argn, nargs, facts_full, own_helper, args_by_params

EXPLANATION = (
  "Decides that engine state and stored actions cannot drift apart structurally: one gateway "
  "records then applies every doc action (R1,R2); every formula result written by the recompute "
  "step is captured as a change (R3); captured changes are flushed after every update loop and "
  "never killed unflushed (R4,R5); the independent interpreter (TableDataSet) covers every action "
  "type with matching arity (R6); stored is written only by the gateway, the flushers and InitNewDoc "
  "(R7); actions built from all_columns exclude private/virtual columns (R8); row presence "
  "tracking of the calc summary records the last add/remove (R9); before the gateway records an "
  "update action, the calculated changes still pending for each of its data columns are turned "
  "into actions, so they stay ahead of the explicit write (R10). Not decided: value equality of "
  "a replay; correctness of prune_actions.")


# TableDataSet has its own method named apply_doc_action (the independent interpreter used by
# migrations); receivers there are TableDataSet objects, not the engine.
OTHER_INTERPRETER_MODULES = ("table_data_set", "migrations")


def check(run, repo, tier):
  # each rule is decided on the code as written; when it is not satisfied there, it is asked again
  # on the view with private helpers inlined (see _h_E.decide), so statements moved into a new
  # helper keep their place
  import os
  _HERE = os.path.dirname(os.path.abspath(__file__))
  decide(run, repo, [r1_gateway, r2_dispatch, r3_change_capture, r4_flush, r5_flush_complete, r6_interpreter, r7_stored_writers, r8_private_excluded, r9_presence, r10_update_flush, r11_add_loads_all],
         anchors_of(os.path.join(_HERE, "c02.py"), os.path.join(_HERE, "_h_E.py"), os.path.join(_HERE, "../events.py")),
         more_anchors=_role_anchors)


def _role_anchors(w):
  """Methods the rules find by role rather than by name (the flushers and the methods that end in
  a flush): calls of these are what R4 looks for, so they are never inlined."""
  eng = w.repo.cls("engine.Engine")
  flushers = {f.name for f in eng.methods.values() if _is_flusher(w, f)}
  names = set(flushers)
  # one level only: a method that itself calls a flusher on every path (like _post_update); longer
  # chains are followed by the rule through whatever remains after inlining
  for f in eng.methods.values():
    if f.name in names:
      continue
    fn = w.fn_of(f)
    ns = nodes_calling_E(fn, lambda c, nm, f_: nm is not None and nm.startswith("self.") and
                         nm.split(".")[-1] in flushers)
    if ns and fn.cfg.dominated_by(fn.cfg.exit.id, ns):
      names.add(f.name)
  return names


def r1_gateway(run, w):
  R1 = run.rule("C02-R1", "Engine.apply_doc_action is called only by the gateway, after the same "
                "action was appended to stored and direct", floor=4)
  is_apply = E.is_engine_call("apply_doc_action")
  sites = []
  for fi in w.repo.all_functions():
    if not analysed_separately(w, fi):
      continue
    fn = w.fn_of(fi)
    fi = fn.fi
    for (n, c, nm) in calls_E(fn):
      if is_apply(c, nm, fn):
        sites.append((fn, n, c))
      elif isinstance(c.func, ast.Attribute) and c.func.attr == "apply_doc_action" and \
          fn.type_of(c.func.value) is None and fi.module.name not in OTHER_INTERPRETER_MODULES:
        sites.append((fn, n, c))
  for (fn, n, c) in sites:
    run.ob(R1, fn.qualname, short(c), "apply_doc_action is called from the gateway only",
           fn.qualname == "useractions.UserActions._do_doc_action", fi=fn.fi, node=c,
           nontrivial=False)
  gw = w.fn("useractions.UserActions._do_doc_action")
  cfg = gw.cfg
  applies = [(n, c) for (n, c, nm) in calls_E(gw) if is_apply(c, nm, gw)]
  if not applies:
    raise AnalysisError("gateway no longer calls apply_doc_action")
  flow = Flow(gw)
  for (n, c) in applies:
    a_applied = argn(w, gw, c, 0)
    var = text(a_applied) if a_applied is not None else None
    # stored.append(<the very value that is applied>): same local with the same reaching
    # bindings (so nothing rebinds it in between), or the same expression
    st = set()
    for (m, c2, nm) in calls_E(gw):
      if endswith(nm, "out_actions.stored.append") and nargs(c2) == 1 and a_applied is not None:
        a_st = c2.args[0] if c2.args else c2.keywords[0].value
        if flow.same_value(a_st, m.id, a_applied, n.id):
          st.add(m.id)
    di = {m.id for (m, c2, nm) in calls_E(gw) if endswith(nm, "out_actions.direct.append")}
    ok_st = bool(st) and cfg.dominated_by(n.id, st)
    run.ob(R1, gw.qualname, "stored.append(%s) dominates apply_doc_action(%s)" % (var, var),
           "the action applied is the action recorded", ok_st, fi=gw.fi, node=c, missing=not st)
    run.ob(R1, gw.qualname, "direct.append(...) dominates apply_doc_action",
           "a direct flag is recorded for every applied action",
           bool(di) and cfg.dominated_by(n.id, di), fi=gw.fi, node=c, missing=not di)
    # and nothing is recorded without being applied: stored.append is post-dominated by apply
    for s_ in st:
      run.ob(R1, gw.qualname, "stored.append post-dominated by apply_doc_action",
             "no stored action without the engine applying it",
             cfg.postdominated_by(s_, {n.id}), fi=gw.fi)
    # the direct flag reflects the indirection level
    for (m, c2, nm) in calls_E(gw):
      if endswith(nm, "out_actions.direct.append"):
        a = c2.args[0] if c2.args else None
        a = flow.resolve(a, m.id)[0] if a is not None else None
        ok = isinstance(a, ast.Compare) and len(a.ops) == 1 and isinstance(a.ops[0], ast.Eq) and \
            {flow.itext(a.left, m.id), flow.itext(a.comparators[0], m.id)} == \
            {"self._indirection_level", "DIRECT_ACTION"}
        run.ob(R1, gw.qualname, short(c2), "direct flag is (indirection level == DIRECT_ACTION)",
               ok, fi=gw.fi, node=c2)


def r2_dispatch(run, w):
  R2 = run.rule("C02-R2", "DocActions methods are reached only through the engine's dispatch and "
                "sibling delegation", floor=4)
  dnames = set(w.doc_action_names())
  n_dispatch = 0
  for fi in w.repo.all_functions():
    if not analysed_separately(w, fi):
      continue
    fn = w.fn_of(fi)
    fi = fn.fi
    in_da = fi.cls is not None and fi.cls.qualname == "docactions.DocActions"
    for (n, c, nm) in calls_E(fn):
      # getattr(<x>.doc_actions, name), called on the spot or through a local
      f = c.func
      if dotted(c.func) == "getattr" and c.args and \
          endswith(cname(fn, c.args[0]) or "", "doc_actions"):
        n_dispatch += 1
        run.ob(R2, fi.qualname, short(c), "dynamic dispatch on DocActions happens in "
               "Engine.apply_doc_action only", fi.qualname == "engine.Engine.apply_doc_action",
               fi=fi, node=c, nontrivial=False)
        continue
      if isinstance(f, ast.Attribute) and f.attr in dnames:
        rt = fn.type_of(f.value)
        if rt == T.DOCACTIONS or endswith(cname(fn, f.value) or "", "doc_actions"):
          ok = in_da and isinstance(f.value, ast.Name) and f.value.id == "self"
          run.ob(R2, fi.qualname, short(c), "direct call of a DocActions method only as sibling "
                 "delegation", ok, fi=fi, node=c, nontrivial=False)
  if n_dispatch == 0:
    raise AnalysisError("engine dispatch getattr(self.doc_actions, ...) not found")


def r3_change_capture(run, w):
  R3 = run.rule("C02-R3", "_recompute_step: every column write is preceded on all paths by "
                "recording (row, previous, value) in the _changes_map entry of that node", floor=3)
  fn = w.fn("engine.Engine._recompute_step")
  cfg = fn.cfg
  sets = [(n, c) for (n, c, nm) in calls_E(fn) if E.is_column_mutation(c, nm, fn)]
  if not sets:
    raise AnalysisError("_recompute_step: column write not found")
  flow = Flow(fn)
  node_param = fn.fi.params()[1]
  for (n, c) in sets:
    a_row, a_val = argn(w, fn, c, 0), argn(w, fn, c, 1)
    if c.func.attr != "set" or nargs(c) != 2 or a_row is None or a_val is None:
      run.ob(R3, fn.qualname, short(c), "recognised column write", False, fi=fn.fi, node=c)
      continue
    caps = set()
    cap_sites = []
    for (m, c2, nm) in calls_E(fn):
      if isinstance(c2.func, ast.Attribute) and c2.func.attr == "append" and nargs(c2) == 1 and \
          c2.args:
        tup = flow.resolve(c2.args[0], m.id)
        if isinstance(tup[0], ast.Tuple) and len(tup[0].elts) == 3:
          e = tup[0].elts
          if flow.same_value(e[0], tup[1], a_row, n.id) and \
              flow.same_value(e[2], tup[1], a_val, n.id):
            caps.add(m.id)
            cap_sites.append((m.id, c2.func.value, e[1], tup[1]))
    if not caps:
      raise AnalysisError("_recompute_step: no `<changes>.append((row, previous, value))` for the "
                          "write `%s` recognised (capture moved?)" % short(c))
    ok = cfg.dominated_by(n.id, caps)
    wit = None if ok else cfg.describe_path(cfg.path(cfg.entry.id, {n.id}, removed=caps))
    run.ob(R3, fn.qualname, short(c), "write dominated by changes.append((row, previous, value))",
           ok, witness=wit, fi=fn.fi, node=c)
    for (mid, lst, prev, pn) in cap_sites:
      # the list is the _changes_map entry for this node (None / empty until the first change)
      ls = flow.leaves(lst, mid)
      def entry(x, k):
        return isinstance(x, ast.Call) and endswith(cname(fn, x), "_changes_map.setdefault") and \
            bool(x.args) and flow.itext(x.args[0], k, stop=(node_param,)) == node_param
      def empty(x):
        return (isinstance(x, ast.Constant) and x.value is None) or \
            (isinstance(x, (ast.List, ast.Tuple)) and not x.elts)
      ok_map = any(entry(l.expr, l.nid) for l in ls) and \
          all(entry(l.expr, l.nid) or empty(l.expr) for l in ls)
      run.ob(R3, fn.qualname, "%s = self._changes_map.setdefault(node, [])" % text(lst),
             "the capture list is this node's entry of _changes_map", ok_map, fi=fn.fi)
      # previous is the stored value of that cell read before the write
      pl = flow.leaves(prev, pn)
      ok_prev = len(pl) == 1 and isinstance(pl[0].expr, ast.Call) and \
          isinstance(pl[0].expr.func, ast.Attribute) and pl[0].expr.func.attr == "raw_get" and \
          nargs(pl[0].expr) == 1 and bool(pl[0].expr.args) and \
          flow.same_value(pl[0].expr.func.value, pl[0].nid, c.func.value, n.id) and \
          flow.same_value(pl[0].expr.args[0], pl[0].nid, a_row, n.id)
      # the read precedes the write (same row binding, hence same iteration)
      ok_prev = ok_prev and cfg.dominated_by(n.id, {pl[0].nid}) and pl[0].nid != n.id
      run.ob(R3, fn.qualname, "%s = %s.raw_get(%s)" % (text(prev), text(c.func.value),
                                                     text(a_row)),
             "previous value is read from the same cell", ok_prev, fi=fn.fi)
  # who fills _changes_map: only _recompute_step
  for fi in w.repo.all_functions():
    if not analysed_separately(w, fi):
      continue
    fnx = w.fn_of(fi)
    fi = fnx.fi
    for (n, c, nm) in calls_E(fnx):
      if endswith(nm, "_changes_map.setdefault", "_changes_map.__setitem__", "_changes_map.update"):
        run.ob(R3, fi.qualname, short(c), "_changes_map is filled by _recompute_step only",
               fi.qualname == "engine.Engine._recompute_step", fi=fi, node=c, nontrivial=False)


def _emitting_helper(w, fn, call):
  """The helper of fn's class that `call` invokes, if it forwards changes to summary.add_changes."""
  h = own_helper(w, fn, call)
  if h is None:
    return None
  hfn = w.fn_of(h)
  if any(E.is_summary_add_changes(c, nm, hfn) for (n, c, nm) in calls_E(hfn)):
    return h
  return None


def _is_flusher(w, fi):
  """A function that forwards every _changes_map entry to summary.add_changes (directly, or
  through a helper of its own class called per entry)."""
  fn = w.fn_of(fi)
  for s in ast.walk(fn.node):
    if isinstance(s, ast.For) and isinstance(s.iter, ast.Call) and \
        endswith(cname(fn, s.iter) or "", "_changes_map.items"):
      if any(E.is_summary_add_changes(c, cname(fn, c), fn) or _emitting_helper(w, fn, c) is not None
             for c in calls_in(s.body)):
        return True
  return False


def _flag_writes(cfg, attr):
  """CFG nodes that assign self.<attr>."""
  out = set()
  for n in cfg.nodes:
    if n.kind == "stmt" and isinstance(n.stmt, (ast.Assign, ast.AugAssign)):
      tg = n.stmt.targets if isinstance(n.stmt, ast.Assign) else [n.stmt.target]
      for t in tg:
        for x in ast.walk(t):
          if isinstance(x, ast.Attribute) and x.attr == attr:
            out.add(n.id)
  return out


def r4_flush(run, w):
  R4 = run.rule("C02-R4", "every update loop is followed, on normal and exceptional paths, by a "
                "flush of _changes_map; the map is never rebound or cleared unflushed", floor=4)
  eng = w.repo.cls("engine.Engine")
  flushers = {f.name for f in eng.methods.values() if _is_flusher(w, f)}
  if not flushers:
    raise AnalysisError("no function forwards _changes_map to summary.add_changes any more")
  # transitive: methods that call a flusher unconditionally at their start/end (e.g. _post_update)
  def calls_flusher(c, nm, fn):
    return nm is not None and nm.startswith("self.") and nm.split(".")[-1] in flush_callers
  flush_callers = set(flushers)
  changed = True
  while changed:
    changed = False
    for f in eng.methods.values():
      if f.name in flush_callers:
        continue
      fn = w.fn_of(f)
      ns = nodes_calling_E(fn, calls_flusher)
      if ns and fn.cfg.dominated_by(fn.cfg.exit.id, ns):
        flush_callers.add(f.name)
        changed = True
  # (a) every call of _update_loop is post-dominated by a flush, exceptional exits included
  n_loops = 0
  for f in eng.methods.values():
    if not analysed_separately(w, f):
      continue
    fn = w.fn_of(f)
    f = fn.fi
    cfg = fn.xcfg
    fl = nodes_calling_E(fn, calls_flusher, cfg)
    for (n, c, nm) in calls_E(fn, cfg):
      if nm == "self._update_loop":
        n_loops += 1
        ok = cfg.postdominated_by(n.id, fl, exits={cfg.exit.id, cfg.raise_exit.id})
        wit = None
        if not ok:
          wit = cfg.describe_path(cfg.path(n.id, {cfg.exit.id, cfg.raise_exit.id}, removed=fl,
                                           after=True))
        run.ob(R4, f.qualname, short(c), "update loop is followed by a flush of _changes_map on "
               "every path (the loop may raise after recording changes)", ok, witness=wit,
               fi=f, node=c)
  if n_loops < 3:
    raise AnalysisError("fewer than 3 _update_loop call sites found")
  # (b) _recompute_step (the only filler) runs only inside an update loop
  for f in w.repo.all_functions():
    if not analysed_separately(w, f):
      continue
    fn = w.fn_of(f)
    f = fn.fi
    for (n, c, nm) in calls_E(fn):
      if isinstance(c.func, ast.Attribute) and c.func.attr == "_recompute_step":
        ok = f.qualname == "engine.Engine._update_loop"
        if not ok:
          # elsewhere (Engine._recompute, or its body written in place in a caller): only on the
          # branch where an update loop is already running (any spelling of the guard)
          ok = Flow(fn).guarded(n.id, lambda e, i: text(e) == "self._in_update_loop", True,
                                extra_kills=_flag_writes(fn.cfg, "_in_update_loop"))
        run.ob(R4, f.qualname, short(c), "_recompute_step runs inside an update loop only", ok,
               fi=f, node=c)
  # (c) kills of _changes_map: dominated by a flush in the same function, or the function is
  #     only a frame opener whose callers all run outside update loops (checked in (d))
  for f in w.repo.all_functions():
    if not analysed_separately(w, f):
      continue
    fn = w.fn_of(f)
    f = fn.fi
    if f.qualname == "engine.Engine.__init__":
      continue
    cfg = fn.cfg
    fl = nodes_calling_E(fn, calls_flusher)
    for n in cfg.nodes:
      kill = False
      s = n.stmt
      if n.kind == "stmt" and isinstance(s, (ast.Assign, ast.Delete)):
        tg = s.targets
        for t in tg:
          if isinstance(t, ast.Attribute) and t.attr == "_changes_map":
            kill = True
      for c in calls_in(n.exprs):
        if endswith(cname(fn, c) or "", "_changes_map.clear", "_changes_map.pop",
                    "_changes_map.popitem"):
          kill = True
      if not kill:
        continue
      in_flusher = f.name in flushers
      # a frame opener written in place: the statement sits where a `_pre_update()` call would --
      # before every update loop of the function, and never after one without a flush in between
      loops_ = {m.id for (m, c_, nm_) in calls_E(fn) if nm_ == "self._update_loop"}
      opens_frame = bool(loops_) and all(cfg.dominated_by(l_, {n.id}) for l_ in loops_) and \
          n.id not in cfg.reach_after(loops_, removed=fl)
      ok = in_flusher or (bool(fl) and cfg.dominated_by(n.id, fl)) or \
          f.qualname == "engine.Engine._pre_update" or opens_frame
      run.ob(R4, f.qualname, short(s), "rebinding/clearing _changes_map happens in the flusher, "
             "after a flush, or in the frame opener _pre_update", ok, fi=f, node=s)
  # (d) frames are not opened while an update loop is running: the only frame opener reachable
  #     from formula evaluation (via apply_doc_action) is guarded by `not self._in_update_loop`
  ad = w.fn("engine.Engine.apply_doc_action")
  cfg = ad.cfg
  # ... the call of _bring_mlookups_up_to_date, or its body written in place (a frame opened by
  # _pre_update() / an update loop started right here)
  calls = [(n, c) for (n, c, nm) in calls_E(ad)
           if nm in ("self._bring_mlookups_up_to_date", "self._pre_update", "self._update_loop")]
  if not calls:
    raise AnalysisError("apply_doc_action no longer calls _bring_mlookups_up_to_date")
  for (n, c) in calls:
    ok = Flow(ad).guarded(n.id, lambda e, i: text(e) == "self._in_update_loop", False,
                          extra_kills=_flag_writes(cfg, "_in_update_loop"))
    run.ob(R4, ad.qualname, short(c), "metadata-lookup frame is opened only outside update loops "
           "(a nested frame would discard the outer loop's recorded changes)", ok, fi=ad.fi, node=c)


def r5_flush_complete(run, w):
  R5 = run.rule("C02-R5", "flusher forwards every entry except private columns; "
                "apply_user_actions flushes calc changes after its last recalculation", floor=2)
  eng = w.repo.cls("engine.Engine")
  for f in eng.methods.values():
    if not _is_flusher(w, f):
      continue
    fn = w.fn_of(f)
    flow = Flow(fn)
    cfg = fn.cfg
    heads = [n for n in cfg.nodes if n.kind == "for" and isinstance(n.stmt.iter, ast.Call) and
             endswith(cname(fn, n.stmt.iter) or "", "_changes_map.items")]
    ok = len(heads) == 1
    if ok:
      head = heads[0]
      body = flow.loop_body(head.id)
      def private_test(t, pol):
        return isinstance(t, ast.Call) and isinstance(t.func, ast.Attribute) and \
            t.func.attr == "is_private" and not t.args and pol is False
      emits = [(n, c) for (n, c, nm) in calls_E(fn) if n.id in body and
               (E.is_summary_add_changes(c, nm, fn) or _emitting_helper(w, fn, c) is not None)]
      ok = len(emits) == 1
      for (n, c) in emits:
        # the add_changes call is conditional only on the change list being non-empty and on
        # the column not being private -- however those two tests are spelled
        for (t, pol, i) in flow.facts_inside(n.id, head.id):
          if isinstance(t, ast.Name) and pol is True and flow.binder(t.id, i) is head:
            continue    # the (non-empty) changes list of this entry
          if private_test(t, pol):
            continue
          ok = False
        h = _emitting_helper(w, fn, c)
        if h is not None:
          # the same, inside the helper: its only conditions are on its own argument being
          # non-empty and on the column not being private
          hfn = w.fn_of(h)
          hflow = Flow(hfn)
          hps = h.params()[1:]
          hem = [hn for (hn, hc, hnm) in calls_E(hfn) if E.is_summary_add_changes(hc, hnm, hfn)]
          ok = ok and len(hem) == 1
          for hn in hem:
            for (t, pol, i) in hflow.required_facts(hn.id):
              if isinstance(t, ast.Name) and pol is True and t.id in hps and \
                  not hflow.du.defs.get(t.id):
                continue
              if private_test(t, pol):
                continue
              ok = False
        # and nothing leaves the loop early
        ok = ok and not any(cfg.nodes[x].kind in ("break", "return") for x in body)
    run.ob(R5, f.qualname, "for node, changes in self._changes_map.items(): ... add_changes",
           "only empty change lists and private columns are withheld from the summary", ok, fi=f)
  au = w.fn("engine.Engine.apply_user_actions")
  cfg = au.cfg
  fl = nodes_calling_E(au, lambda c, nm, f: endswith(nm, "out_actions.flush_calc_changes"))
  recalc = nodes_calling_E(au, lambda c, nm, f: nm in ("self._bring_all_up_to_date",
                                                    "self.docmodel.apply_auto_removes"))
  # only what happens on a path to the normal return matters: a recalculation (or a flush) inside
  # a failure handler that ends in `raise` emits nothing to the caller
  def returns_normally(k):
    return cfg.exit.id in cfg.reach_after({k})
  fl = {k for k in fl if returns_normally(k)}
  recalc = {k for k in recalc if returns_normally(k)}
  ok = bool(fl) and bool(recalc) and all(cfg.postdominated_by(r, fl) for r in recalc) and \
      not (cfg.reach_after(fl) & recalc)
  run.ob(R5, au.qualname, "flush_calc_changes() after the last _bring_all_up_to_date / auto-removes",
         "calc changes of the whole bundle are converted to stored actions before returning", ok,
         fi=au.fi, missing=not fl or not recalc)


def r6_interpreter(run, w):
  R6 = run.rule("C02-R6", "action types = DocActions methods = TableDataSet methods, equal arity",
                floor=13)
  types = w.action_types()
  da = w.repo.cls("docactions.DocActions")
  tds = w.repo.cls("table_data_set.TableDataSet")
  for an in w.doc_action_names():
    nf = len(types[an])
    for ci in (da, tds):
      m = ci.methods.get(an)
      ok = m is not None and len(m.params()) - 1 == nf and not m.node.args.vararg
      run.ob(R6, ci.qualname, an, "%s.%s exists with %d parameters" % (ci.name, an, nf), ok,
             nontrivial=False, fi=m)
  extra = [m for m in da.methods if m[0].isupper() and m not in types]
  run.ob(R6, da.qualname, "no extra action methods",
         "DocActions has no capitalised method that is not an action type", not extra,
         nontrivial=False)


def r7_stored_writers(run, w):
  R7 = run.rule("C02-R7", "out_actions.stored is written only by the gateway, the ActionGroup "
                "flushers, rollback trimming, and InitNewDoc's schema creation actions", floor=4)
  allowed = {
    "useractions.UserActions._do_doc_action": "gateway",
    "action_obj.ActionGroup.flush_calc_changes": "calc flush",
    "action_obj.ActionGroup.flush_calc_changes_for_column": "calc flush for one column",
    "useractions.UserActions.InitNewDoc": "schema creation actions",
    "engine.Engine._undo_to_checkpoint": "rollback trimming",
    "action_obj.ActionGroup.__init__": "initialisation",
    "action_obj.ActionGroup.from_json_obj": "deserialisation of a group",
  }
  for fi in w.repo.all_functions():
    if not analysed_separately(w, fi):
      continue
    fn = w.fn_of(fi)
    fi = fn.fi
    for x in func_nodes(fi):
      hit = None
      if isinstance(x, ast.Call):
        nm = cname(fn, x)
        if endswith(nm, "out_actions.stored.append", "out_actions.stored.extend",
                    "out_actions.stored.insert", "out_actions.stored.pop",
                    "out_actions.stored.remove", "out_actions.stored.clear"):
          hit = x
        # passing the list itself to a writer: convert_deltas_to_actions(self.stored, ...)
        if fi.cls is not None and fi.cls.qualname == "action_obj.ActionGroup":
          for a in x.args:
            if text(a) == "self.stored" and not endswith(nm or "", "len"):
              hit = x
      elif isinstance(x, (ast.Assign, ast.AugAssign, ast.Delete)):
        tg = x.targets if not isinstance(x, ast.AugAssign) else [x.target]
        for t in tg:
          base = t.value if isinstance(t, ast.Subscript) else t
          d = fn.aliases.dotted(base)
          if endswith(d, "out_actions.stored") or \
              (fi.cls is not None and fi.cls.qualname == "action_obj.ActionGroup" and
               d == "self.stored") or (d is not None and d.endswith(".stored") and
                                       fn.type_of(base.value if isinstance(base, ast.Attribute)
                                                  else base) == T.ACTIONGROUP):
            hit = x
      if hit is not None:
        run.ob(R7, fi.qualname, short(hit), "writer of the stored list is one of the enumerated "
               "owners", fi.qualname in allowed, fi=fi, node=hit, nontrivial=False)
  # InitNewDoc's bulk write is schema_create_actions(), the same function that builds the
  # engine's built-in tables
  init = w.fn("useractions.UserActions.InitNewDoc")
  iflow = Flow(init)
  def creation_actions(v, kk):
    return isinstance(v, ast.Call) and endswith(dotted(v.func), "schema_create_actions")
  writes = [(n, c, nm) for (n, c, nm) in calls_E(init)
            if endswith(nm, "out_actions.stored.extend", "out_actions.stored.append",
                        "out_actions.stored.insert")]
  ok = len(writes) == 1
  for (n, c, nm) in writes:
    a0 = c.args[0] if nargs(c) == 1 and c.args else None
    if a0 is None:
      ok = False
    elif nm.endswith(".extend"):
      ok = ok and iflow.denotes(a0, n.id, creation_actions)
    elif nm.endswith(".append"):
      # one by one: the appended value is the variable of a loop over the creation actions
      src = iflow.loop_source(a0, n.id)
      ok = ok and src is not None and iflow.denotes(src[0], src[1], creation_actions) and \
          not iflow.facts_inside(n.id, src[1])
    else:
      ok = False
  run.ob(R7, init.qualname, "stored.extend(schema.schema_create_actions())",
         "the only unapplied stored actions are the built-in schema creation actions", ok,
         fi=init.fi)
  bs = w.fn("schema.build_schema")
  ok = any(endswith(dotted(c.func), "schema_create_actions") for c in calls_in(bs.node))
  run.ob(R7, bs.qualname, "build_schema uses schema_create_actions()",
         "the engine's built-in tables come from the same list the stored actions announce", ok,
         fi=bs.fi)


def func_nodes(fi):
  for s in fi.node.body:
    for n in walk_no_nested(s):
      yield n


def r8_private_excluded(run, w):
  R8 = run.rule("C02-R8", "actions and table data built by iterating all_columns exclude private "
                "and virtual columns", floor=3)
  sites = {
    "engine.Engine.fetch_table": ("is_private", "is_virtual_column"),
    "docactions.DocActions.BulkRemoveRecord": ("is_private",),
    "engine.Engine.convert_action_values": ("is_virtual_column", "is_formula"),
  }
  for q, need in sorted(sites.items()):
    fn = w.fn(q)
    flow = Flow(fn)
    cfg = fn.cfg
    heads = [n for n in cfg.nodes if n.kind == "for" and
             "all_columns" in flow.itext(n.stmt.iter, n.id)]
    comps = [(n, x) for n in cfg.nodes for e in n.exprs for x in walk_no_nested(e)
             if isinstance(x, (ast.DictComp, ast.ListComp, ast.SetComp, ast.GeneratorExp)) and
             any("all_columns" in flow.itext(g.iter, n.id) for g in x.generators)]
    from ._h_E import callgraph
    def mentions(t):
      """Text of a condition, plus the bodies of the repository predicates it calls (a filter
      moved into a helper predicate still mentions what it tests)."""
      out = [text(t)]
      for c_ in ast.walk(t):
        if isinstance(c_, ast.Call):
          tg = callgraph(w).resolve(fn, c_)
          if 0 < len(tg) <= 3:
            out.extend(text(t_.node) for t_ in tg)
      return " ".join(out)
    if not heads and not comps:
      raise AnalysisError("%s no longer iterates all_columns" % q)
    def check_guard(site, atoms):
      guard_txt = " ".join(("" if pol else "not ") + text(t) for (t, pol) in atoms)
      ok = all(any(p + "(" in mentions(t) for (t, pol) in atoms) for p in need)
      # a decomposed atom that is the predicate call itself must be required false
      for (t, pol) in atoms:
        if isinstance(t, ast.Call) and isinstance(t.func, (ast.Attribute, ast.Name)) and \
            (t.func.attr if isinstance(t.func, ast.Attribute) else t.func.id) in need and pol:
          ok = False
      run.ob(R8, q, short(site), "column enters the action only under guards %s" % "/".join(need),
             ok, fi=fn.fi, node=site)
    for head in heads:
      # the statement that stores into the output dict must be guarded by each needed predicate
      body = flow.loop_body(head.id)
      for n in cfg.nodes:
        if n.id in body and n.kind == "stmt" and isinstance(n.stmt, ast.Assign) and \
            isinstance(n.stmt.targets[0], ast.Subscript):
          check_guard(n.stmt, [(t, pol) for (t, pol, i) in flow.facts_inside(n.id, head.id)])
    for (n, x) in comps:
      if not isinstance(x, ast.DictComp):
        continue
      atoms = [f for g in x.generators for t in g.ifs for f in facts_full(t, True)]
      check_guard(x, atoms)


def r9_presence(run, w):
  R9 = run.rule("C02-R9", "ActionSummary row presence: add/remove overwrite the 'after' state and "
                "only default the 'before' state", floor=4)
  for meth, after_val, before_val in (("add_records", True, False), ("remove_records", False, True)):
    fn = w.fn("action_summary.ActionSummary." + meth)
    flow = Flow(fn)
    got_after = got_before = None
    for n in fn.cfg.nodes:
      if n.kind == "stmt" and isinstance(n.stmt, ast.Assign):
        for t in n.stmt.targets:
          if isinstance(t, ast.Subscript) and \
              endswith(cname(fn, t.value) or "", "_rows_present_after"):
            v = flow.resolve(n.stmt.value, n.id)[0]
            got_after = v.value if isinstance(v, ast.Constant) else "non-constant"
    for (n, c, nm) in calls_E(fn):
      if endswith(nm, "_rows_present_before.setdefault") and nargs(c) == 2 and len(c.args) == 2:
        v = flow.resolve(c.args[1], n.id)[0]
        if isinstance(v, ast.Constant):
          got_before = v.value
      if endswith(nm, "_rows_present_after.setdefault"):
        got_after = "setdefault"
    if got_after is None or got_before is None:
      raise AnalysisError("%s: write of _rows_present_after / default of _rows_present_before "
                          "not recognised" % fn.qualname)
    run.ob(R9, fn.qualname, "_rows_present_after[r] = %s" % after_val,
           "the last add/remove of a row decides its final presence (plain assignment)",
           got_after is after_val, fi=fn.fi)
    run.ob(R9, fn.qualname, "_rows_present_before.setdefault(r, %s)" % before_val,
           "the first add/remove of a row decides its initial presence (setdefault)",
           got_before is before_val, fi=fn.fi)


UPDATE_KINDS = {"UpdateRecord", "BulkUpdateRecord"}
COLUMN_FLUSH = ("flush_calc_changes_for_column", "pop_column_delta_as_actions")


def _column_flush_sites(w, fn, depth=2):
  """[(cfg node of fn, call in fn, chain of (Fn, flush call) from outermost callee to the actual
  per-column flush)] for every call of fn that is, or reaches through helpers of the same class /
  module, ActionGroup.flush_calc_changes_for_column / ActionSummary.pop_column_delta_as_actions."""
  from ._h_E import callgraph
  cg = callgraph(w)
  def direct(c, nm):
    return any(endswith(nm, x) for x in COLUMN_FLUSH)
  def reach(f, d, seen):
    """[(Fn, call)] chains inside helper f down to a direct flush call."""
    out = []
    for (n, c, nm) in calls_E(f):
      if direct(c, nm):
        out.append([(f, n, c)])
      elif d > 0:
        for t in cg.resolve(f, c):
          if t.qualname in seen or t.module is not f.fi.module:
            continue
          for ch in reach(w.fn_of(t), d - 1, seen | {t.qualname}):
            out.append([(f, n, c)] + ch)
    return out
  return reach(fn, depth, {fn.qualname})


def r10_update_flush(run, w):
  R10 = run.rule("C02-R10", "gateway: before an update action is appended to stored, the pending "
                 "calculated changes of each of its data columns are flushed; the per-column flush "
                 "is conditional only on the column existing and not being a formula column",
                 floor=2)
  gw = w.fn("useractions.UserActions._do_doc_action")
  cfg = gw.cfg
  flow = Flow(gw)
  p_action = gw.fi.params()[1]
  appends = [(n, c) for (n, c, nm) in calls_E(gw)
             if endswith(nm, "out_actions.stored.append") and nargs(c) == 1 and c.args]
  if not appends:
    raise AnalysisError("gateway: out_actions.stored.append(<action>) not found")
  chains = _column_flush_sites(w, gw)
  flush_nodes = {ch[0][1].id for ch in chains}
  # written in place, the flush sits in a loop over the action's columns: passing that loop is
  # what matters (which columns qualify is the second obligation), and so is skipping it because
  # the table does not exist
  for ch in chains:
    if len(ch) == 1:
      col_ = argn(w, gw, ch[0][2], 1)
      src_ = flow.loop_source(col_, ch[0][1].id) if col_ is not None else None
      if src_ is not None:
        flush_nodes.add(src_[1])
  def no_table(e, i):
    return isinstance(e, ast.Compare) and len(e.ops) == 1 and isinstance(e.ops[0], ast.Is) and \
        text(e.comparators[0]) == "None" and \
        any("tables" in text(l.expr) for l in flow.leaves(e.left, i))
  def a_table(e, i):
    return isinstance(e, ast.Name) and any("tables" in text(l.expr) for l in flow.leaves(e, i))
  skip_edges = flow.edges_where(no_table, True) | flow.edges_where(a_table, False)
  def update_types(e, i, subject):
    """Action kinds an `isinstance(<the action>, T)` test names, or None."""
    if not (isinstance(e, ast.Call) and dotted(e.func) == "isinstance" and len(e.args) == 2):
      return None
    if not flow.same_value(e.args[0], i, subject[0], subject[1]) and \
        flow.itext(e.args[0], i, stop=(p_action,)) != flow.itext(subject[0], subject[1],
                                                                 stop=(p_action,)):
      return None
    t = flow.resolve(e.args[1], i)[0]
    elts = t.elts if isinstance(t, (ast.Tuple, ast.List)) else [t]
    return {(dotted(x) or "").split(".")[-1] for x in elts}
  from ._h_E import nfacts
  for (sn, sc) in appends:
    subject = (sc.args[0], sn.id)
    # edges on which the action is known not to be an update action
    not_update = set()
    for n in cfg.nodes:
      if n.kind != "if" or n.id not in cfg.if_true:
        continue
      t_, f_ = flow._if_edges(n.id)
      for pol, succs in ((True, t_), (False, f_)):
        excluded = set()
        for (e, p) in nfacts(n.stmt.test, pol):
          r_, rn_ = flow.resolve(e, n.id) if isinstance(e, ast.Name) else (e, n.id)
          ts = update_types(r_, rn_, subject)
          if ts is not None and p is False:
            excluded |= ts
        if UPDATE_KINDS <= excluded:
          not_update |= {(n.id, x) for x in succs}
    seen, todo = set(), [cfg.entry.id]
    while todo:
      x = todo.pop()
      if x in seen or x in flush_nodes:
        continue
      seen.add(x)
      todo.extend(y for y in cfg.succ[x] if (x, y) not in not_update and (x, y) not in skip_edges)
    ok = sn.id not in seen
    wit = None
    if not ok:
      wit = "an update action can reach the append without the flush" + \
          ("" if chains else " (no call reaching flush_calc_changes_for_column found)")
    run.ob(R10, gw.qualname, "flush pending calc changes of the updated columns before "
           "stored.append(%s)" % text(sc.args[0]),
           "calculated changes of a data column made earlier in the bundle are emitted before a "
           "later explicit update of the same cells, not after it at the end of the bundle",
           ok, witness=wit, fi=gw.fi, node=sc, missing=not chains)
  # the per-column flush itself
  unfollowed = []
  def allowed_fact(f, fl, t, pol, i, in_gateway):
    tt = fl.resolve(t, i)[0] if isinstance(t, ast.Name) else t
    if in_gateway:
      ts = update_types(tt, i, (ast.Name(id=p_action, ctx=ast.Load()), i))
      if ts is not None and pol is True and UPDATE_KINDS <= ts:
        return True
      if isinstance(t, ast.Name) and pol is True and \
          fl.itext(t, i, stop=(p_action,)) in (p_action, p_action + ".simplify()"):
        return True
    if isinstance(tt, ast.Call) and isinstance(tt.func, ast.Attribute) and \
        ((tt.func.attr == "has_column" and pol is True) or
         (tt.func.attr == "is_formula" and pol is False)):
      return True
    if isinstance(tt, ast.Compare) and len(tt.ops) == 1 and isinstance(tt.ops[0], ast.Is) and \
        text(tt.comparators[0]) == "None" and pol is False:
      return True       # "<table> is not None"
    if isinstance(t, ast.Name) and pol is True and \
        any("tables" in text(l.expr) for l in fl.leaves(t, i)):
      return True       # "if table:"
    return False
  from ._h_E import facts_full as _ff, nfacts as _nf
  for ch in chains:
    flows = [flow if f is gw else Flow(f) for (f, n, c) in ch]
    ok = True
    why = None
    for depth_, (f, n, c) in enumerate(ch):
      fl = flows[depth_]
      for (t, pol, i) in fl.required_facts(n.id):
        if not allowed_fact(f, fl, t, pol, i, f is gw):
          ok = False
          why = "%s only when `%s` is %s" % (short(c, 50), short(t, 60), pol)
    # which columns: follow the column argument up the chain, through parameters, filtering
    # comprehensions (whose filters must be allowed ones too) and list()/keys() wrappers, to
    # <the action>.columns
    def columns_source(level, e, k, budget=12):
      """True / False / None(cannot follow): `e` at node k of chain level `level` ranges over
      every column of the action (possibly minus allowed exclusions)."""
      nonlocal ok, why
      f, n, c = ch[level]
      fl = flows[level]
      if budget <= 0:
        return None
      e, k = fl.resolve(e, k)
      if isinstance(e, ast.Name):
        src = fl.loop_source(e, k)
        if src is not None:
          return columns_source(level, src[0], src[1], budget - 1)
        ps = f.fi.params()
        if e.id in ps and level > 0 and not fl.du.defs.get(e.id):
          pf, pn, pc = ch[level - 1]
          bound = args_by_params(pc, ps[1:] if f.fi.cls is not None and f.fi.parent is None
                                 else ps)
          if bound is None or e.id not in bound:
            return None
          return columns_source(level - 1, bound[e.id], pn.id, budget - 1)
        return None
      if isinstance(e, (ast.ListComp, ast.GeneratorExp, ast.SetComp)) and len(e.generators) == 1 \
          and text(e.elt) == text(e.generators[0].target):
        for t_ in e.generators[0].ifs:
          for (x, pol) in _nf(t_, True, full=True):
            if not allowed_fact(f, fl, x, pol, k, False):
              ok = False
              why = "columns filtered by `%s`" % short(t_, 60)
        return columns_source(level, e.generators[0].iter, k, budget - 1)
      if isinstance(e, ast.Call) and dotted(e.func) in ("list", "tuple", "sorted", "set", "iter") \
          and len(e.args) == 1:
        return columns_source(level, e.args[0], k, budget - 1)
      if isinstance(e, ast.Call) and isinstance(e.func, ast.Attribute) and \
          e.func.attr == "keys" and not e.args:
        return columns_source(level, e.func.value, k, budget - 1)
      if isinstance(e, ast.Attribute) and e.attr == "columns":
        if level == 0:
          return fl.itext(e.value, k, stop=(p_action,)) in (p_action, p_action + ".simplify()") \
              or fl.same_value(e.value, k, ast.Name(id=p_action, ctx=ast.Load()), k)
        return True if action_param(level, e.value, k) else None
      return None
    def action_param(level, e, k):
      """e (at chain level > 0) is the parameter that receives the gateway's action."""
      f, n, c = ch[level]
      fl = flows[level]
      e = fl.resolve(e, k)[0]
      ps = f.fi.params()
      if not (isinstance(e, ast.Name) and e.id in ps and not fl.du.defs.get(e.id)):
        return False
      pf, pn, pc = ch[level - 1]
      bound = args_by_params(pc, ps[1:] if f.fi.cls is not None and f.fi.parent is None else ps)
      if bound is None or e.id not in bound:
        return False
      if level - 1 == 0:
        return flows[0].itext(bound[e.id], pn.id, stop=(p_action,)) in \
            (p_action, p_action + ".simplify()")
      return action_param(level - 1, bound[e.id], pn.id)
    f, n, c = ch[-1]
    col = argn(w, f, c, 1)
    res = None
    if col is not None:
      e_, k_ = flows[-1].resolve(col, n.id)
      if isinstance(e_, ast.Name) and e_.id in f.fi.params() and len(ch) > 1 and \
          not flows[-1].du.defs.get(e_.id):
        res = columns_source(len(ch) - 1, col, n.id)
      else:
        src = flows[-1].loop_source(col, n.id)
        res = columns_source(len(ch) - 1, src[0], src[1]) if src is not None else None
    if res is None:
      unfollowed.append("%s: cannot tell which columns `%s` is called for" % (f.qualname, short(c)))
      continue
    run.ob(R10, f.qualname, short(c), "the flush runs for every column of the update action, "
           "conditional only on the column existing and not being a formula column",
           ok and res, witness=why, fi=f.fi, node=c)
  if unfollowed:
    raise AnalysisError(unfollowed[0])



def r11_add_loads_all(run, w):
  """The stored BulkAddRecord carries every value the action was given; the engine must load
  every one of them, or a replay of the stored action sets cells the engine never set."""
  R11 = run.rule("C02-R11", "DocActions.BulkAddRecord loads every supplied column value into the "
                 "engine (what the stored action carries is what the engine holds)", floor=2)
  fn = w.fn("docactions.DocActions.BulkAddRecord")
  ps = fn.fi.params()
  if len(ps) < 4:
    raise AnalysisError("BulkAddRecord: unexpected signature %s" % ps)
  p_vals = ps[3]
  du = DefUse(fn)
  calls = [(n, c) for (n, c, nm) in fn.calls() if nm is not None and nm.endswith(".add_records")
           and not nm.endswith("summary.add_records")]
  if len(calls) != 1:
    raise AnalysisError("BulkAddRecord: expected one call of Engine.add_records, found %d"
                        % len(calls))
  (n, c) = calls[0]
  tgt = w.fn("engine.Engine.add_records")
  tps = tgt.fi.params()[1:]
  arg = None
  if len(c.args) >= 3:
    arg = c.args[2]
  for k in c.keywords:
    if len(tps) >= 3 and k.arg == tps[2]:
      arg = k.value
  if arg is None:
    raise AnalysisError("BulkAddRecord: cannot bind the values argument of add_records")
  whole = du.denotes(arg, lambda e: isinstance(e, ast.Name) and e.id == p_vals and
                     not du.defs.get(p_vals))
  filtered = False
  if not whole and isinstance(arg, ast.Name):
    # a local dict filled under a condition, or a filtering comprehension over the parameter
    for nid in du.muts.get(arg.id, ()):
      st = fn.cfg.nodes[nid].stmt
      guards = [m for m in fn.cfg.nodes if m.kind == "if" and
                any(st is y for b in m.stmt.body + m.stmt.orelse for y in ast.walk(b))]
      filtered = filtered or bool(guards)
    for v in (du.values_of(arg.id) or []):
      if isinstance(v, ast.DictComp) and v.generators and v.generators[0].ifs and \
          p_vals in text(v.generators[0].iter):
        filtered = True
  if not whole and not filtered:
    raise AnalysisError("BulkAddRecord: cannot relate the values handed to add_records (%s) to "
                        "the action's column values" % short(arg))
  run.ob(R11, fn.qualname, "self._engine.add_records(table_id, row_ids, <the action's values>)",
         "the engine is given all the column values of the action, not a subset", whole,
         fi=fn.fi, node=c, witness=None if whole else "the values are filtered before loading")
  # add_records stores each of them: the loop over the values stores unconditionally
  vp = tps[2] if len(tps) >= 3 else None
  loops = [m.stmt for m in tgt.cfg.nodes if m.kind == "for" and isinstance(m.stmt.iter, ast.Call)
           and isinstance(m.stmt.iter.func, ast.Attribute) and m.stmt.iter.func.attr == "items"
           and text(m.stmt.iter.func.value) == vp]
  if len(loops) != 1:
    raise AnalysisError("add_records: the loop over the supplied column values was not found")
  lp = loops[0]
  sets = [x for x in ast.walk(lp) if isinstance(x, ast.Call) and isinstance(x.func, ast.Attribute)
          and x.func.attr == "set" and len(x.args) == 2]
  cond = [x for x in ast.walk(lp) if isinstance(x, (ast.If, ast.IfExp, ast.Continue, ast.Break))]
  if not sets:
    raise AnalysisError("add_records: no column.set(row, value) in the loop over the values")
  run.ob(R11, tgt.qualname, "for col_id, values in column_values.items(): column.set(row, value)",
         "every supplied column is stored, for every row, unconditionally", not cond,
         fi=tgt.fi, node=lp)

D = "sandbox/grist/docactions.py"
U = "sandbox/grist/useractions.py"
EN = "sandbox/grist/engine.py"
VARIANTS = [
  ("apply-before-record", U,
   """      self._engine.out_actions.stored.append(action)
      self._engine.out_actions.direct.append(self._indirection_level == DIRECT_ACTION)
      self._engine.apply_doc_action(action)""",
   """      self._engine.out_actions.direct.append(self._indirection_level == DIRECT_ACTION)
      self._engine.apply_doc_action(action)
      self._engine.out_actions.stored.append(action)""", "C02-R1"),
  ("apply-outside-gateway", U,
   "          self._do_doc_action(actions.BulkUpdateRecord(table_id, rows, columns))",
   "          self._engine.apply_doc_action(actions.BulkUpdateRecord(table_id, rows, columns))", "C02-R1"),
  ("direct-docaction-call", U,
   "    self._engine.update_current_time()\n",
   "    self._engine.update_current_time()\n    self._engine.doc_actions.UpdateRecord('_grist_DocInfo', 1, {})\n", "C02-R2"),
  ("set-without-capture", EN,
   """            if not changes:
              changes = self._changes_map.setdefault(node, [])
            changes.append((row_id, previous, value))
            col.set(row_id, value)""",
   """            if not changes:
              changes = self._changes_map.setdefault(node, [])
            if col.is_formula():
              changes.append((row_id, previous, value))
            col.set(row_id, value)""", "C02-R3"),
  ("unframed-loop-not-flushed", EN,
   """      try:
        self._update_loop([WorkItem(node, row_ids, [])], ignore_other_changes=True)
      finally:""",
   """      self._update_loop([WorkItem(node, row_ids, [])], ignore_other_changes=True)
      if False:""", "C02-R4"),
  ("post-update-not-in-finally", EN,
   """      self._update_loop(work_items, ignore_other_changes=True)
    finally:
      self._triggering_doc_action = None
      self._post_update()""",
   """      self._update_loop(work_items, ignore_other_changes=True)
      self._post_update()
    finally:
      self._triggering_doc_action = None""", "C02-R4"),
  ("nested-frame", EN,
   """    if not self._in_update_loop:
      self._bring_mlookups_up_to_date(doc_action)""",
   """    self._bring_mlookups_up_to_date(doc_action)""", "C02-R4"),
  ("flush-skips-data-cols", EN,
   "      if changes and not col.is_private():", "      if changes and not col.is_private() and col.is_formula():", "C02-R5"),
  ("no-final-flush", EN,
   """    while self.docmodel.apply_auto_removes():
      self._bring_all_up_to_date()

    self.out_actions.flush_calc_changes()""",
   """    self.out_actions.flush_calc_changes()
    while self.docmodel.apply_auto_removes():
      self._bring_all_up_to_date()
""", "C02-R5"),
  ("update-flush-removed", U,
   "        self._flush_calc_changes_for_update(action)\n", "        pass\n", "C02-R10"),
  ("update-flush-after-stored", U,
   """      if isinstance(action, (actions.UpdateRecord, actions.BulkUpdateRecord)):
        self._flush_calc_changes_for_update(action)
      self._engine.out_actions.stored.append(action)
      self._engine.out_actions.direct.append(self._indirection_level == DIRECT_ACTION)
""", """      self._engine.out_actions.stored.append(action)
      self._engine.out_actions.direct.append(self._indirection_level == DIRECT_ACTION)
      if isinstance(action, (actions.UpdateRecord, actions.BulkUpdateRecord)):
        self._flush_calc_changes_for_update(action)
""", "C02-R10"),
  ("update-flush-only-bulk", U,
   "      if isinstance(action, (actions.UpdateRecord, actions.BulkUpdateRecord)):\n        self._flush_calc_changes_for_update(action)",
   "      if isinstance(action, actions.BulkUpdateRecord):\n        self._flush_calc_changes_for_update(action)", "C02-R10"),
  ("update-flush-skips-columns", U,
   "      if table.has_column(col_id) and not table.get_column(col_id).is_formula():\n        self._engine.out_actions.flush_calc_changes_for_column(action.table_id, col_id)",
   "      if table.has_column(col_id) and not table.get_column(col_id).is_formula() and col_id != 'manualSort':\n        self._engine.out_actions.flush_calc_changes_for_column(action.table_id, col_id)", "C02-R10"),
  ("stored-written-elsewhere", U,
   "    self._engine.update_current_time()\n",
   "    self._engine.update_current_time()\n    self._engine.out_actions.stored.append(actions.RemoveTable('X'))\n", "C02-R7"),
  ("fetch-includes-private", EN,
   "          and (private or not c.is_private())\n", "", "C02-R8"),
  ("present-after-setdefault", "sandbox/grist/action_summary.py",
   "      t._rows_present_after[r] = True", "      t._rows_present_after.setdefault(r, True)", "C02-R9"),
  ("add-loads-data-columns-only", D, "    self._engine.add_records(table_id, row_ids, column_values)\n",
   "    self._engine.add_records(table_id, row_ids, {c: v for c, v in column_values.items() if not table.get_column(c).is_formula()})\n".replace("self._engine.add_records(table_id, row_ids, {", "data_values = {").replace("})\n", "}\n    self._engine.add_records(table_id, row_ids, data_values)\n"),
   "C02-R11"),
  ("add-records-skips-falsy-columns", EN, "    for col_id, values in column_values.items():\n      column = table.get_column(col_id)\n      column.growto(growto_size)",
   "    for col_id, values in column_values.items():\n      if not any(values):\n        continue\n      column = table.get_column(col_id)\n      column.growto(growto_size)", "C02-R11"),
]
