"""
Rules added after independent bug-seeding rounds showed gaps (see DESIGN.md section 10). Each is
called from the check() of the property module it belongs to, under that property's rule ids.
"""
import ast
from ..index import AnalysisError, dotted
from ..astutil import text, short, endswith, calls_in, walk_no_nested
from ..dataflow import DefUse


# ------------------------------------------------------------------------------------------ C14
def c14_sortkey_total_order(run, w, rule_id="C14-R5"):
  """SortKey.__lt__ is a lexicographic strict order: inside the per-column loop a verdict is
  returned only under a strict `<` test between the two compared values (or their fallback
  keys), with the sign applied consistently; ties fall through to the next column and finally to
  the row id. Any unconditional verdict inside the loop breaks the fall-through that makes later
  sort columns and the row id count."""
  from . import _h_C as H
  R = run.rule(rule_id, "SortKey.__lt__: verdicts inside the column loop only under strict "
               "comparisons, ties fall through to later columns and finally to the row id", floor=3)
  fn = w.fn("sort_key.make_sort_key.SortKey.__lt__")
  flow = H.Flow(fn, cfg=H.all_raise_cfg(fn))     # the fallback comparison lives in a handler
  loops = [s for s in fn.node.body if isinstance(s, ast.For)]
  if len(loops) != 1:
    raise AnalysisError("SortKey.__lt__: expected one loop over the sort columns")
  lp = loops[0]
  lid = [n.id for n in flow.cfg.nodes if n.stmt is lp][0]
  it = H.resolve(flow, lp.iter, lid) if isinstance(lp.iter, ast.Name) else lp.iter
  if not (isinstance(it, ast.Call) and dotted(it.func) == "zip" and len(it.args) == 3):
    raise AnalysisError("SortKey.__lt__: the loop is not over zip(<values>, <values>, <spec>)")

  def role(e, nid):
    """'a' / 'b' / 'sign' / 'col' when e is that component of the zipped triple (however it was
    taken apart: nested unpacking, indexing, a local), else None."""
    try:
      rs = flow.roots(e, nid)
    except AnalysisError:
      return None
    kinds = set()
    for r in rs:
      if not (r.kind == "call" and r.node is it and r.path[:1] == (("elem",),)):
        return None
      kinds.add({(("idx", 0),): "a", (("idx", 1),): "b", (("idx", 2), ("idx", 1)): "sign",
                 (("idx", 2), ("idx", 0)): "col"}.get(tuple(r.path[1:])))
    return kinds.pop() if len(kinds) == 1 else None

  in_loop = {id(x) for x in ast.walk(lp)}
  cases = H.return_cases(fn.node)
  inner = [c for c in cases if id(c.stmt) in in_loop]
  outer = [c for c in cases if id(c.stmt) not in in_loop]
  if len(inner) < 2:
    raise AnalysisError("SortKey.__lt__: fewer than two verdicts inside the loop")
  def side(e, depth=0):
    """'a' / 'b' when the expression is built from one of the two compared values only."""
    got = set()
    for x in ast.walk(e):
      if isinstance(x, ast.Name) and isinstance(x.ctx, ast.Load) and id(x) in flow._node_of:
        r = role(x, flow._node_of[id(x)])
        if r in ("a", "b"):
          got.add(r)
        elif r is None and x.id in flow.defs:
          # a local computed from a or b (the fallback keys)
          defs = [flow.cfg.nodes[d].stmt for d in flow.defs[x.id]]
          for d in defs:
            if isinstance(d, ast.Assign) and len(d.targets) == 1 and \
                isinstance(d.targets[0], ast.Name) and depth < 4:
              s_ = side(d.value, depth + 1)
              got.add(s_ if s_ else "?")
            else:
              got.add("?")
    return got.pop() if len(got) == 1 else None
  for case in inner:
    ok = False
    why = "verdict is not directly under a strict comparison of the two values"
    strict = []
    for (t, p) in case.atoms:
      if not any(id(x) in in_loop for x in ast.walk(t) if isinstance(x, ast.expr)):
        continue
      if p is True and isinstance(t, ast.Compare) and len(t.ops) == 1 and \
          isinstance(t.ops[0], (ast.Lt, ast.Gt)):
        l, rr = side(t.left), side(t.comparators[0])
        if isinstance(t.ops[0], ast.Gt):
          l, rr = rr, l
        if {l, rr} == {"a", "b"}:
          strict.append((t, 1 if l == "a" else -1))
    if len(strict) == 1:
      want = strict[0][1]
      rn = [m.id for m in flow.cfg.nodes if m.stmt is case.stmt][0]
      v = H.resolve(flow, case.value, rn) if case.value is not None else None
      ok = isinstance(v, ast.Compare) and len(v.ops) == 1 and isinstance(v.ops[0], ast.Eq)
      if ok:
        pair = [v.left, v.comparators[0]]
        signs = [x for x in pair if role(x, flow._node_of.get(id(x), rn)) == "sign"]
        consts = [x for x in pair if text(x) == str(want)]
        ok = len(signs) == 1 and len(consts) == 1
      why = None if ok else "sign applied inconsistently (expected <sign> == %d)" % want
    run.ob(R, fn.qualname, "return %s under %s" % (short(case.value, 40),
                                                    short(strict[0][0], 40) if strict
                                                    else "<nothing>"),
           "a column decides the order only when its two values differ strictly", ok,
           witness=why, fi=fn.fi, node=case.stmt)
  ok = len(outer) == 1 and not outer[0].atoms and outer[0].value is not None and \
      text(H.inline(flow, outer[0].value)) == "self.row_id < other.row_id" and \
      fn.node.body[-1] is outer[0].stmt
  run.ob(R, fn.qualname, "return self.row_id < other.row_id", "rows equal in every sort column "
         "are ordered by ascending row id", ok, fi=fn.fi)
  ok = [text(H.inline(flow, x, lid)) for x in it.args[:2]] == ["self.values", "other.values"]
  run.ob(R, fn.qualname, "for (a, b, (_, sign)) in zip(self.values, other.values, spec)",
         "columns are compared in sort-spec order", ok, fi=fn.fi, nontrivial=False)


# ------------------------------------------------------------------------------------------ C13 / C05
def c13_reset_all_keys(run, w, rule_id="C13-R2"):
  """_reset_sorted_versions drops the cached order of *every* key the record currently maps to."""
  from . import _h_C as H
  run.rule(rule_id, "")
  fn = w.fn("lookup.LookupMapColumn._reset_sorted_versions")
  flow = H.Flow(fn)
  ps = fn.fi.params()
  def is_keyset(v):
    # set(<iter>) / list(<iter>) of the mapping's keys for this record, unfiltered
    return isinstance(v, ast.Call) and dotted(v.func) in ("set", "list", "tuple", "sorted") and \
        len(v.args) == 1 and isinstance(v.args[0], ast.Call) and \
        endswith(fn.name(v.args[0].func), "_mapping.get_new_keys_iter") and \
        [text(x) for x in v.args[0].args] == [ps[1]]
  uses = [c for c in calls_in(fn.node) if isinstance(c.func, ast.Attribute) and
          c.func.attr == "get_new_keys_iter"]
  loops = [s for s in fn.node.body if isinstance(s, ast.For) and
           is_keyset(H.inline(flow, s.iter))]
  run.ob(rule_id, fn.qualname, "new_keys = set(self._mapping.get_new_keys_iter(rec))",
         "all keys of the changed record are considered (no filter)",
         len(uses) == 1 and len(loops) == 1, fi=fn.fi)
  def is_pop(c):
    return isinstance(c.func, ast.Attribute) and c.func.attr == "pop" and \
        isinstance(c.func.value, ast.Attribute) and c.func.value.attr == "sorted_versions"
  ok = len(loops) == 1 and not any(isinstance(x, (ast.If, ast.Continue, ast.Break, ast.IfExp))
                                   for x in ast.walk(loops[0])) and \
      any(is_pop(c) for c in calls_in(loops[0].body))
  run.ob(rule_id, fn.qualname, "for key in new_keys: <set>.sorted_versions.pop(sort_spec, None)",
         "the cached order is dropped for each of them unconditionally", ok, fi=fn.fi)
  cases = [c for c in H.return_cases(fn.node)]
  ok = len(cases) == 1 and len(loops) == 1 and cases[0].value is not None and \
      text(H.inline(flow, cases[0].value)) == text(H.inline(flow, loops[0].iter))
  run.ob(rule_id, fn.qualname, "return new_keys", "the same keys are reported as affected",
         ok, fi=fn.fi)


# ------------------------------------------------------------------------------------------ C20
def c20_adjustment_pairing(run, w, rule_id="C20-R5"):
  """ListWithAdjustments keeps at most one adjustment per index / one entry per insertion: each
  add of a re-spread key is paired with the removal of the key it replaces."""
  R = run.rule(rule_id, "relabeling: every re-spread key replaces the old key of the same index "
               "(discard/remove before add)", floor=2)
  fn = w.fn("relabeling.ListWithAdjustments._do_adjust_range")
  cfg = fn.cfg
  for coll, removers in (("self._adjustments", ("discard", "remove")),
                         ("self._insertions", ("remove", "discard"))):
    adds = [(n, c) for (n, c, nm) in fn.calls() if nm == coll + ".add"]
    rems = [(n, c) for (n, c, nm) in fn.calls() if nm in [coll + "." + r for r in removers]]
    if not adds:
      raise AnalysisError("_do_adjust_range: no %s.add found" % coll)
    for (n, c) in adds:
      # a removal earlier in the same statement block (same branch, same iteration)
      ok = False
      block = _block_containing(fn.node, n.stmt)
      if block is not None:
        idx = [i for i, st in enumerate(block) if st is n.stmt][0]
        for (rn, rc) in rems:
          if any(st is rn.stmt for st in block[:idx]):
            a_new, a_old = c.args[0], rc.args[0]
            if isinstance(a_new, ast.Tuple) and isinstance(a_old, ast.Tuple):
              ok = text(a_new.elts[0]) == text(a_old.elts[0]) and \
                  text(a_new.elts[1]) != text(a_old.elts[1])
            else:
              ok = text(a_new) != text(a_old)
      run.ob(R, fn.qualname, short(c), "the entry for this index is replaced, not duplicated "
             "(a stale key would be applied after the new one)", ok, fi=fn.fi, node=c)


def _block_containing(fnode, stmt):
  for n in ast.walk(fnode):
    for fld in ("body", "orelse", "finalbody"):
      b = getattr(n, fld, None)
      if isinstance(b, list) and any(st is stmt for st in b):
        return b
  return None


# ------------------------------------------------------------------------------------------ C09 / C10
def c10_updates_unfiltered(run, w, rule_id="C10-R2"):
  """The back-reference clean-up applies every update the referring column reports."""
  run.rule(rule_id, "")
  from . import _h_B as H
  fn = H.inlined_fn(w, "useractions.UserActions.doBulkRemoveRecord")
  calls = [(n, c) for (n, c, nm) in fn.calls()
           if nm and nm.endswith(".get_updates_for_removed_target_rows")]
  if len(calls) != 1:
    raise AnalysisError("doBulkRemoveRecord: get_updates_for_removed_target_rows call not found")
  n, c = calls[0]
  st = n.stmt
  var = st.targets[0].id if isinstance(st, ast.Assign) and isinstance(st.targets[0], ast.Name) \
      else None
  ok = var is not None
  wit = None
  if ok:
    du = DefUse(fn)
    others = (du.defs.get(var, set()) | du.muts.get(var, set())) - {n.id}
    if others:
      ok, wit = False, "%s is rewritten after the column reported it" % var
    for x in ast.walk(fn.node):
      if isinstance(x, ast.comprehension) and text(x.iter) == var and x.ifs:
        ok, wit = False, "updates filtered: %s" % short(x.ifs[0])
  run.ob(rule_id, fn.qualname, "updates = ref_col.get_updates_for_removed_target_rows(...)",
         "every cell the referring column reports is rewritten (no filtering of the updates)", ok,
         witness=wit, fi=fn.fi, node=st)


# ------------------------------------------------------------------------------------------ C08
def c08_schema_updates_before_modify(run, w, rule_id="C08-R1"):
  """_updateTableRecords collects column updates in one dict which first drives doModifyColumn
  (schema) and is then written to the column metadata: nothing may be added to it in between,
  or the metadata gets a type / isFormula the schema never saw."""
  run.rule(rule_id, "")
  tfi = w.override_methods().get(("BulkUpdateRecord", "_grist_Tables"))
  if tfi is None:
    raise AnalysisError("no @override_action('BulkUpdateRecord', '_grist_Tables') method")
  fn = w.fn_of(tfi)
  cfg = fn.cfg
  # the metadata write of the collected column updates
  from . import _h_B as H
  writes = [(n, H.norm(w, fn, c)) for (n, c, nm) in fn.calls() if nm == "self.doBulkUpdateFromPairs"]
  writes = [(n, c) for (n, c) in writes if len(c.args) >= 2 and
            H.const_value(H.deref(fn, c.args[0])) == (True, "_grist_Tables_column")]
  if len(writes) != 1:
    raise AnalysisError("_updateTableRecords: column metadata write not found")
  wn, wc = writes[0]
  src = wc.args[1]
  if not (isinstance(src, ast.Call) and isinstance(src.func, ast.Attribute) and
          src.func.attr == "items" and isinstance(src.func.value, ast.Name)):
    raise AnalysisError("_updateTableRecords: metadata write is not <dict>.items()")
  d = src.func.value.id
  # loops over the dict that call doModifyColumn with the collected values
  loops = [n for n in cfg.nodes if n.kind == "for" and text(n.stmt.iter) == d + ".items()" and
           any(fn.name(c) == "self.doModifyColumn" and len(H.norm(w, fn, c).args) == 3 and
               isinstance(H.norm(w, fn, c).args[2], ast.Name) for c in calls_in(n.stmt.body))]
  if not loops:
    raise AnalysisError("_updateTableRecords: doModifyColumn loop over %s not found" % d)
  du = DefUse(fn)
  writers = du.muts.get(d, set()) | {n.id for n in cfg.nodes if any(
    isinstance(c.func, ast.Attribute) and isinstance(c.func.value, ast.Call) and
    isinstance(c.func.value.func, ast.Attribute) and c.func.value.func.attr == "setdefault" and
    text(c.func.value.func.value) == d for c in calls_in(n.exprs))}
  last_loop = [l for l in loops if not (cfg.reach_after({l.id}) & {x.id for x in loops} - {l.id})]
  after = set()
  for l in last_loop:
    body = {x.id for x in cfg.nodes if x.stmt is not None and
            any(x.stmt is y for b in l.stmt.body for y in ast.walk(b))}
    after |= cfg.reach_after({l.id}) - body
  late = sorted(x for x in writers if x in after and wn.id in cfg.reach_after({x}))
  run.ob(rule_id, fn.qualname, "%s complete before the doModifyColumn loop" % d,
         "every column update that reaches the metadata has first been applied to the schema",
         not late, witness=("written after the schema loop at L%d" % cfg.nodes[late[0]].lineno)
         if late else None, fi=fn.fi)
