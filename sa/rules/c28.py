"""C28 Upserts follow their specification -- structural clauses (DESIGN.md section 4, C28)."""
import ast
from ..fn import World
from ..index import AnalysisError, dotted
from ..astutil import text, short, endswith, calls_in, walk_no_nested
from ..dataflow import DefUse
from .. import events as E
from .. import types as T
from . import _h_B as H

EXPLANATION = (
  "Decides validate-before-mutate for BulkAddOrUpdateRecord (R1): the four argument checks of the "
  "statement exist as raising branches -- on_many outside {first, none, all} (validator covers "
  "every value the body later compares with), empty `require` without allow_empty_require (which "
  "defaults to False), value lists of unequal length over both `require` and `col_values`, and "
  "repeated `require` keys -- each of them dominates every call that changes the document "
  "(BulkAddRecord / BulkUpdateRecord and any other user-action or gateway call), and no `raise` is "
  "reachable after such a call; the options are read with the documented defaults; "
  "AddOrUpdateRecord wraps its single values into one-element lists and delegates with the "
  "caller's options. R2: the records an input row matches are looked up as the statement "
  "documents, `table.lookupRecords(**require)` on the action's own table -- the lookup call gets "
  "the per-row require values as its only filter and no ordering option other than the default "
  "(row id order), since `first` / `all` mean first / all in that order. R3: the record added "
  "when nothing matches carries the `require` values: a `require` column is left out of the added "
  "record only when it is a formula column whose metadata (or schema) formula text is non-empty "
  "-- a data column and an empty column (isFormula with blank formula; its Column object has a "
  "generated method too, so has_formula() does not tell it apart) are kept. Not decided: agreement "
  "of the adding / updating with the reference semantics (first/all/none selection, returned "
  "ids).")

ON_MANY = {"first", "none", "all"}                     # from the statement of C28
OPTION_DEFAULTS = {"update": True, "add": True, "on_many": "first", "allow_empty_require": False}


def check(run, repo, tier):
  w = World(repo)
  r1_validate_before_mutate(run, w)
  r2_documented_lookup(run, w)
  r3_added_record_has_require(run, w)
  r4_update_lists_in_step(run, w)


def _option_vars(fn, p_opts):
  """{local: (option key, default expr)} for `<local> = options.get('<key>', <default>)`."""
  out = {}
  for s in ast.walk(fn.node):
    if isinstance(s, ast.Assign) and len(s.targets) == 1 and isinstance(s.targets[0], ast.Name) and \
        isinstance(s.value, ast.Call) and isinstance(s.value.func, ast.Attribute) and \
        s.value.func.attr == "get" and H.is_var(fn, s.value.func.value, p_opts) and \
        len(s.value.args) == 2 and isinstance(s.value.args[0], ast.Constant):
      out[s.targets[0].id] = (s.value.args[0].value, s.value.args[1])
  return out


def _raising_sides(cfg, n):
  """Which branch(es) of the `if` node always leave by an explicit raise: subset of {True, False}."""
  out = set()
  t = set(cfg.if_true.get(n.id, ()))
  f = set(cfg.succ[n.id]) - t - set(cfg.if_exc.get(n.id, ()))
  for side, succs in ((True, t), (False, f)):
    if not succs:
      continue
    r = cfg.reach(succs)
    if any(cfg.nodes[x].kind == "raise_stmt" for x in r) and cfg.exit.id not in r and \
        n.id not in r:
      out.add(side)
  return out


def r1_validate_before_mutate(run, w):
  R1 = run.rule("C28-R1", "BulkAddOrUpdateRecord: the four argument checks are raising branches "
                "that dominate every mutating call; no raise is reachable after a mutating call",
                floor=10)
  # private helpers called as statements are read in place (an extracted validation block is
  # analysed as if it were still written here)
  fn = H.inlined_fn(w, "useractions.UserActions.BulkAddOrUpdateRecord")
  cfg = fn.cfg
  du = DefUse(fn)
  rd = H.ReachDefs(fn, du)
  ps = fn.fi.params()
  p_table, p_req, p_vals, p_opts = ps[1], ps[2], ps[3], ps[4]
  ua = set(w.useraction_methods())
  # mutating calls (directly, or inside a private helper of the class)
  def is_mut(c, nm, f):
    if nm and nm.startswith("self.") and nm.count(".") == 1 and nm.split(".")[1] in ua:
      return True
    return bool(H.is_gateway(w, c, nm, f) or (
      isinstance(c.func, ast.Attribute) and f.type_of(c.func.value) == T.DOCMODEL and
      c.func.attr in ("add", "insert", "insert_after", "update", "remove")) or
      (isinstance(c.func, ast.Attribute) and c.func.attr.startswith("doBulk")))
  M = H.may_nodes(w, fn, is_mut, depth=2)
  direct_names = {nm for (n, c, nm) in fn.calls() if is_mut(c, nm, fn)}
  def reaches_call(name):
    return bool(H.may_nodes(w, fn, lambda c, nm, f: nm == name, depth=2))
  if not (reaches_call("self.BulkAddRecord") and reaches_call("self.BulkUpdateRecord")):
    raise AnalysisError("BulkAddOrUpdateRecord: BulkAddRecord/BulkUpdateRecord calls not found")
  raises = {n.id for n in cfg.nodes if n.kind in ("raise_stmt", "assert")}
  late = cfg.reach_after(M) & raises
  wit = None
  if late:
    m = sorted(M)[0]
    wit = cfg.describe_path(cfg.path(m, late, after=True))
  run.ob(R1, fn.qualname, "no raise after %s" % ", ".join(sorted(x.split(".")[-1]
                                                                 for x in direct_names if x)),
         "every explicit rejection happens before the first change to the document", not late,
         witness=wit, fi=fn.fi,
         node=cfg.nodes[sorted(late)[0]].stmt if late else None)
  opts = _option_vars(fn, p_opts)
  byopt = {k: (v, d) for v, (k, d) in opts.items()}
  absent = [k for k in OPTION_DEFAULTS if k not in byopt]
  if absent:
    raise AnalysisError("BulkAddOrUpdateRecord: option(s) %s are not read by `<local> = "
                        "options.get(<key>, <default>)` in this function" % absent)
  for k, dflt in sorted(OPTION_DEFAULTS.items()):
    got = byopt.get(k)
    run.ob(R1, fn.qualname, "options.get(%r, %r)" % (k, dflt), "option %s is read with its "
           "documented default" % k, H.const_value(got[1]) == (True, dflt) and
           len(E.local_defs(fn.node, got[0])) == 1, fi=fn.fi, nontrivial=False)
  v_many = byopt["on_many"][0]
  v_allow = byopt["allow_empty_require"][0]
  is_name = lambda e, nm: H.is_var(fn, e, nm)
  if_nodes = [n for n in cfg.nodes if n.kind == "if"]
  all_atoms = [(n, a) for n in if_nodes for a in H.test_atoms(n.stmt.test)]
  entry = {cfg.entry.id}
  bad_targets = M | {cfg.exit.id}
  def rejected(val, test_node=None):
    """Under the valuation every path from the entry raises before any change (and never just
    returns). With test_node: no path from the entry gets to a change, and from the test on
    every path raises (an earlier return for arguments that need no change is fine)."""
    if test_node is None:
      return not (H.reach_assuming(cfg, entry, val) & bad_targets)
    return not (H.reach_assuming(cfg, entry, val) & M) and \
        not (H.reach_assuming(cfg, {test_node.id}, val) & bad_targets)
  recognised = set()
  checks = {}
  # (1) on_many
  def membership(e):
    """(admitted set, polarity of `in`) for `<on_many> in/not in <constant collection>`."""
    if isinstance(e, ast.Compare) and len(e.ops) == 1 and isinstance(e.ops[0], (ast.In, ast.NotIn)) \
        and is_name(e.left, v_many):
      coll = H.deref(fn, e.comparators[0])
      if isinstance(coll, (ast.Tuple, ast.List, ast.Set)) and \
          all(isinstance(x, ast.Constant) for x in coll.elts):
        return ({x.value for x in coll.elts}, isinstance(e.ops[0], ast.In))
    return None
  mem = [(n, a, membership(a)) for (n, a) in all_atoms if membership(a)]
  admitted = None
  if mem:
    recognised |= {id(a) for (n, a, m_) in mem}
    admitted = mem[0][2][0]
    val = lambda e: (not membership(e)[1]) if membership(e) else None
    checks["on_many"] = rejected(val) and all(m_[0] == admitted for (n, a, m_) in mem)
  ok = checks.get("on_many", False) and admitted == ON_MANY
  run.ob(R1, fn.qualname, "if on_many not in ('first', 'none', 'all'): raise",
         "an on_many value other than the three documented ones is rejected", ok, fi=fn.fi)
  used = set()
  for x in ast.walk(fn.node):
    if isinstance(x, ast.Compare) and is_name(x.left, v_many) and \
        len(x.ops) == 1 and isinstance(x.ops[0], (ast.Eq, ast.NotEq)) and \
        isinstance(x.comparators[0], ast.Constant):
      used.add(x.comparators[0].value)
  run.ob(R1, fn.qualname, "on_many compared with %s" % sorted(used),
         "every on_many value the body distinguishes is one the validator admits (and the "
         "default is admitted)", bool(used) and admitted is not None and
         used <= admitted and OPTION_DEFAULTS["on_many"] in admitted,
         fi=fn.fi)
  # (2) empty require: with `require` empty and the option off, nothing but a raise
  allow_atoms = [(n, a) for (n, a) in all_atoms if is_name(a, v_allow)]
  if allow_atoms:
    recognised |= {id(a) for (n, a) in allow_atoms}
    recognised |= {id(a) for (n, a) in all_atoms if is_name(a, p_req) and
                   any(n is n2 for (n2, a2) in allow_atoms)}
    val = lambda e: False if (is_name(e, p_req) or is_name(e, v_allow)) else None
    checks["empty"] = rejected(val) and not du.rebinders(p_req)
  run.ob(R1, fn.qualname, "if not require and not allow_empty_require: raise",
         "an empty `require` is rejected unless explicitly allowed (and on no other condition)",
         checks.get("empty", False), fi=fn.fi)
  # (3) equal lengths over both dicts
  from_req = lambda x: isinstance(x, ast.Name) and x.id == p_req
  from_vals = lambda x: isinstance(x, ast.Name) and x.id == p_vals
  is_len = lambda x: isinstance(x, ast.Call) and dotted(x.func) == "len"
  def length_test(e):
    """(uniq name, value of e that means 'lengths differ') for len(<uniq>) != 1 and spellings."""
    if isinstance(e, ast.Compare) and len(e.ops) == 1:
      l, r, op = e.left, e.comparators[0], e.ops[0]
      if is_len(r) and H.const_value(l) == (True, 1):
        l, r = r, l
        op = {ast.Lt: ast.Gt, ast.Gt: ast.Lt, ast.LtE: ast.GtE, ast.GtE: ast.LtE}.get(type(op),
                                                                                     type(op))()
      if is_len(l) and len(l.args) == 1 and isinstance(l.args[0], ast.Name) and \
          H.const_value(r) == (True, 1):
        if isinstance(op, (ast.NotEq, ast.Gt)):
          return (l.args[0], True)
        if isinstance(op, (ast.Eq, ast.LtE)):
          return (l.args[0], False)
    return None
  for (n, a) in all_atoms:
    lt = length_test(a)
    if not lt:
      continue
    uniq = lt[0]
    d = H.single_def(fn, uniq.id)
    is_set = isinstance(d, ast.Call) and dotted(d.func) == "set" and len(d.args) == 1
    both = du.flows_from(from_req, uniq) and du.flows_from(from_vals, uniq) and \
        du.flows_from(is_len, d if d is not None else uniq)
    if not (is_set and both):
      continue
    recognised.add(id(a))
    # the lengths are taken of each value list of each dict
    per_item = set()
    for nid in du.backward_slice([uniq]):
      for e in cfg.nodes[nid].exprs:
        for x in (ast.walk(e) if e is not None else ()):
          if isinstance(x, ast.DictComp) and len(x.generators) == 1 and is_len(x.value) and \
              isinstance(x.generators[0].iter, ast.Call) and \
              H.canon(fn, x.generators[0].iter) in (p_req + ".items()", p_vals + ".items()") and \
              not x.generators[0].ifs and isinstance(x.generators[0].target, ast.Tuple) and \
              text(x.value.args[0]) == text(x.generators[0].target.elts[1]):
            per_item.add(H.canon(fn, x.generators[0].iter))
    val = lambda e, a=a, lt=lt: lt[1] if e is a else None
    checks["lengths"] = len(per_item) == 2 and rejected(val, n)
  run.ob(R1, fn.qualname, "if len(set(<len of every list in require and col_values>)) != 1: raise",
         "value lists of different lengths, across both dictionaries, are rejected",
         checks.get("lengths", False), fi=fn.fi)
  # (4) unique require keys
  for (n, a) in all_atoms:
    if not (isinstance(a, ast.Compare) and len(a.ops) == 1 and
            isinstance(a.ops[0], (ast.Lt, ast.NotEq, ast.Gt, ast.GtE, ast.Eq)) and
            isinstance(a.left, ast.Name) and isinstance(a.comparators[0], ast.Name)):
      continue
    nu, ln, op = a.left, a.comparators[0], a.ops[0]
    if isinstance(op, ast.Gt):
      nu, ln, op = ln, nu, ast.Lt()
    dup_value = True
    if isinstance(op, (ast.GtE, ast.Eq)):
      dup_value = False           # num_unique >= length / == length means "no duplicates"
    d = H.single_def(fn, nu.id)
    counts_keys = isinstance(d, ast.Call) and dotted(d.func) == "len" and len(d.args) == 1 and \
        isinstance(d.args[0], ast.Call) and dotted(d.args[0].func) == "set" and \
        d.args[0].args and isinstance(d.args[0].args[0], ast.Call) and \
        dotted(d.args[0].args[0].func) == "zip" and du.flows_from(from_req, d)
    if not counts_keys:
      continue
    recognised.add(id(a))
    recognised |= {id(a2) for (n2, a2) in all_atoms if n2 is n and is_name(a2, p_req)}
    is_length = du.flows_from(is_len, ln) and du.flows_from(from_req, ln)
    val = lambda e, a=a, dv=dup_value: dv if e is a else (True if is_name(e, p_req) else None)
    checks["unique"] = is_length and rejected(val, n)
  run.ob(R1, fn.qualname, "if require and len(set(zip(*<require values>))) < length: raise",
         "repeated `require` keys are rejected", checks.get("unique", False), fi=fn.fi)
  missing = [k for k in ("on_many", "empty", "lengths", "unique") if k not in checks]
  unclassified = [n for n in if_nodes if _raising_sides(cfg, n) and
                  not any(id(a) in recognised for a in H.test_atoms(n.stmt.test))]
  if missing and unclassified:
    raise AnalysisError("BulkAddOrUpdateRecord: check(s) %s not recognised while %d raising "
                        "branch(es) could not be classified (e.g. `%s`)"
                        % (missing, len(unclassified), short(unclassified[0].stmt.test, 60)))
  # the single-record form
  one = w.fn("useractions.UserActions.AddOrUpdateRecord")
  odu = DefUse(one)
  ord_ = H.ReachDefs(one, odu)
  qs = one.fi.params()
  dele = [(n, c) for (n, c, nm) in one.calls() if nm == "self.BulkAddOrUpdateRecord"]
  ok = len(dele) == 1
  if ok:
    dn, dc = dele[0]
    try:
      dargs = [H.arg_of(dc, fn.fi, p) for p in ps[1:5]]
    except AnalysisError:
      dargs = [None]
    ok = all(a is not None for a in dargs) and H.canon(one, dargs[0]) == qs[1] and \
        H.canon(one, dargs[3]) == qs[4] and H.unrebound_at(one, odu, qs[4], dn.id) and \
        H.unrebound_at(one, odu, qs[1], dn.id)
    def wraps(arg, param):
      """arg is {k: [v] for k, v in <param as passed in>.items()}."""
      v, at = H.resolve(one, odu, ord_, arg, dn.id)
      if not (isinstance(v, ast.DictComp) and len(v.generators) == 1):
        return False
      g = v.generators[0]
      it = g.iter
      return isinstance(it, ast.Call) and isinstance(it.func, ast.Attribute) and \
          it.func.attr == "items" and not it.args and isinstance(it.func.value, ast.Name) and \
          it.func.value.id == param and ord_.reaching(param, at) == {H.ReachDefs.ENTRY} and \
          not g.ifs and isinstance(v.value, ast.List) and len(v.value.elts) == 1 and \
          isinstance(g.target, ast.Tuple) and len(g.target.elts) == 2 and \
          text(v.key) == text(g.target.elts[0]) and \
          text(v.value.elts[0]) == text(g.target.elts[1])
    ok = ok and wraps(dargs[1], qs[2]) and wraps(dargs[2], qs[3])
  run.ob(R1, one.qualname, "require = {k: [v]}; col_values = {k: [v]}; "
         "self.BulkAddOrUpdateRecord(table_id, require, col_values, options)",
         "the single-record form is the bulk form on one-element lists, with the caller's options "
         "(so it is validated the same way)", ok, fi=one.fi)
  other = [c for (n, c, nm) in one.calls() if nm and nm.startswith("self.") and
           nm.split(".")[1] in ua and nm != "self.BulkAddOrUpdateRecord"]
  run.ob(R1, one.qualname, "no other user action", "the single-record form changes the document "
         "only through the bulk form", not other and not H.gateway_sites(one), fi=one.fi,
         nontrivial=False)


LOOKUP_METHODS = ("lookup_records", "lookupRecords")
# Options of Table.lookup_records that are not column filters, with the value that means "as
# documented" (read from the defaults in table.py: kwargs.pop('sort_by', None) / ('order_by', 'id')).
LOOKUP_OPTIONS = ("sort_by", "order_by")


def _lookup_option_defaults(w):
  fn = w.fn("table.Table.lookup_records")
  out = {}
  for c in calls_in(fn.node.body):
    if isinstance(c.func, ast.Attribute) and c.func.attr == "pop" and len(c.args) == 2 and \
        isinstance(c.args[0], ast.Constant) and c.args[0].value in LOOKUP_OPTIONS and \
        isinstance(c.args[1], ast.Constant) and isinstance(c.func.value, ast.Name) and \
        c.func.value.id == (fn.node.args.kwarg.arg if fn.node.args.kwarg else None):
      out[c.args[0].value] = c.args[1].value
  if set(out) != set(LOOKUP_OPTIONS):
    raise AnalysisError("Table.lookup_records: sort_by / order_by defaults not recognised")
  return out


def r2_documented_lookup(run, w):
  R2 = run.rule("C28-R2", "BulkAddOrUpdateRecord looks matching records up as documented: "
                "lookup_records(**<require values of the row>) on the action's own table, in the "
                "default (row id) order", floor=2)
  defaults = _lookup_option_defaults(w)
  top = w.fn("useractions.UserActions.BulkAddOrUpdateRecord")
  p_table, p_req = top.fi.params()[1], top.fi.params()[2]
  found = []
  def scan(fn, depth, via):
    for (n, c, nm) in fn.calls():
      if isinstance(c.func, ast.Attribute) and c.func.attr in LOOKUP_METHODS and \
          fn.type_of(c.func.value) == T.TABLE:
        found.append((fn, n, c, via))
      elif depth > 0:
        fi = H.self_method(w, fn, c)
        if fi is not None and fi.qualname != fn.qualname and fi.name not in w.useraction_methods():
          scan(w.fn_of(fi), depth - 1, (fn, n, c))
  scan(top, 2, None)
  if not found:
    raise AnalysisError("BulkAddOrUpdateRecord: no <table>.lookup_records(...) call found")
  for (fn, n, c, via) in found:
    du = DefUse(fn)
    stars = [k.value for k in c.keywords if k.arg is None]
    explicit = [k for k in c.keywords if k.arg is not None]
    bad = []
    for k in explicit:
      if k.arg in defaults:
        if H.const_value(k.value) != (True, defaults[k.arg]):
          bad.append("%s=%s (documented order is %s=%r)" % (k.arg, short(k.value, 30), k.arg,
                                                           defaults[k.arg]))
      else:
        bad.append("extra filter %s=%s" % (k.arg, short(k.value, 30)))
    if c.args or any(isinstance(a, ast.Starred) for a in c.args):
      raise AnalysisError("BulkAddOrUpdateRecord: positional arguments in %s" % short(c))
    # the ** dictionaries: none of them is given an ordering option
    for sd in stars:
      d = H.deref(fn, sd)
      keys = []
      if isinstance(d, ast.Dict):
        keys = [k.value for k in d.keys if isinstance(k, ast.Constant)]
      if isinstance(sd, ast.Name):
        for x in walk_no_nested(fn.node):
          if isinstance(x, ast.Subscript) and isinstance(x.ctx, ast.Store) and \
              isinstance(x.value, ast.Name) and x.value.id == sd.id and \
              isinstance(x.slice, ast.Constant):
            keys.append(x.slice.value)
          if isinstance(x, ast.Call) and isinstance(x.func, ast.Attribute) and \
              x.func.attr in ("update", "setdefault") and isinstance(x.func.value, ast.Name) and \
              x.func.value.id == sd.id:
            keys += [k.arg for k in x.keywords if k.arg] + \
                [a.value for a in x.args if isinstance(a, ast.Constant)]
            for a in x.args:
              if isinstance(a, ast.Dict):
                keys += [k.value for k in a.keys if isinstance(k, ast.Constant)]
      bad += ["ordering option %r put into the lookup arguments" % k for k in keys
              if k in defaults]
    run.ob(R2, fn.qualname, short(c), "the lookup uses the documented default order (by row id) "
           "and no filter besides `require`: on_many='first' / 'all' mean first / all of "
           "table.lookupRecords(**require)", not bad, witness="; ".join(bad) or None, fi=fn.fi,
           node=c)
    if via is None:
      from_req = lambda x: isinstance(x, ast.Name) and x.id == p_req
      ok = len(stars) == 1 and du.flows_from(from_req, stars[0])
      recv = H.deref(fn, c.func.value)
      tbl_ok = isinstance(recv, ast.Subscript) and fn.type_of(recv.value) == "dict[table.Table]" \
          and isinstance(H.deref(fn, recv.slice), ast.Name) and \
          H.deref(fn, recv.slice).id == p_table and not du.rebinders(p_table)
      run.ob(R2, fn.qualname, "%s.%s(**<row of require>)" % (short(c.func.value, 30),
                                                           c.func.attr),
             "the records matched are those of the action's own table whose `require` columns "
             "have the row's values", ok and tbl_ok, fi=fn.fi, node=c)


# ------------------------------------------------------------------------------------------ R3
def r3_added_record_has_require(run, w):
  R3 = run.rule("C28-R3", "the record added for an unmatched row carries the `require` values of "
                "every column that can hold data (data columns and still-empty columns)", floor=1)
  fn = H.inlined_fn(w, "useractions.UserActions.BulkAddOrUpdateRecord")
  cfg = fn.cfg
  du = DefUse(fn)
  rd = H.ReachDefs(fn, du)
  ps = fn.fi.params()
  p_table, p_req = ps[1], ps[2]
  def over_require(it):
    it = H.expand(fn, it)
    if isinstance(it, ast.Call) and isinstance(it.func, ast.Attribute) and \
        it.func.attr in ("keys", "items") and not it.args:
      return H.is_var(fn, it.func.value, p_req) and it.func.attr
    if isinstance(it, ast.Call) and dotted(it.func) in ("sorted", "list", "set", "tuple") and \
        len(it.args) == 1:
      return over_require(it.args[0])
    return "keys" if H.is_var(fn, it, p_req) else False
  # collections of `require` keys: comprehensions (or accumulating loops) over require whose
  # element is the key itself
  comps = []
  for x in walk_no_nested(fn.node):
    if isinstance(x, (ast.SetComp, ast.ListComp, ast.GeneratorExp)) and len(x.generators) == 1:
      comps.append((x, None))
  for nm_ in list(du.muts):
    for m in cfg.nodes:
      if m.stmt is None or m.id in du.muts[nm_]:
        continue
      if any(isinstance(y, ast.Name) and y.id == nm_ and isinstance(y.ctx, ast.Load)
             for e_ in m.exprs if e_ is not None for y in ast.walk(e_)):
        c2 = H.loop_as_comprehension(fn, du, rd, nm_, m.id)
        if c2 is not None and not isinstance(c2, ast.DictComp):
          comps.append((c2, nm_))
          break
  keysets = []
  for (c, acc) in comps:
    g = c.generators[0]
    how = over_require(g.iter)
    if not how:
      continue
    kvar = g.target.elts[0] if how == "items" and isinstance(g.target, ast.Tuple) else g.target
    if not (isinstance(kvar, ast.Name) and text(c.elt) == kvar.id):
      continue
    keysets.append((c, kvar.id, acc))
  # ... that feed the values of BulkAddRecord
  adds = [c for (n, c, nm) in fn.calls() if nm == "self.BulkAddRecord"]
  if not adds:
    raise AnalysisError("BulkAddOrUpdateRecord: BulkAddRecord call not found")
  def feeds_add(c, acc):
    pred = (lambda x: x is c) if acc is None else \
        (lambda x: isinstance(x, ast.Name) and x.id == acc)
    return any(du.flows_from(pred, a) for call in adds
               for a in list(call.args) + [k.value for k in call.keywords])
  keysets = [(c, k, acc) for (c, k, acc) in keysets if feeds_add(c, acc)]
  if not keysets:
    raise AnalysisError("BulkAddOrUpdateRecord: the set of `require` columns written to added "
                        "records not recognised")
  def column_fact(kvar, empty):
    """Truth of an atom about the column named by loop variable kvar, for a data column
    (empty=False) or a still-empty column (empty=True: isFormula set, formula text blank)."""
    def is_key(e):
      return isinstance(e, ast.Name) and e.id == kvar
    def col_obj(e):
      e = H.expand(fn, e, pure_only=False, stop={kvar})
      if isinstance(e, ast.Call) and isinstance(e.func, ast.Attribute) and \
          e.func.attr == "get_column" and len(e.args) == 1 and is_key(e.args[0]) and \
          fn.type_of(e.func.value) == T.TABLE:
        return True
      return isinstance(e, ast.Subscript) and is_key(e.slice) and \
          isinstance(e.value, ast.Attribute) and e.value.attr == "all_columns"
    def col_rec(e):
      e = H.expand(fn, e, pure_only=False, stop={kvar})
      if isinstance(e, ast.Call) and isinstance(e.func, ast.Attribute) and \
          e.func.attr == "get_column_rec" and len(e.args) == 2 and is_key(e.args[1]) and \
          H.is_var(fn, e.args[0], p_table):
        return True
      return isinstance(e, ast.Subscript) and is_key(e.slice) and \
          isinstance(e.value, ast.Attribute) and e.value.attr == "columns" and \
          fn.type_of(e.value) == "SchemaColumns"
    def val(e):
      if isinstance(e, ast.Call) and isinstance(e.func, ast.Attribute) and not e.args and \
          col_obj(e.func.value):
        if e.func.attr == "is_formula":
          return empty
        if e.func.attr == "has_formula":
          # a method exists for every isFormula column, also with a blank formula (gencode
          # _make_field), and never decides for a data column (default formulas)
          return True if empty else None
      if isinstance(e, ast.Attribute) and col_rec(e.value):
        if e.attr == "formula":
          return False if empty else None
        if e.attr == "isFormula":
          return empty
      if isinstance(e, ast.Name):
        v = H.alias_value(fn, e.id, pure_only=False)
        if v is not None:
          return H.eval3(v, val)
      return None
    return val
  for (c, kvar, acc) in keysets:
    tests = c.generators[0].ifs
    for label, empty in (("a data column", False), ("a still-empty column", True)):
      vals = [H.eval3(t, column_fact(kvar, empty)) for t in tests]
      if any(v is None for v in vals):
        raise AnalysisError("BulkAddOrUpdateRecord: cannot tell whether %s named in `require` "
                            "passes the filter %s" % (label, short(tests[vals.index(None)], 80)))
      run.ob(R3, fn.qualname, "%s named in require is written to the added record"
             % label, "the added record satisfies `require` (else the same upsert adds another "
             "record next time): only formula columns with a non-empty formula are left out",
             all(vals), fi=fn.fi, node=c if acc is None else None,
             witness=None if all(vals) else "dropped by `%s`"
             % short(tests[[bool(v) for v in vals].index(False)], 90))


# ------------------------------------------------------------------------------------------ R4
def r4_update_lists_in_step(run, w):
  R4 = run.rule("C28-R4", "the row ids and the per-column values handed to BulkUpdateRecord grow "
                "together: one entry each per updated record", floor=1)
  fn = H.inlined_fn(w, "useractions.UserActions.BulkAddOrUpdateRecord")
  cfg = fn.cfg
  du = DefUse(fn)
  rd = H.ReachDefs(fn, du)
  p_vals = fn.fi.params()[3]
  ups = [H.norm(w, fn, c) for (n, c, nm) in fn.calls() if nm == "self.BulkUpdateRecord"]
  if len(ups) != 1 or len(ups[0].args) != 3 or \
      not all(isinstance(a, ast.Name) for a in ups[0].args[1:]):
    raise AnalysisError("BulkAddOrUpdateRecord: self.BulkUpdateRecord(table, <ids>, <values>) "
                        "with two locals not found")
  ids, vals = ups[0].args[1].id, ups[0].args[2].id
  def grow(name, subscripted):
    out = []
    for (n, c, nm) in fn.calls():
      f = c.func
      if isinstance(f, ast.Attribute) and f.attr in ("append", "extend", "insert") and \
          len(c.args) >= 1:
        recv = f.value
        if subscripted and isinstance(recv, ast.Subscript):
          recv = recv.value
        elif subscripted != isinstance(f.value, ast.Subscript):
          continue
        if isinstance(recv, ast.Name) and recv.id == name:
          out.append((n, c))
    return out
  gi, gv = grow(ids, False), grow(vals, True)
  if len(gi) != 1 or len(gv) != 1:
    raise AnalysisError("BulkAddOrUpdateRecord: expected one place where %s grows and one where "
                        "the lists of %s grow" % (ids, vals))
  (ni, ci), (nv, cv) = gi[0], gv[0]
  def loops_of(n):
    from ..astutil import enclosing_chain
    return [s_ for (s_, f_) in enclosing_chain(fn.node, n.stmt)
            if isinstance(s_, (ast.For, ast.While))]
  over_columns = lambda lp: isinstance(lp, ast.For) and any(
    isinstance(x, ast.Name) and x.id in (p_vals, vals) for x in ast.walk(lp.iter))
  li = loops_of(ni)
  lv = [l for l in loops_of(nv) if not over_columns(l)]
  kind = (ci.func.attr, cv.func.attr)
  if kind == ("append", "append"):
    ok = [id(x) for x in li] == [id(x) for x in lv]
    wit = None if ok else "the id and the values are appended in different loops"
  elif kind == ("extend", "extend"):
    # ids.extend(<list L>) / values[k].extend([v] * <count>): the count is the length of the very
    # list the ids come from (same binding of it)
    tl = cv.args[0]
    cnt = None
    if isinstance(tl, ast.BinOp) and isinstance(tl.op, ast.Mult):
      cnt = tl.right if isinstance(tl.left, ast.List) else tl.left
    src, at_src = H.resolve(fn, du, rd, ci.args[0], ni.id)
    base = None
    if isinstance(src, (ast.ListComp, ast.GeneratorExp)) and len(src.generators) == 1 and \
        not src.generators[0].ifs and isinstance(src.generators[0].iter, ast.Name):
      base = (src.generators[0].iter.id, at_src)
    elif isinstance(ci.args[0], ast.Name):
      base = (ci.args[0].id, ni.id)
    cv_, at_c = H.resolve(fn, du, rd, cnt, nv.id) if cnt is not None else (None, None)
    if base is None or not (isinstance(cv_, ast.Call) and dotted(cv_.func) == "len" and
                            len(cv_.args) == 1 and isinstance(cv_.args[0], ast.Name)):
      raise AnalysisError("BulkAddOrUpdateRecord: cannot relate the number of values added per "
                          "column to the ids added")
    same = cv_.args[0].id == base[0] and \
        rd.reaching(base[0], at_c) == rd.reaching(base[0], base[1])
    ok = same and [id(x) for x in li] == [id(x) for x in lv]
    wit = None if ok else "the count %s is not the length of the list the ids are taken from " \
        "(as it is when they are added)" % short(cnt, 40)
  else:
    raise AnalysisError("BulkAddOrUpdateRecord: ids grow by %s, values by %s; cannot compare"
                        % kind)
  run.ob(R4, fn.qualname, "%s / %s[...] grow together" % (ids, vals),
         "each updated record contributes exactly one row id and one value per column, so the "
         "bulk update pairs every id with its own values", ok, witness=wit, fi=fn.fi, node=ci)


U = "sandbox/grist/useractions.py"
VARIANTS = [
  ("on-many-not-validated", U,
   "    if on_many not in (\"first\", \"none\", \"all\"):\n      raise ValueError(\"on_many should be 'first', 'none', or 'all', not %r\" % on_many)\n",
   "", "C28-R1"),
  ("on-many-all-rejected", U,
   "    if on_many not in (\"first\", \"none\", \"all\"):", "    if on_many not in (\"first\", \"none\"):",
   "C28-R1"),
  ("empty-require-allowed-by-default", U,
   "    allow_empty_require = options.get(\"allow_empty_require\", False)",
   "    allow_empty_require = options.get(\"allow_empty_require\", True)", "C28-R1"),
  ("empty-require-check-needs-col-values", U,
   "    if not require and not allow_empty_require:\n      raise",
   "    if not require and not allow_empty_require and col_values:\n      raise", "C28-R1"),
  ("lengths-of-col-values-unchecked", U,
   "    lengths.update({'col_values ' + k:\n                      len(v) for k, v in col_values.items()})\n",
   "", "C28-R1"),
  ("duplicate-require-keys-accepted", U,
   "    if require and num_unique_keys < length:\n      raise ValueError(\"require values must be unique\")\n",
   "", "C28-R1"),
  ("late-validation-after-update", U,
   "      self.BulkUpdateRecord(table_id, update_record_ids, update_record_values)\n\n    return result",
   "      self.BulkUpdateRecord(table_id, update_record_ids, update_record_values)\n\n    if not add and not update:\n      raise ValueError(\"nothing to do: both add and update are disabled\")\n    return result",
   "C28-R1"),
  ("update-disabled-by-default", U,
   "    update = options.get(\"update\", True)", "    update = options.get(\"update\", False)",
   "C28-R1"),
  ("single-form-ignores-options", U,
   "    result = self.BulkAddOrUpdateRecord(table_id, require, col_values, options)",
   "    result = self.BulkAddOrUpdateRecord(table_id, require, col_values, {})", "C28-R1"),
  ("lookup-in-manual-order", U,
   "      records = list(table.lookup_records(**current_require))",
   "      records = list(table.lookup_records(order_by=None, **current_require))", "C28-R2"),
  ("lookup-newest-first", U,
   "      records = list(table.lookup_records(**current_require))",
   "      current_require['order_by'] = '-id'\n      records = list(table.lookup_records(**current_require))",
   "C28-R2"),
  ("lookup-in-wrong-table", U,
   "      records = list(table.lookup_records(**current_require))",
   "      records = list(self._engine.tables['_grist_Tables'].lookup_records(**current_require))",
   "C28-R2"),
  ("empty-columns-left-out-of-added-records", U,
   "          self._engine.docmodel.get_column_rec(table_id, key).formula\n      )\n    }",
   "          table.get_column(key).has_formula()\n      )\n    }", "C28-R3"),
  ("all-formula-flagged-columns-left-out-of-added-records", U,
   "          table.get_column(key).is_formula() and\n          # Check that there actually is a formula and this isn't just an empty column\n          self._engine.docmodel.get_column_rec(table_id, key).formula\n      )",
   "          table.get_column(key).is_formula()\n      )", "C28-R3"),
  ("update-values-counted-before-first-truncation", U,
   """        if len(records) > 1:
          if on_many == "first":
            records = records[:1]
          elif on_many == "none":
            continue

        for record in records:
          update_record_ids.append(record.id)
          for key, vals in col_values.items():
            update_record_values[key].append(vals[i])

        matched_record_ids = [record.id for record in records]
""",
   """        num_matched = len(records)
        if num_matched > 1:
          if on_many == "first":
            records = records[:1]
          elif on_many == "none":
            continue

        matched_record_ids = [record.id for record in records]
        update_record_ids.extend(matched_record_ids)
        for key, vals in col_values.items():
          update_record_values[key].extend([vals[i]] * num_matched)

""", "C28-R4"),
  ("on-many-last-unvalidated", U,
   "          if on_many == \"first\":\n            records = records[:1]\n          elif on_many == \"none\":",
   "          if on_many == \"first\":\n            records = records[:1]\n          elif on_many == \"last\":\n            records = records[-1:]\n          elif on_many == \"none\":",
   "C28-R1"),
]
