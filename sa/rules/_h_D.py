"""
Shared helpers for the rule modules C16, C17, C21, C33, C35, C36, C38.

Pure syntax over `ast` plus the standard library's own `re._parser`; nothing from the repository
is imported or executed here.

  ntext / target_map        alpha-normalised text of an expression (loop variables -> positions)
  ConstEval                 evaluator for module-level *constant* expressions (literals, % and +
                            on strings, tuples/lists/dicts/sets, dict(zip(..)), re.compile(..))
  CharSet + regex helpers   code-point sets; `re._parser` trees -> char sets, group tables
  RenameSite                the "rename funnel" analysis shared by C16 and C17
"""
import ast
import copy
import re
try:                                    # Python 3.11+
  import re._parser as sre_parse
  import re._constants as sre_c
except ImportError:                     # pragma: no cover
  import sre_parse
  import sre_constants as sre_c

from ..index import AnalysisError, dotted
from ..astutil import text, short, endswith, calls_in, walk_no_nested, enclosing_chain
from ..dataflow import DefUse
from .. import events as E


# ======================================================================== alpha-normalised text

class _Renamer(ast.NodeTransformer):
  def __init__(self, mapping):
    self.mapping = mapping

  def visit_Name(self, node):
    if node.id in self.mapping:
      return ast.copy_location(ast.Name(id=self.mapping[node.id], ctx=node.ctx), node)
    return node


def ntext(node, mapping):
  """ast.unparse of `node` with the names of `mapping` replaced (positional placeholders)."""
  if node is None:
    return None
  return text(_Renamer(mapping).visit(copy.deepcopy(node)))


def target_map(target, prefix="_v"):
  """{name: placeholder} for the names bound by a for/comprehension target, by position."""
  out = {}
  def go(t, path):
    if isinstance(t, ast.Name):
      out[t.id] = prefix + "_".join(str(i) for i in path)
    elif isinstance(t, (ast.Tuple, ast.List)):
      for i, e in enumerate(t.elts):
        go(e, path + [i])
    else:
      raise AnalysisError("loop target outside the supported subset: %s" % text(t))
  go(target, [0])
  return out


def enclosing_ifs_within(fnode, stmt, loop):
  """Tests of the `if` statements that enclose `stmt` inside `loop` (all must be if-bodies)."""
  chain = enclosing_chain(fnode, stmt)
  idx = None
  for i, (s, fld) in enumerate(chain):
    if s is loop:
      idx = i
  if idx is None:
    raise AnalysisError("statement is not inside the expected loop")
  tests = []
  for (s, fld) in chain[idx + 1:]:
    if isinstance(s, ast.If) and fld == "body":
      tests.append(s.test)
    elif isinstance(s, ast.With):
      continue
    else:
      raise AnalysisError("emission sits under an unsupported construct (%s/%s)"
                          % (s.__class__.__name__, fld))
  return tests


def innermost_loop(fnode, stmt):
  chain = enclosing_chain(fnode, stmt)
  loops = [s for (s, fld) in chain if isinstance(s, ast.For) and fld == "body"]
  return loops[-1] if loops else None


def stmt_of(fnode, node):
  """The innermost statement of fnode that contains ast node `node`."""
  best = None
  for s in ast.walk(fnode):
    if isinstance(s, ast.stmt) and s is not fnode:
      for x in ast.walk(s):
        if x is node:
          if best is None or any(y is s for y in ast.walk(best)):
            best = s
          break
  if best is None:
    raise AnalysisError("node not found in function")
  return best


# ======================================================================== constant evaluation

class Regex(object):
  def __init__(self, pattern, flags):
    self.pattern = pattern
    self.flags = flags

  def __repr__(self):
    return "Regex(%r, %d)" % (self.pattern, self.flags)


_RE_FLAGS = {"I": re.I, "IGNORECASE": re.I, "M": re.M, "MULTILINE": re.M, "S": re.S,
             "DOTALL": re.S, "X": re.X, "VERBOSE": re.X, "A": re.A, "ASCII": re.A,
             "U": re.U, "UNICODE": re.U}

_LIB_CONSTS = {
  # names of the standard library the analysed modules import as constants
  ("string", "ascii_uppercase"): "ABCDEFGHIJKLMNOPQRSTUVWXYZ",
  ("string", "ascii_lowercase"): "abcdefghijklmnopqrstuvwxyz",
  ("string", "digits"): "0123456789",
}


class ConstEval(object):
  """Evaluates module-level constant expressions of one module, never calling repository code.
  Anything outside the subset raises AnalysisError."""
  def __init__(self, module):
    self.module = module
    self._cache = {}
    self._busy = set()
    # names assigned more than once at module level are not constants
    counts = {}
    mutated = set()
    for node in module.tree.body:
      for n in ast.walk(node) if not isinstance(node, (ast.FunctionDef, ast.ClassDef)) else []:
        if isinstance(n, ast.Name) and isinstance(n.ctx, ast.Store):
          counts[n.id] = counts.get(n.id, 0) + 1
        elif isinstance(n, (ast.Subscript, ast.Attribute)) and \
            isinstance(n.ctx, (ast.Store, ast.Del)) and isinstance(n.value, ast.Name):
          mutated.add(n.value.id)
        elif isinstance(n, ast.Expr) and isinstance(n.value, ast.Call) and \
            isinstance(n.value.func, ast.Attribute) and isinstance(n.value.func.value, ast.Name):
          mutated.add(n.value.func.value.id)      # X.update(...), X.append(...) at module level
    self.counts = counts
    self.mutated = mutated

  def name(self, ident):
    if ident in self._cache:
      return self._cache[ident]
    if ident in self._busy:
      raise AnalysisError("%s.%s: cyclic constant" % (self.module.name, ident))
    imp = self.module.imports.get(ident)
    if imp is not None and imp[0] == "name" and (imp[1], imp[2]) in _LIB_CONSTS:
      return _LIB_CONSTS[(imp[1], imp[2])]
    node = self.module.assigns.get(ident)
    if node is None:
      raise AnalysisError("%s.%s: not a module-level constant" % (self.module.name, ident))
    if self.counts.get(ident, 0) != 1:
      raise AnalysisError("%s.%s is assigned %d times at module level; not a constant"
                          % (self.module.name, ident, self.counts.get(ident, 0)))
    if ident in self.mutated:
      raise AnalysisError("%s.%s is filled in place at module level; not a constant"
                          % (self.module.name, ident))
    self._busy.add(ident)
    try:
      v = self.ev(node)
    finally:
      self._busy.discard(ident)
    self._cache[ident] = v
    return v

  def ev(self, n):
    if isinstance(n, ast.Constant):
      return n.value
    if isinstance(n, ast.Name):
      return self.name(n.id)
    if isinstance(n, ast.Tuple):
      return tuple(self.ev(e) for e in n.elts)
    if isinstance(n, ast.List):
      return [self.ev(e) for e in n.elts]
    if isinstance(n, ast.Set):
      return set(self.ev(e) for e in n.elts)
    if isinstance(n, ast.Dict):
      if any(k is None for k in n.keys):
        raise AnalysisError("dict unpacking in a constant: %s" % short(n))
      keys = [self.ev(k) for k in n.keys]
      if len(set(map(repr, keys))) != len(keys):
        raise AnalysisError("duplicate keys in constant dict: %s" % short(n))
      return OrderedPairs([(k, self.ev(v)) for k, v in zip(keys, n.values)])
    if isinstance(n, ast.UnaryOp) and isinstance(n.op, ast.USub):
      v = self.ev(n.operand)
      if isinstance(v, (int, float)):
        return -v
    if isinstance(n, ast.BinOp):
      if isinstance(n.op, ast.Mod):
        l, r = self.ev(n.left), self.ev(n.right)
        if isinstance(l, str) and isinstance(r, (tuple, str, int)):
          return l % r
      if isinstance(n.op, ast.Add):
        l, r = self.ev(n.left), self.ev(n.right)
        if type(l) is type(r) and isinstance(l, (str, tuple, list)):
          return l + r
      if isinstance(n.op, ast.BitOr):
        l, r = self.ev(n.left), self.ev(n.right)
        if isinstance(l, int) and isinstance(r, int):
          return l | r
    if isinstance(n, ast.Attribute):
      d = dotted(n)
      if d is not None:
        head, _, tail = d.partition(".")
        imp = self.module.imports.get(head)
        if imp == ("module", "re") and tail in _RE_FLAGS:
          return int(_RE_FLAGS[tail])
        if imp is not None and imp[0] == "module" and (imp[1], tail) in _LIB_CONSTS:
          return _LIB_CONSTS[(imp[1], tail)]
    if isinstance(n, ast.Call) and not n.keywords:
      d = dotted(n.func)
      if d == "set" and len(n.args) == 1:
        return set(self.ev(n.args[0]))
      if d == "tuple" and len(n.args) == 1:
        return tuple(self.ev(n.args[0]))
      if d == "float" and len(n.args) == 1 and isinstance(n.args[0], ast.Constant) and \
          n.args[0].value in ("inf", "-inf"):
        return float(n.args[0].value)
      pass
    if isinstance(n, ast.Call) and not n.args and n.keywords and dotted(n.func) == "dict" and \
        all(k.arg is not None for k in n.keywords):
      return OrderedPairs([(k.arg, self.ev(k.value)) for k in n.keywords])
    if isinstance(n, ast.Call) and not n.keywords:
      d = dotted(n.func)
      if d == "dict" and len(n.args) == 1 and isinstance(n.args[0], ast.Call) and \
          dotted(n.args[0].func) == "zip" and len(n.args[0].args) == 2:
        a, b = (self.ev(x) for x in n.args[0].args)
        return ZipDict(list(a), list(b))
      if d is not None and d.split(".")[-1] == "compile" and \
          self.module.imports.get(d.split(".")[0]) == ("module", "re") and 1 <= len(n.args) <= 2:
        pat = self.ev(n.args[0])
        flags = self.ev(n.args[1]) if len(n.args) == 2 else 0
        if isinstance(pat, str) and isinstance(flags, int):
          return Regex(pat, flags)
    raise AnalysisError("%s: expression outside the constant subset: %s"
                        % (self.module.name, short(n)))


class OrderedPairs(list):
  """A constant dict as an ordered list of (key, value) pairs."""
  def keys(self):
    return [k for k, _ in self]

  def values(self):
    return [v for _, v in self]

  def get(self, key, default=None):
    for k, v in self:
      if k == key and type(k) is type(key):
        return v
    return default


class ZipDict(object):
  """dict(zip(a, b)) kept unevaluated so that length agreement can be an obligation."""
  def __init__(self, a, b):
    self.a = a
    self.b = b

  def pairs(self):
    return OrderedPairs(list(zip(self.a, self.b)))


# ======================================================================== char sets and regexes

MAXCP = 0x10FFFF


class CharSet(object):
  """A set of code points as sorted disjoint closed intervals."""
  __slots__ = ("iv",)

  def __init__(self, intervals=()):
    ivs = sorted((lo, hi) for (lo, hi) in intervals if lo <= hi)
    out = []
    for lo, hi in ivs:
      lo, hi = max(lo, 0), min(hi, MAXCP)
      if out and lo <= out[-1][1] + 1:
        out[-1] = (out[-1][0], max(out[-1][1], hi))
      else:
        out.append((lo, hi))
    self.iv = tuple(out)

  @classmethod
  def of(cls, chars):
    return cls([(ord(c), ord(c)) for c in chars])

  @classmethod
  def rng(cls, a, b):
    return cls([(ord(a), ord(b))])

  @classmethod
  def all(cls):
    return cls([(0, MAXCP)])

  def union(self, o):
    return CharSet(self.iv + o.iv)

  def complement(self):
    out, cur = [], 0
    for lo, hi in self.iv:
      if lo > cur:
        out.append((cur, lo - 1))
      cur = hi + 1
    if cur <= MAXCP:
      out.append((cur, MAXCP))
    return CharSet(out)

  def intersect(self, o):
    return self.complement().union(o.complement()).complement()

  def minus(self, o):
    return self.intersect(o.complement())

  def subset_of(self, o):
    return not self.minus(o).iv

  def empty(self):
    return not self.iv

  def disjoint(self, o):
    return self.intersect(o).empty()

  def contains(self, ch):
    c = ord(ch)
    return any(lo <= c <= hi for lo, hi in self.iv)

  def size(self):
    return sum(hi - lo + 1 for lo, hi in self.iv)

  def chars(self, limit=200):
    """The members, when there are at most `limit` of them, else None."""
    if self.size() > limit:
      return None
    return [chr(c) for lo, hi in self.iv for c in range(lo, hi + 1)]

  def __eq__(self, o):
    return isinstance(o, CharSet) and self.iv == o.iv

  def __hash__(self):
    return hash(self.iv)

  def __repr__(self):
    def one(c):
      ch = chr(c)
      return ch if 32 < c < 127 else "\\u%04x" % c
    parts = []
    for lo, hi in self.iv[:8]:
      parts.append(one(lo) if lo == hi else "%s-%s" % (one(lo), one(hi)))
    if len(self.iv) > 8:
      parts.append("...")
    return "[" + "".join(parts) + "]"


LOWER = CharSet.rng("a", "z")
UPPER = CharSet.rng("A", "Z")
DIGIT = CharSet.rng("0", "9")
UNDERSCORE = CharSet.of("_")
LETTERS = LOWER.union(UPPER)
IDENT_CHARS = LETTERS.union(DIGIT).union(UNDERSCORE)
ASCII = CharSet([(0, 127)])

_CATEGORY_CACHE = {}


def _category_set(cat, flags):
  """Code points of a regex category for str patterns (Unicode unless re.A)."""
  key = (str(cat), bool(flags & re.A))
  if key in _CATEGORY_CACHE:
    return _CATEGORY_CACHE[key]
  name = str(cat)
  neg = "NOT_" in name
  base = name.replace("NOT_", "")
  if flags & re.A:
    table = {"CATEGORY_DIGIT": DIGIT, "CATEGORY_WORD": IDENT_CHARS,
             "CATEGORY_SPACE": CharSet.of(" \t\n\r\f\v")}
    if base not in table:
      raise AnalysisError("regex category outside the supported subset: %s" % name)
    s = table[base]
  else:
    if base == "CATEGORY_DIGIT":
      pred = str.isdecimal
    elif base == "CATEGORY_SPACE":
      pred = str.isspace
    elif base == "CATEGORY_WORD":
      pred = lambda ch: ch.isalnum() or ch == "_"
    else:
      raise AnalysisError("regex category outside the supported subset: %s" % name)
    ivs, start = [], None
    for c in range(MAXCP + 1):
      if pred(chr(c)):
        if start is None:
          start = c
      elif start is not None:
        ivs.append((start, c - 1))
        start = None
    if start is not None:
      ivs.append((start, MAXCP))
    s = CharSet(ivs)
  if neg:
    s = s.complement()
  _CATEGORY_CACHE[key] = s
  return s


def _fold_case(s, flags):
  if not (flags & re.I):
    return s
  # ASCII letters fold onto each other; a set reaching beyond ASCII letters under IGNORECASE has
  # Unicode folding rules this analysis does not model
  extra = s.intersect(LOWER)
  up = CharSet([(lo - 32, hi - 32) for lo, hi in extra.iv])
  extra2 = s.intersect(UPPER)
  low = CharSet([(lo + 32, hi + 32) for lo, hi in extra2.iv])
  return s.union(up).union(low)


def parse_regex(rx):
  """re._parser tree of a Regex constant."""
  try:
    return sre_parse.parse(rx.pattern, rx.flags)
  except re.error as e:
    raise AnalysisError("regex does not parse: %r (%s)" % (rx.pattern, e))


def item_charset(item, flags):
  """CharSet matched by a one-character regex item (LITERAL / NOT_LITERAL / IN / ANY /
  CATEGORY), or None when the item is not a one-character item."""
  op, av = item
  if op is sre_c.LITERAL:
    return _fold_case(CharSet([(av, av)]), flags)
  if op is sre_c.NOT_LITERAL:
    return _fold_case(CharSet([(av, av)]), flags).complement()
  if op is sre_c.ANY:
    return CharSet.all() if flags & re.S else CharSet.of("\n").complement()
  if op is sre_c.CATEGORY:
    return _category_set(av, flags)
  if op is sre_c.IN:
    neg = False
    acc = CharSet()
    for (o, a) in av:
      if o is sre_c.NEGATE:
        neg = True
      elif o is sre_c.LITERAL:
        acc = acc.union(CharSet([(a, a)]))
      elif o is sre_c.RANGE:
        acc = acc.union(CharSet([(a[0], a[1])]))
      elif o is sre_c.CATEGORY:
        acc = acc.union(_category_set(a, flags))
      else:
        raise AnalysisError("regex class item outside the supported subset: %s" % (o,))
    acc = _fold_case(acc, flags)
    return acc.complement() if neg else acc
  return None


class GroupInfo(object):
  """One capturing group of a regex.
    parent        enclosing capturing group (None at top level)
    mandatory     takes part in every match of its parent (no alternation, optional repeat or
                  look-around between the two)
    branch_path   the alternations between parent and group: ((branch id, arm index, arms), ...)
    branch_certain  the outermost of those alternations itself takes part in every match of the
                  parent
    arm_mandatory within its innermost arm the group is unconditional
  """
  def __init__(self, gid, name, parent, mandatory, body, branch_path, branch_certain,
               arm_mandatory):
    self.gid = gid
    self.name = name
    self.parent = parent
    self.mandatory = mandatory
    self.body = body
    self.branch_path = branch_path
    self.branch_certain = branch_certain
    self.arm_mandatory = arm_mandatory


def regex_groups(rx):
  """{group name (or number for unnamed groups): GroupInfo} for every capturing group."""
  tree = parse_regex(rx)
  names = {gid: nm for nm, gid in tree.state.groupdict.items()}
  out = {}

  def walk(sub, parent, mand, path, bcertain, armmand):
    # mand: unconditional since parent; armmand: unconditional since the innermost arm
    for (op, av) in sub:
      if op is sre_c.SUBPATTERN:
        gid, add_flags, del_flags, body = av
        if gid is None:
          walk(body, parent, mand, path, bcertain, armmand)
        else:
          nm = names.get(gid)
          gi = GroupInfo(gid, nm, parent, mand, body, path, bcertain, armmand)
          out[nm if nm is not None else gid] = gi
          walk(body, gi, True, (), True, True)
      elif op is sre_c.BRANCH:
        for i, alt in enumerate(av[1]):
          walk(alt, parent, False, path + ((id(av), i, len(av[1])),),
               bcertain if path else mand, True)
      elif op in (sre_c.MAX_REPEAT, sre_c.MIN_REPEAT) or str(op) == "POSSESSIVE_REPEAT":
        lo, hi, body = av
        walk(body, parent, mand and lo >= 1, path, bcertain, armmand and lo >= 1)
      elif op in (sre_c.ASSERT, sre_c.ASSERT_NOT):
        walk(av[1], parent, False, path, bcertain, False)
      elif str(op) == "ATOMIC_GROUP":
        walk(av, parent, mand, path, bcertain, armmand)
      elif op is sre_c.GROUPREF_EXISTS:
        raise AnalysisError("conditional regex groups are outside the supported subset")
  walk(tree, None, True, (), True, True)
  return out


def body_is_digits(body, flags):
  """True when a group body can only match one or more ASCII/Unicode decimal digits: a
  sequence of (possibly repeated) one-character items each within \\d, total min width >= 1."""
  digits = _category_set(sre_c.CATEGORY_DIGIT, flags)
  minw = 0
  for item in body:
    op, av = item
    if op in (sre_c.MAX_REPEAT, sre_c.MIN_REPEAT):
      lo, hi, sub = av
      if len(sub) != 1:
        return False
      cs = item_charset(sub[0], flags)
      if cs is None or not cs.subset_of(digits):
        return False
      minw += lo
    else:
      cs = item_charset(item, flags)
      if cs is None or not cs.subset_of(digits):
        return False
      minw += 1
  return minw >= 1


def body_min_width(body):
  try:
    return body.getwidth()[0]
  except Exception:
    raise AnalysisError("cannot compute the width of a regex group")


# ======================================================================== rename funnel (C16/C17)

def rename_constructions(world, names):
  """[(Fn, call)] for every construction actions.<name>(...) / <name>(...) of the given action
  types anywhere in the engine (not in nested defs of other functions twice)."""
  out = []
  for fi in world.repo.all_functions():
    fn = world.fn_of(fi)
    for s in fi.node.body:
      for n in walk_no_nested(s):
        if isinstance(n, ast.Call):
          d = dotted(n.func)
          if d is not None and d.split(".")[-1] in names and \
              (d in names or d == "actions." + d.split(".")[-1]):
            out.append((fn, n))
  return out


def override_methods(world):
  """{(action, table_id): FuncInfo} from @override_action(<action>, <table>) on UserActions
  methods; the decorator's arguments are read by parameter name (positional or keyword)."""
  ci = world.repo.cls("useractions.UserActions")
  deco = world.repo.module("useractions").functions.get("override_action")
  names = deco.params() if deco is not None else ["action_name", "table_id"]
  out = {}
  for n, f in ci.methods.items():
    for d in f.decorators():
      if isinstance(d, ast.Call) and dotted(d.func) == "override_action":
        b = bind_args(d, names)
        if b and len(b) == 2 and all(isinstance(b[k], ast.Constant) for k in names[:2]):
          out[(b[names[0]].value, b[names[1]].value)] = f
  return out


_ROLE_CACHE = {}


def _pick(cands, hint, what):
  uniq = []
  for f in cands:
    if not any(f is g for g in uniq):
      uniq.append(f)
  named = [f for f in uniq if f.name == hint]
  if named:
    return named[0]
  if len(uniq) == 1:
    return uniq[0]
  raise AnalysisError("%s was not found (hint: %s; %d candidates)" % (what, hint, len(uniq)))


def role_anchors(world):
  """Private helpers of useractions the rules anchor on, found by what they do (the names are
  hints only), so that a renamed helper is followed:
    formula_renamer   iterates <gencode>.grist_names() (today: _prepare_formula_renames)
    pick_col_name     calls identifiers.pick_col_ident (today: _pick_col_name)
    adjust_one        hands one of its own parameters to pick_col_name as the extra avoid set
                      (today: _adjust_one_column_update)"""
  key = id(world)
  if key in _ROLE_CACHE:
    return _ROLE_CACHE[key][0]
  ua = world.repo.cls("useractions.UserActions")
  mod = world.repo.module("useractions")
  funcs = list(ua.methods.values()) + list(mod.functions.values())

  def loops_over_names(fi):
    return any(isinstance(s, ast.For) and isinstance(s.iter, ast.Call) and
               isinstance(s.iter.func, ast.Attribute) and s.iter.func.attr == "grist_names"
               for s in walk_no_nested(fi.node))

  out = {}
  out["formula_renamer"] = _pick([f for f in funcs if loops_over_names(f)],
                                 "_prepare_formula_renames",
                                 "useractions: the function that patches formulas for a rename")
  out["pick_col_name"] = _pick(
    [f for f in funcs if any(endswith(dotted(c.func), "identifiers.pick_col_ident")
                             for c in calls_in(f.node.body))], "_pick_col_name",
    "useractions: the function that picks a column id")
  pcn = out["pick_col_name"]
  pps = pcn.params()

  def hands_on_avoid(fi):
    for c in calls_in(fi.node.body):
      f = c.func
      nm = f.attr if isinstance(f, ast.Attribute) else (f.id if isinstance(f, ast.Name) else None)
      if nm != pcn.name:
        continue
      b = bind_args(c, pps[1:] if pps and pps[0] in ("self", "cls") else pps)
      extra = (b or {}).get(pps[-1]) if pps else None
      if isinstance(extra, ast.Name) and extra.id in fi.params():
        return True
    return False

  out["adjust_one"] = _pick([f for f in funcs if f is not pcn and hands_on_avoid(f)],
                            "_adjust_one_column_update",
                            "useractions: the function that adjusts one column update")
  _ROLE_CACHE[key] = (out, world)
  return out


HARMLESS, HARMFUL, UNKNOWN = "harmless", "harmful", "unknown"


class RenameSite(object):
  """
  One function that hands RenameColumn / RenameTable actions to the gateway, analysed by role:

    emits      [(cfg node id, gateway call, ctor call, action name)]
    preps      [(cfg node id, call)] calls of self._prepare_formula_renames(<map>)
    emission_shape(emit)   the loop driving an emission, its iterable, placeholders, guard facts
    resolve_map(arg)       the rename map handed to the formula renamer, as a collection view
  Locals are seen through (View): an action built into a local first, an aliased iterable, a map
  built by a comprehension or by an accumulating loop all look the same.
  """
  def __init__(self, fn, action_names):
    self.fn = fn
    self.cfg = fn.cfg
    self.view = View(fn)
    self.du = self.view.du
    self.emits = []
    for (n, c, nm) in fn.calls():
      if E.is_gateway_call(c, nm, fn) and self.view.arg(c, 0) is not None:
        ctor = E.action_ctor(self.view.res(self.view.arg(c, 0)), action_names)
        if ctor is not None:
          self.emits.append((n.id, c, ctor[1], ctor[0]))
    self.prep_name = role_anchors(fn.world)["formula_renamer"].name
    self.preps = [(n.id, c) for (n, c, nm) in fn.calls()
                  if endswith(nm, "self." + self.prep_name, self.prep_name) and
                  1 <= len(c.args) + len(c.keywords) <= 2]

  @staticmethod
  def prep_arg(call):
    return call.args[0] if call.args else call.keywords[0].value

  # ---- the emission loop, by role
  def emission_shape(self, emit):
    """(loop stmt, canonical iterable text, root container name, LoopMap, guard facts,
    ctor call)"""
    nid, gw, ctor, aname = emit
    v = self.view
    loops = [l for l in v.enclosing_loops(self.cfg.nodes[nid].stmt) if isinstance(l, ast.For)]
    if not loops:
      raise AnalysisError("%s: %s emitted outside a loop over update pairs"
                          % (self.fn.qualname, aname))
    loop = loops[-1]
    tm = v.loop_map(loop)
    facts = v.facts_at(gw, start=tm.head, mapping=tm)
    it_text, root = self.canonical_iter(loop.iter)
    return loop, it_text, root, tm, facts, ctor

  def canonical_iter(self, it, at=None):
    """Iterable expression with aliases followed:
    `update_pairs` defined as `col_updates.items()` -> ('col_updates.items()', 'col_updates')."""
    e = self.view.alias_root(it, at=at)
    if isinstance(e, ast.Call) and dotted(e.func) in ("list", "sorted", "tuple") and \
        len(e.args) == 1 and not e.keywords:
      e = self.view.alias_root(e.args[0], at=at if at is not None else self.view.point_of(it))
    if isinstance(e, ast.Name):
      return e.id, e.id
    if _is_items_view(e):
      return text(e), e.func.value.id
    raise AnalysisError("%s: iterable of the emission loop outside the supported subset: %s"
                        % (self.fn.qualname, short(it)))

  # ---- the rename map, by role
  def resolve_map(self, arg):
    """Follow the argument of _prepare_formula_renames to the construction of the map.
    Returns (name or None, Coll, rekey) -- rekey 'table' when the argument re-keys a table map
    {old: new} as {(old, None): new}."""
    v = self.view
    rekey = None
    e = arg
    c = v.collection(e)
    if c is not None and c.kind == "dict" and not c.conds and c.loop is None:
      ie = v.alias_root(c.iter, at=v.point_of(arg))
      if _is_items_view(ie) and (c.key, c.value) in (("(_v0_0, None)", "_v0_1"),
                                                     ("_v0_0", "_v0_1")):
        # {(old, None): new for (old, new) in table_renames.items()}   (re-keying only)
        rekey = "table" if c.key == "(_v0_0, None)" else None
        name = ie.func.value.id
        return name, self._coll_of_name(name, arg), rekey
    if c is not None and isinstance(v.res(e), ast.DictComp) and not isinstance(e, ast.Name):
      return None, c, rekey
    if isinstance(e, ast.Name):
      if c is None:
        c = self._coll_of_name(e.id, arg)
      return e.id, c, rekey
    raise AnalysisError("%s: rename map argument outside the supported subset: %s"
                        % (self.fn.qualname, short(arg)))

  def _coll_of_name(self, name, where):
    v = self.view
    nid = v.point_of(where)
    defs = v.reaching(name, nid) if nid is not None else ()
    vals = [v._plain_value(name, d) for d in defs]
    if len(vals) == 1 and vals[0] is not None:
      c = v.collection(vals[0]) if not _empty_container(vals[0]) else \
          v._loop_coll(name, _empty_container(vals[0]), vals[0])
      if c is not None:
        return c
    raise AnalysisError("%s: construction of the rename map %s is outside the supported idioms"
                        % (self.fn.qualname, name))

  def map_writer_nodes(self, name, coll):
    if name is None:
      return {self.view.node_of(coll.node).id}
    return {n for n, names in self.view._gens().items() if name in names} | \
        self.du.muts.get(name, set())

  # ---- writes to the pairs container, classified
  def classify_pairs_write(self, nid, root, field):
    """How a statement that writes the update-pairs container can affect the set of renames."""
    node = self.cfg.nodes[nid]
    s = node.stmt
    verdicts = []
    for c in calls_in(node.exprs):
      f = c.func
      if not (isinstance(f, ast.Attribute) and isinstance(f.value, ast.Name) and
              f.value.id == root):
        continue
      if f.attr == "append" and len(c.args) == 1:
        a = c.args[0]
        d = a.elts[1] if isinstance(a, ast.Tuple) and len(a.elts) == 2 else None
        verdicts.append(_dict_carries(d, field))
      elif f.attr == "setdefault" and len(c.args) == 2 and _empty_dict(c.args[1]):
        verdicts.append(self._chained_write(s, c, field))
      elif f.attr in ("update", "extend", "insert", "__setitem__"):
        verdicts.append(UNKNOWN)
      elif f.attr in ("get", "items", "keys", "values"):
        continue
      else:
        verdicts.append(UNKNOWN)
    if isinstance(s, ast.Assign):
      for t in s.targets:
        if isinstance(t, ast.Subscript) and isinstance(t.value, ast.Name) and t.value.id == root:
          verdicts.append(_dict_carries(s.value, field))
        if isinstance(t, ast.Name) and t.id == root:
          verdicts.append(UNKNOWN)       # the container is replaced
    elif isinstance(s, ast.AugAssign) and isinstance(s.target, ast.Name) and s.target.id == root:
      verdicts.append(UNKNOWN)
    if HARMFUL in verdicts:
      return HARMFUL
    if UNKNOWN in verdicts or not verdicts:
      return UNKNOWN
    return HARMLESS

  def _chained_write(self, stmt, inner, field):
    """X.setdefault(k, {}) used as the receiver of a write of one constant field."""
    for n in ast.walk(stmt):
      # X.setdefault(k, {}).setdefault('formula', v) / .update(a=1, b=2)
      if isinstance(n, ast.Call) and isinstance(n.func, ast.Attribute) and n.func.value is inner:
        if n.func.attr == "setdefault" and n.args and isinstance(n.args[0], ast.Constant):
          return HARMFUL if n.args[0].value == field else HARMLESS
        if n.func.attr == "update" and not n.args and all(k.arg is not None for k in n.keywords):
          return HARMFUL if any(k.arg == field for k in n.keywords) else HARMLESS
        return UNKNOWN
      # X.setdefault(k, {})['formula'] = v
      if isinstance(n, ast.Subscript) and n.value is inner and isinstance(n.ctx, ast.Store):
        if isinstance(n.slice, ast.Constant):
          return HARMFUL if n.slice.value == field else HARMLESS
        return UNKNOWN
    return HARMLESS if isinstance(stmt, ast.Expr) and stmt.value is inner else UNKNOWN


def _is_view_call(e):
  return isinstance(e, ast.Call) and isinstance(e.func, ast.Attribute) and \
      e.func.attr in ("items", "values", "keys") and not e.args and not e.keywords


def _is_items_view(e):
  return isinstance(e, ast.Call) and isinstance(e.func, ast.Attribute) and \
      e.func.attr == "items" and isinstance(e.func.value, ast.Name) and not e.args


def _empty_dict(e):
  return (isinstance(e, ast.Dict) and not e.keys) or \
      (isinstance(e, ast.Call) and dotted(e.func) in ("dict", "OrderedDict") and not e.args
       and not e.keywords)


def _dict_carries(d, field):
  """Can the values-dict expression `d` carry the rename field?"""
  if isinstance(d, ast.Dict) and all(isinstance(k, ast.Constant) for k in d.keys):
    return HARMFUL if any(k.value == field for k in d.keys) else HARMLESS
  return HARMFUL     # an arbitrary values dict may carry a rename


# ======================================================================== schema.py extraction

def python_schema(world):
  """The metadata schema as written in schema.schema_create_actions(), read from the AST:
  OrderedPairs [(table_id, [(col_id, col_type), ...])], plus the AST nodes for reports.
  Slots are filled by role: the AddTable field order comes from actions.py, the meaning of
  make_column's parameters from the dict it returns."""
  repo = world.repo
  mod = repo.module("schema")
  fi = repo.func("schema.schema_create_actions")
  mk = repo.func("schema.make_column")
  # make_column: which parameter is the id, which the type
  rets = [s for s in ast.walk(mk.node) if isinstance(s, ast.Return)]
  mkret = View(world.fn_of(mk)).res(rets[0].value) if len(rets) == 1 else None
  if not isinstance(mkret, ast.Dict):
    raise AnalysisError("schema.make_column no longer returns one dict literal")
  role = {}
  for k, v in zip(mkret.keys, mkret.values):
    if isinstance(k, ast.Constant) and isinstance(v, ast.Name):
      role[k.value] = v.id
  if "id" not in role or "type" not in role:
    raise AnalysisError("schema.make_column: 'id'/'type' keys not bound to parameters")
  params = mk.params()
  fields = world.action_types().get("AddTable")
  if fields is None or "table_id" not in fields or "columns" not in fields:
    raise AnalysisError("actions.AddTable fields changed")
  i_tid, i_cols = fields.index("table_id"), fields.index("columns")
  rets = [s for s in ast.walk(fi.node) if isinstance(s, ast.Return)]
  sret = View(world.fn_of(fi)).res(rets[0].value) if len(rets) == 1 else None
  if not isinstance(sret, ast.List):
    raise AnalysisError("schema.schema_create_actions no longer returns one list literal")

  def arg(call, params_, name):
    for kw in call.keywords:
      if kw.arg == name:
        return kw.value
    i = params_.index(name)
    if i < len(call.args):
      return call.args[i]
    return None

  out = OrderedPairs()
  for el in sret.elts:
    ba = bind_args(el, fields) if isinstance(el, ast.Call) and \
        dotted(el.func) in ("actions.AddTable", "AddTable") else None
    if ba is None or set(ba) != set(fields):
      raise AnalysisError("schema_create_actions: element is not actions.AddTable(...): %s"
                          % short(el))
    tid, cols = ba["table_id"], ba["columns"]
    if not (isinstance(tid, ast.Constant) and isinstance(tid.value, str) and
            isinstance(cols, ast.List)):
      raise AnalysisError("schema_create_actions: table not written as literals: %s" % short(el))
    cl = []
    for c in cols.elts:
      if not (isinstance(c, ast.Call) and dotted(c.func) == "make_column"):
        raise AnalysisError("schema_create_actions: column is not make_column(...): %s"
                            % short(c))
      cid, ctype = arg(c, params, role["id"]), arg(c, params, role["type"])
      if not (isinstance(cid, ast.Constant) and isinstance(cid.value, str) and
              isinstance(ctype, ast.Constant) and isinstance(ctype.value, str)):
        raise AnalysisError("schema_create_actions: column id/type not literal: %s" % short(c))
      cl.append((cid.value, ctype.value, c))
    out.append((tid.value, cl))
  ids = [t for t, _ in out]
  if len(set(ids)) != len(ids):
    raise AnalysisError("schema_create_actions: duplicate table ids")
  return out


# ======================================================================== spelling-independent views
#
# The helpers below let a rule ask *what* a function does without depending on how it is spelt:
#   View.x / View.t          an expression with single-assignment locals expanded (aliases, named
#                            sub-expressions), as AST / as normalised text (optionally with loop
#                            variables replaced by positional placeholders)
#   View.facts_at / holds    what is known to be true/false at a program point, from the CFG:
#                            `if c: X`, `if not c: continue` + X, swapped else branches, `c and d`
#                            all guard X by c; inside an expression `a and b`, `x if t else y` and
#                            comprehension filters add to it
#   decision_arms            (conditions, result) per path of a loop-free function, whether it is
#                            written as one conditional expression or as if/return statements
#   View.collection          a dict/list/set built by a comprehension *or* by an accumulating loop,
#                            in one normal form
#   bind_args                call arguments by parameter name (positional or keyword)
#   expand_helpers / xfn     a function with its private same-class / same-module helpers
#                            inlined at the call (extract-method refactors)

from .. import guards as _G


def ob(run, rule, site, construct, what, ok, view=None, involved=None, keep=(), **kw):
  """run.ob with the rule of evidence "a violation needs a mechanism that was seen broken": when
  the obligation does not hold and the analysed function hands the objects in question
  (`involved` local names; None = anything) to code the rules did not follow -- a private helper
  that could not be inlined, a local closure it calls -- the question is undecided, not violated."""
  if not ok and view is not None:
    views = view if isinstance(view, (list, tuple)) else [view]
    for v in views:
      esc = v.escapes(involved, keep)
      if esc:
        raise AnalysisError("%s: cannot decide `%s`: %s is not followed"
                            % (v.fn.qualname, short(construct, 60) if not isinstance(construct, str)
                               else construct[:60], short(esc[0], 60)))
  return run.ob(rule, site, construct, what, ok, **kw)


class Guarded(object):
  """A view of `run` whose ob() applies the rule of evidence of `ob` above for one analysed
  function (or several). Everything else is the run's own."""
  def __init__(self, run, view, involved=None, keep=()):
    self.raw = getattr(run, "raw", run)
    self._view = view
    self._involved = involved
    self._keep = keep

  def __getattr__(self, name):
    return getattr(self.raw, name)

  def ob(self, rule, site, construct, what, ok, **kw):
    return ob(self.raw, rule, site, construct, what, ok, view=self._view,
              involved=self._involved, keep=self._keep, **kw)

  def about(self, *names):
    """the same, for a question that only concerns the given local names"""
    return Guarded(self.raw, self._view, involved=names, keep=self._keep)


def require(world, *qualnames):
  """The helper functions a rule anchors on must still exist (AnalysisError otherwise): a helper
  inlined into its caller is a refactor the rule cannot follow, not a violation."""
  for q in qualnames:
    world.repo.func(q)


def bind_args(call, params, skip_self=False):
  """{param: argument expr} of a call against the parameter names of the callee; None when the
  call uses * / ** or does not fit."""
  ps = list(params)
  if skip_self and ps and ps[0] in ("self", "cls"):
    ps = ps[1:]
  out = {}
  if any(isinstance(a, ast.Starred) for a in call.args) or any(k.arg is None for k in call.keywords):
    return None
  if len(call.args) > len(ps):
    return None
  for p, a in zip(ps, call.args):
    out[p] = a
  for k in call.keywords:
    if k.arg in out or k.arg not in ps:
      return None
    out[k.arg] = k.value
  return out


_FLIP = {ast.NotEq: ast.Eq, ast.IsNot: ast.Is, ast.NotIn: ast.In}
_OPNAME = {ast.Eq: "==", ast.Is: "is", ast.In: "in", ast.Lt: "<", ast.LtE: "<=", ast.Gt: ">",
           ast.GtE: ">="}


class View(object):
  """Spelling-independent questions about one function (an `Fn`).

  Expressions are compared as normalised text in which a local stands for the value it has *at
  the point where the expression is evaluated*: a name whose only reaching binding is a plain
  assignment is replaced by the assigned expression (recursively); a name bound otherwise (loop
  variable, parameter, unpacking, augmented assignment) stays, and if the function binds it in
  several such ways it is written `name@<node>` so that two different values never share a text.
  Facts about such texts are facts about values: rebinding a name does not invalidate what is
  known about the value it used to denote; executing the binding again (next loop iteration)
  does."""

  ENTRY = -1

  def __init__(self, fn):
    self.fn = fn
    self.node = fn.node
    self.cfg = fn.cfg
    self.du = DefUse(fn)
    a = fn.node.args
    self.params = {x.arg for x in a.posonlyargs + a.args + a.kwonlyargs}
    if a.vararg:
      self.params.add(a.vararg.arg)
    if a.kwarg:
      self.params.add(a.kwarg.arg)
    self._single = {}
    self._bind_counts = None
    self._edge_cache = {}
    self._node_of = None
    self._rd = None
    self._gen = None
    self._kills = {}        # atom key -> set of def node ids whose re-execution renews a value
    self._nonplain = None
    self._mut_roots = None
    self._gn = None

  # ------------------------------------------------------------------ bindings
  def _gens(self):
    """{node id: names bound at that node}"""
    if self._gen is None:
      gen = {}
      for name, nodes in self.du.defs.items():
        for nid in nodes:
          gen.setdefault(nid, set()).add(name)
      for n in self.cfg.nodes:
        if n.kind == "def" and n.stmt is not None:
          gen.setdefault(n.id, set()).add(n.stmt.name)
        elif n.kind == "handler" and getattr(n.stmt, "name", None):
          gen.setdefault(n.id, set()).add(n.stmt.name)
        elif n.kind == "stmt" and isinstance(n.stmt, ast.Delete):
          for t in n.stmt.targets:
            if isinstance(t, ast.Name):
              gen.setdefault(n.id, set()).add(t.id)
      # comprehension variables are not bindings of the function's locals (their own scope)
      for nid in list(gen):
        n = self.cfg.nodes[nid]
        real = set()
        s = n.stmt
        if n.kind in ("for", "with", "def", "handler"):
          real = set(gen[nid])
          if n.kind == "for":
            real = {y.id for y in ast.walk(s.target) if isinstance(y, ast.Name)}
          elif n.kind == "with":
            real = {y.id for it in s.items if it.optional_vars is not None
                    for y in ast.walk(it.optional_vars) if isinstance(y, ast.Name)}
        elif n.kind == "stmt":
          real = set(stmt_defs_plain(s))
        for e in n.exprs:
          for y in walk_no_nested(e):
            if isinstance(y, ast.NamedExpr) and isinstance(y.target, ast.Name):
              real.add(y.target.id)
        gen[nid] = real
        if not real:
          del gen[nid]
      self._gen = gen
    return self._gen

  def _reaching(self):
    """IN sets of a reaching-definitions analysis: {node id: {name: frozenset(def node ids)}}.
    Parameters are defined at ENTRY. Names never bound in the function do not appear."""
    if self._rd is not None:
      return self._rd
    cfg = self.cfg
    gen = self._gens()
    IN = {n.id: {} for n in cfg.nodes}
    OUT = {n.id: {} for n in cfg.nodes}
    OUT[cfg.entry.id] = {p: frozenset([self.ENTRY]) for p in self.params}
    work = [n.id for n in cfg.nodes]
    while work:
      nid = work.pop()
      if nid == cfg.entry.id:
        continue
      new_in = {}
      for p in cfg.pred[nid]:
        for k, v in OUT[p].items():
          new_in[k] = new_in.get(k, frozenset()) | v
      new_out = dict(new_in)
      for nm in gen.get(nid, ()):
        new_out[nm] = frozenset([nid])
      IN[nid] = new_in
      if new_out != OUT[nid]:
        OUT[nid] = new_out
        work.extend(cfg.succ[nid])
    self._rd = IN
    return IN

  def reaching(self, name, nid):
    """frozenset of node ids whose binding of `name` may be the one seen at node nid; an empty
    set for names that are not locals (globals, builtins)."""
    return self._reaching().get(nid, {}).get(name, frozenset())

  def _plain_value(self, name, nid, _guard=False):
    """value expr if CFG node nid is a plain `name = value` statement, else None"""
    if nid == self.ENTRY:
      return None
    n = self.cfg.nodes[nid]
    s = n.stmt
    if n.kind != "stmt":
      return None
    if isinstance(s, ast.Assign) and len(s.targets) == 1 and isinstance(s.targets[0], ast.Name) \
        and s.targets[0].id == name:
      return s.value
    if isinstance(s, ast.AnnAssign) and isinstance(s.target, ast.Name) and s.target.id == name:
      return s.value
    # a, b = x, y  binds each name to its own expression
    if isinstance(s, ast.Assign) and len(s.targets) == 1 and \
        isinstance(s.targets[0], (ast.Tuple, ast.List)) and \
        isinstance(s.value, (ast.Tuple, ast.List)) and \
        len(s.targets[0].elts) == len(s.value.elts) and \
        not any(isinstance(e, ast.Starred) for e in s.targets[0].elts + s.value.elts):
      hits = [v for t, v in zip(s.targets[0].elts, s.value.elts)
              if isinstance(t, ast.Name) and t.id == name]
      if len(hits) == 1:
        return hits[0]
    # a, b = pair  where the only binding of `pair` that can be unpacked is a tuple display
    # (a binding to None cannot reach past the unpacking: it raises)
    if isinstance(s, ast.Assign) and len(s.targets) == 1 and \
        isinstance(s.targets[0], (ast.Tuple, ast.List)) and isinstance(s.value, ast.Name) and \
        not _guard:
      idx = [i for i, t in enumerate(s.targets[0].elts)
             if isinstance(t, ast.Name) and t.id == name]
      if len(idx) == 1 and not any(isinstance(t, ast.Starred) for t in s.targets[0].elts):
        cands = []
        for d in self.reaching(s.value.id, nid):
          v = self._plain_value(s.value.id, d, _guard=True) if d != self.ENTRY else None
          if isinstance(v, ast.Constant) and v.value is None:
            continue
          cands.append((d, v))
        if len(cands) == 1 and isinstance(cands[0][1], (ast.Tuple, ast.List)) and \
            len(cands[0][1].elts) == len(s.targets[0].elts):
          d2, tup = cands[0]
          elt = tup.elts[idx[0]]
          stable = all(self.reaching(y.id, d2) == self.reaching(y.id, nid)
                       for y in ast.walk(elt) if isinstance(y, ast.Name))
          if stable and not isinstance(elt, ast.Starred):
            return elt
    return None

  def _nonplain_defs(self, name):
    """def node ids of `name` that are not plain assignments (ENTRY for a parameter)."""
    if self._nonplain is None:
      self._nonplain = {}
    if name not in self._nonplain:
      out = set()
      if name in self.params:
        out.add(self.ENTRY)
      for nid, names in self._gens().items():
        if name in names and self._plain_value(name, nid) is None:
          out.add(nid)
      self._nonplain[name] = out
    return self._nonplain[name]

  def mut_roots(self):
    """Locals whose object is modified in place somewhere in the function: root of a subscript /
    attribute store (at any depth) or receiver of a mutating method call."""
    if self._mut_roots is None:
      from ..dataflow import MUTATING_METHODS
      out = set(self.du.muts)

      def root(e):
        while isinstance(e, (ast.Subscript, ast.Attribute)):
          e = e.value
        return e.id if isinstance(e, ast.Name) else None

      for n in walk_no_nested(self.node):
        if isinstance(n, (ast.Subscript, ast.Attribute)) and isinstance(n.ctx, (ast.Store, ast.Del)):
          r = root(n)
          if r is not None:
            out.add(r)
        elif isinstance(n, ast.Call) and isinstance(n.func, ast.Attribute) and \
            n.func.attr in MUTATING_METHODS:
          r = root(n.func.value)
          if r is not None:
            out.add(r)
      # an object modified through an alias is modified: `a = b[k]; a[x] = y` modifies b
      def chain_root(e):
        while True:
          if isinstance(e, (ast.Subscript, ast.Attribute)):
            e = e.value
          elif isinstance(e, ast.Call) and isinstance(e.func, ast.Attribute) and \
              e.func.attr in _ACCESSORS:
            e = e.func.value
          else:
            break
        return e.id if isinstance(e, ast.Name) else None

      changed = True
      while changed:
        changed = False
        for nid, names in self._gens().items():
          for nm in names:
            if nm not in out:
              continue
            val = self._plain_value(nm, nid)
            if val is None or _allocates(val):
              continue
            r = chain_root(val)
            if r is not None and r not in out:
              out.add(r)
              changed = True
      self._mut_roots = out
    return self._mut_roots

  def value_at(self, name, nid):
    """(value expr, def node id) when exactly one binding of `name` reaches node nid, that
    binding is a plain assignment, and everything the value mentions still means at nid what it
    meant at the assignment. Else None."""
    defs = self.reaching(name, nid)
    if len(defs) != 1:
      return None
    d = next(iter(defs))
    v = self._plain_value(name, d)
    if v is None:
      return None
    if name in self.mut_roots() and _allocates(v):
      # a fresh object that is then filled in place: the name is its identity
      return None
    own = set()
    for y in ast.walk(v):
      if isinstance(y, ast.comprehension):
        own |= {z.id for z in ast.walk(y.target) if isinstance(z, ast.Name)}
      elif isinstance(y, ast.Lambda):
        own |= {a.arg for a in y.args.args}
    for y in ast.walk(v):
      if isinstance(y, ast.Name) and isinstance(y.ctx, ast.Load) and y.id not in own:
        if y.id == name:
          # x = f(x): the x on the right is the previous binding; fine when that is unambiguous
          if len(self.reaching(name, d)) != 1:
            return None
          continue
        if d != nid and self.reaching(y.id, d) != self.reaching(y.id, nid):
          return None
    return v, d

  def single_value(self, name):
    """For expressions that are not part of the function: the expression a local stands for when
    it is bound exactly once in the function, by a plain assignment."""
    if name in self._single:
      return self._single[name]
    out = None
    sites = [nid for nid, names in self._gens().items() if name in names]
    if name not in self.params and len(sites) == 1:
      out = self._plain_value(name, sites[0])
      if out is not None and any(isinstance(x, ast.Name) and x.id == name for x in ast.walk(out)):
        out = None
    self._single[name] = out
    return out

  # ------------------------------------------------------------------ program points
  def node_of(self, astnode):
    """CFG node at which `astnode` (a statement or an expression) is evaluated."""
    if self._node_of is None:
      m = {}
      for n in self.cfg.nodes:
        if n.stmt is None:
          continue
        roots = list(n.exprs)
        if n.kind in ("stmt", "return", "raise_stmt", "assert"):
          roots.append(n.stmt)
        for r in roots:
          for y in walk_no_nested(r, into_lambda=True):
            m.setdefault(id(y), n)
        m.setdefault(id(n.stmt), n)
      self._node_of = m
    n = self._node_of.get(id(astnode))
    if n is None:
      raise AnalysisError("%s: construct is not evaluated at a statement of this function: %s"
                          % (self.fn.qualname, short(astnode)))
    return n

  def point_of(self, astnode):
    """CFG node id at which astnode is evaluated, or None for detached expressions."""
    if astnode is None:
      return None
    if self._node_of is None:
      try:
        self.node_of(astnode)
      except AnalysisError:
        return None
    n = self._node_of.get(id(astnode))
    return n.id if n is not None else None

  # ------------------------------------------------------------------ expansion
  def xd(self, expr, at=None, depth=8, bound=()):
    """(copy of expr with locals replaced by what they stand for where expr is evaluated,
    set of def node ids of the bindings that the remaining local names refer to)."""
    view = self
    if expr is None:
      return None, set()
    nid0 = at if at is not None else self.point_of(expr)
    used = set()

    class T(ast.NodeTransformer):
      def __init__(self, d, bound, nid):
        self.d = d
        self.bound = bound
        self.nid = nid

      def visit_Name(self, n):
        if not isinstance(n.ctx, ast.Load) or n.id in self.bound:
          return n
        if self.nid is None:
          if self.d > 0:
            v = view.single_value(n.id)
            if v is not None:
              return T(self.d - 1, self.bound, None).visit(copy.deepcopy(v))
          return n
        if self.d > 0:
          r = view.value_at(n.id, self.nid)
          if r is not None:
            return T(self.d - 1, self.bound, r[1]).visit(copy.deepcopy(r[0]))
        defs = view.reaching(n.id, self.nid)
        if not defs:
          return n                  # not a local
        used.update(d for d in defs if d != view.ENTRY)
        if len(defs) == 1:
          d = next(iter(defs))
          if len(view._nonplain_defs(n.id)) > 1 and d in view._nonplain_defs(n.id) and \
              d != view.ENTRY:
            return ast.copy_location(ast.Name(id="%s@%d" % (n.id, d), ctx=n.ctx), n)
        return n

      def _comp(self, n):
        b = set(self.bound)
        for g in n.generators:
          for y in ast.walk(g.target):
            if isinstance(y, ast.Name):
              b.add(y.id)
        return T(self.d, b, self.nid).generic_visit(n)

      visit_ListComp = visit_SetComp = visit_DictComp = visit_GeneratorExp = _comp

      def visit_Lambda(self, n):
        b = set(self.bound) | {a.arg for a in n.args.args}
        return T(self.d, b, self.nid).generic_visit(n)

    out = T(depth, set(bound), nid0).visit(copy.deepcopy(expr))
    if any(isinstance(y, ast.Call) and y.keywords for y in ast.walk(out)):
      out = self.positional(out)
    return out, used

  def x(self, expr, at=None, depth=8, bound=()):
    return self.xd(expr, at, depth, bound)[0]

  def t(self, expr, mapping=None, at=None, bound=()):
    """Normalised text of `expr`: locals expanded, then names of `mapping` replaced. `bound`:
    names that belong to an enclosing comprehension / lambda (not locals of the function)."""
    if expr is None:
      return None
    e = self.x(expr, at=at, bound=bound)
    if mapping:
      e = _Renamer(_versioned(mapping)).visit(e)
    return text(e)

  def resolve(self, expr, depth=8, at=None):
    """Follow a chain of locals to the expression it stands for (top level only; the result
    keeps its own sub-expressions as written). Returns (expr, node id where it is evaluated)."""
    e = expr
    nid = at if at is not None else self.point_of(expr)
    for _ in range(depth):
      if not isinstance(e, ast.Name):
        break
      if nid is not None:
        r = self.value_at(e.id, nid)
        if r is None:
          break
        e, nid = r
      else:
        v = self.single_value(e.id)
        if v is None:
          break
        e = v
    return e, nid

  def res(self, expr, at=None):
    return self.resolve(expr, at=at)[0]

  # ------------------------------------------------------------------ calls
  def callee(self, call):
    """(FuncInfo, is_bound) of the repository function a call names, or None: self.m / cls.m
    (through the class hierarchy), a module-level function, module.func through an import, a
    class (its __init__), or -- for other receivers -- the only method of that name in the
    repository. is_bound: the first parameter (self/cls) is supplied by the receiver."""
    repo = self.fn.world.repo
    f = call.func
    fi = self.fn.fi
    top = fi
    while top.parent is not None:
      top = top.parent
    mod = fi.module
    if isinstance(f, ast.Attribute):
      if isinstance(f.value, ast.Name) and f.value.id in ("self", "cls") and top.cls is not None:
        m = repo.find_method(top.cls, f.attr)
        if m is not None:
          return m, not any(dotted(d) == "staticmethod" for d in m.decorators())
      d = dotted(f)
      if d is not None and d.count(".") == 1:
        head, attr = d.split(".")
        imp = mod.imports.get(head)
        if imp is not None and imp[0] == "module" and imp[1] in repo.modules and \
            not self.reaching(head, self.point_of(call) or self.cfg.entry.id):
          m = repo.modules[imp[1]]
          if attr in m.functions:
            return m.functions[attr], False
          if attr in m.classes and "__init__" in m.classes[attr].methods:
            return m.classes[attr].methods["__init__"], True
          return None
      owners = [c.methods[f.attr] for c in repo.classes.values() if f.attr in c.methods]
      if len(owners) == 1:
        return owners[0], not any(dotted(d) == "staticmethod" for d in owners[0].decorators())
      return None
    if isinstance(f, ast.Name):
      if self._gens_names().get(f.id):
        return None           # a local of that name
      if f.id in mod.functions:
        return mod.functions[f.id], False
      if f.id in mod.classes and "__init__" in mod.classes[f.id].methods:
        return mod.classes[f.id].methods["__init__"], True
      imp = mod.imports.get(f.id)
      if imp is not None and imp[0] == "name" and imp[1] in repo.modules:
        m = repo.modules[imp[1]]
        if imp[2] in m.functions:
          return m.functions[imp[2]], False
        if imp[2] in m.classes and "__init__" in m.classes[imp[2]].methods:
          return m.classes[imp[2]].methods["__init__"], True
    return None

  def _gens_names(self):
    if self._gn is None:
      out = {}
      for nid, names in self._gens().items():
        for nm in names:
          out.setdefault(nm, set()).add(nid)
      self._gn = out
    return self._gn

  def call_params(self, call):
    """Parameter names a call's arguments bind to (receiver excluded), or None."""
    r = self.callee(call)
    if r is None:
      # namedtuple-style action constructors
      d = dotted(call.func)
      if d is not None:
        last = d.split(".")[-1]
        try:
          fields = self.fn.world.action_types().get(last)
        except AnalysisError:
          fields = None
        if fields and (d == last or d == "actions." + last):
          return list(fields)
      return None
    fi, bound = r
    a = fi.node.args
    if a.vararg or a.kwarg or a.posonlyargs:
      return None
    ps = [x.arg for x in a.args]
    return ps[1:] if bound and ps else ps

  def bind(self, call, fallback=None):
    """{parameter name: argument expr} of a call, positional or keyword alike, against the
    parameter list of the function it names (or `fallback` names when that is not known)."""
    ps = self.call_params(call)
    if ps is None:
      ps = fallback
    if ps is None:
      return None
    return bind_args(call, ps)

  def arg(self, call, pos):
    """The pos-th argument (receiver not counted) whether it is passed by position or keyword."""
    if len(call.args) > pos and not any(isinstance(a, ast.Starred) for a in call.args[:pos + 1]):
      return call.args[pos]
    ps = self.call_params(call)
    if ps is not None and pos < len(ps):
      for k in call.keywords:
        if k.arg == ps[pos]:
          return k.value
    return None

  def positional(self, e):
    """`e` (a copy is not made: pass a private copy) with keyword arguments of calls to known
    repository functions moved to their positions, so that `f(a, b)` and `f(p=a, q=b)` have one
    text."""
    view = self

    class P(ast.NodeTransformer):
      def visit_Call(self, n):
        self.generic_visit(n)
        if not n.keywords or any(k.arg is None for k in n.keywords) or \
            any(isinstance(a, ast.Starred) for a in n.args):
          return n
        ps = view.call_params(n)
        if ps is None:
          return n
        b = bind_args(n, ps)
        if b is None:
          return n
        k = 0
        while k < len(ps) and ps[k] in b:
          k += 1
        if len(b) != k:
          return n              # a gap: some later parameter is given, an earlier one is not
        n.args = [b[p] for p in ps[:k]]
        n.keywords = []
        return n

    return P().visit(e)

  # ------------------------------------------------------------------ what is not followed
  def unfollowed(self, keep=()):
    """Calls in this function whose body the rules do not look into: private functions of the
    module / private methods of the class that could not be inlined (returns inside loops,
    generators, * / ** parameters ...), and local closures that are called here.
    [(call, kind, callee node or None)]"""
    fi = self.fn.fi
    top = fi
    while top.parent is not None:
      top = top.parent
    repo = self.fn.world.repo
    closures = {f.name: f for f in repo.all_functions() if f.parent is not None and
                f.parent.qualname == fi.qualname}
    out = []
    for n in self.cfg.nodes:
      for c in calls_in(n.exprs):
        f = c.func
        if isinstance(f, ast.Attribute) and isinstance(f.value, ast.Name) and \
            f.value.id in ("self", "cls") and top.cls is not None and \
            f.attr in top.cls.methods and f.attr.startswith("_") and \
            not f.attr.startswith("__") and f.attr not in keep:
          out.append((c, "method", top.cls.methods[f.attr].node))
        elif isinstance(f, ast.Name) and f.id in closures and not self._plainly_bound(f.id):
          out.append((c, "closure", closures[f.id].node))
        elif isinstance(f, ast.Name) and f.id in fi.module.functions and \
            f.id.startswith("_") and not f.id.startswith("__") and f.id not in keep and \
            not self._gens_names().get(f.id):
          out.append((c, "function", fi.module.functions[f.id].node))
    return out

  def _plainly_bound(self, name):
    return any(self._plain_value(name, d) is not None for d in self._gens_names().get(name, ()))

  def escapes(self, involved=None, keep=()):
    """Unfollowed calls that may matter for a question about the names in `involved` (None: any
    unfollowed call matters): a closure whose body mentions one of them, a helper that is handed
    one of them (or something built from one of them) as an argument."""
    out = []
    for (c, kind, node) in self.unfollowed(keep):
      if involved is None:
        out.append(c)
        continue
      names = set(involved)
      if kind == "closure":
        if any(isinstance(y, ast.Name) and y.id in names for y in ast.walk(node)):
          out.append(c)
        continue
      args = list(c.args) + [k.value for k in c.keywords]
      hit = False
      for a in args:
        raw = {y.id for y in ast.walk(a) if isinstance(y, ast.Name)}
        exp = {y.id for y in ast.walk(self.x(a)) if isinstance(y, ast.Name)}
        if (raw | exp) & names:
          hit = True
      if hit:
        out.append(c)
    return out

  def alternatives(self, expr, at=None, facts=None, depth=6):
    """Every value `expr` may have where it is evaluated, as [(value expr, node id at which that
    value is computed, facts known on the way)]: locals that name the value are followed, a
    local bound on several paths (`if c: x = A else: x = B`) contributes each binding with the
    facts of its own path, conditional expressions are split. A binding that is not a plain
    assignment ends the search with the name itself."""
    nid = at if at is not None else self.point_of(expr)
    facts = set(facts if facts is not None else (self.cfg_facts(nid) if nid is not None else ()))
    out = []

    def go(e, nid, facts, depth):
      e, nid = self.resolve(e, at=nid)
      if isinstance(e, ast.IfExp) and depth > 0:
        go(e.body, nid, facts | self.test_facts(e.test, True, at=nid), depth - 1)
        go(e.orelse, nid, facts | self.test_facts(e.test, False, at=nid), depth - 1)
        return
      if isinstance(e, ast.Name) and nid is not None and depth > 0:
        defs = self.reaching(e.id, nid)
        vals = [(d, self._plain_value(e.id, d) if d != self.ENTRY else None) for d in defs]
        if len(defs) > 1 and all(v is not None for (_, v) in vals):
          for (d, v) in sorted(vals, key=lambda x: x[0]):
            go(v, d, facts | self.cfg_facts(d), depth - 1)
          return
      out.append((e, nid, facts))

    go(expr, nid, facts, depth)
    return out

  def binding(self, expr, at=None):
    """The expression a local was bound to (its unique reaching plain assignment), also when the
    object is modified in place afterwards (x/t keep such names, because the name is the object's
    identity). The expression itself when it is not such a local."""
    nid = at if at is not None else self.point_of(expr)
    if isinstance(expr, ast.Name) and nid is not None:
      defs = self.reaching(expr.id, nid)
      if len(defs) == 1:
        d = next(iter(defs))
        v = self._plain_value(expr.id, d) if d != self.ENTRY else None
        if v is not None:
          return v
    return expr

  def alias_root(self, expr, at=None):
    """`expr` with locals that merely rename another name or an items()/values()/keys() view
    followed (`pairs = d.items()`, `m = table_renames`), other locals kept by name."""
    nid = at if at is not None else self.point_of(expr)
    e = expr
    for _ in range(6):
      if isinstance(e, ast.Name) and nid is not None:
        r = self.value_at(e.id, nid)
        if r is not None and (isinstance(r[0], ast.Name) or _is_view_call(r[0])):
          e, nid = r
          continue
      break
    if _is_view_call(e) and isinstance(e.func.value, ast.Name) and nid is not None:
      inner = self.alias_root(e.func.value, at=nid)
      if inner is not e.func.value and isinstance(inner, ast.Name):
        e = ast.copy_location(ast.Call(func=ast.Attribute(value=inner, attr=e.func.attr,
                                                          ctx=ast.Load()), args=[], keywords=[]),
                              e)
    return e

  def denotes(self, expr, pred, at=None):
    """expr satisfies pred, possibly through a chain of locals."""
    e = expr
    nid = at if at is not None else self.point_of(expr)
    for _ in range(8):
      if pred(e):
        return True
      if not isinstance(e, ast.Name):
        return False
      if nid is not None:
        r = self.value_at(e.id, nid)
        if r is None:
          return False
        e, nid = r
      else:
        v = self.single_value(e.id)
        if v is None:
          return False
        e = v
    return False

  # ------------------------------------------------------------------ guards
  def atom(self, e, pol=True, mapping=None, at=None, bound=()):
    """Canonical (text, polarity) of one condition: `not`, !=, `is not`, `not in` folded into
    the polarity, operands of == / is ordered, locals expanded."""
    while isinstance(e, ast.UnaryOp) and isinstance(e.op, ast.Not):
      e, pol = e.operand, not pol
    if at is None:
      at = self.point_of(e)
    kills = set()

    def tx(sub):
      ex, used = self.xd(sub, at=at, bound=bound)
      kills.update(used)
      if mapping:
        ex = _Renamer(_versioned(mapping)).visit(ex)
      return text(ex)

    if isinstance(e, ast.Compare) and len(e.ops) == 1:
      op = type(e.ops[0])
      if op in _FLIP:
        op, pol = _FLIP[op], not pol
      l, r = tx(e.left), tx(e.comparators[0])
      if op in (ast.Eq, ast.Is) and r < l:
        l, r = r, l
      if op in (ast.Gt, ast.GtE):
        op = ast.Lt if op is ast.Gt else ast.LtE
        l, r = r, l
      key = ("%s %s %s" % (l, _OPNAME.get(op, op.__name__), r), pol)
    else:
      key = (tx(e), pol)
    self._kills.setdefault((key, _mkey(mapping)), set()).update(kills)
    return key

  def test_facts(self, test, polarity=True, mapping=None, at=None, bound=()):
    """Canonical facts established when `test` evaluates to `polarity`."""
    if at is None:
      at = self.point_of(test)
    return {self.atom(e, p, mapping, at=at, bound=bound) for (e, p) in _G.facts(test, polarity)}

  def _edges(self, mapping=None):
    mk = _mkey(mapping)
    if mk not in self._edge_cache:
      out = {}
      for n in self.cfg.nodes:
        if n.kind == "if" and n.id in self.cfg.if_true:
          t_succ = set(self.cfg.if_true[n.id])
          exc = set(self.cfg.if_exc.get(n.id, set()))
          f_succ = set(self.cfg.succ[n.id]) - t_succ - exc
        elif n.kind == "while" and n.stmt is not None:
          # entering the body: the test was true; leaving (not through break): it was false
          inside = {id(y) for b in n.stmt.body for y in ast.walk(b)}
          normal = set(self.cfg.normal_succ(n.id))
          t_succ = {x for x in normal if id(self.cfg.nodes[x].stmt) in inside}
          f_succ = normal - t_succ
        else:
          continue
        for pol, succ in ((True, t_succ), (False, f_succ)):
          for (e, p) in _G.facts(n.stmt.test, pol):
            key = self.atom(e, p, mapping, at=n.id)
            out.setdefault(key, set()).update((n.id, s) for s in succ)
      self._edge_cache[mk] = out
    return self._edge_cache[mk]

  def _reach_cut(self, starts, cut):
    seen = set(starts)
    todo = list(starts)
    while todo:
      a = todo.pop()
      for b in self.cfg.succ[a]:
        if (a, b) in cut or b in seen:
          continue
        seen.add(b)
        todo.append(b)
    return seen

  def cfg_facts(self, nid, start=None, mapping=None):
    """Facts known on every path reaching CFG node `nid` (from the function entry, or from node
    `start`, e.g. a loop head: what each iteration establishes afresh). Facts are about values:
    they lapse when a binding they depend on is executed again (a new iteration's loop variable),
    not when a name is merely reused."""
    out = set()
    mk = _mkey(mapping)
    for key, edges in self._edges(mapping).items():
      starts = {self.cfg.entry.id if start is None else start}
      for k in self._kills.get((key, mk), ()):
        starts.add(k) if k == start else starts.update(self.cfg.succ[k])
      if nid not in self._reach_cut(starts, edges):
        out.add(key)
    return out

  def expr_facts(self, root, target, mapping=None):
    """Facts the position of `target` inside expression/statement `root` adds: left operands of
    and/or, tests of conditional expressions, comprehension filters."""
    found = []
    at = self.point_of(root)

    def tf(test, pol, bound):
      return self.test_facts(test, pol, mapping, at=at, bound=bound)

    def go(n, acc, bound):
      if n is target:
        found.append(set(acc))
        return True
      if isinstance(n, ast.BoolOp):
        cur = set(acc)
        for v in n.values:
          if go(v, cur, bound):
            return True
          cur = cur | tf(v, isinstance(n.op, ast.And), bound)
        return False
      if isinstance(n, ast.IfExp):
        if go(n.test, acc, bound):
          return True
        if go(n.body, acc | tf(n.test, True, bound), bound):
          return True
        return go(n.orelse, acc | tf(n.test, False, bound), bound)
      if isinstance(n, (ast.ListComp, ast.SetComp, ast.GeneratorExp, ast.DictComp)):
        cur = set(acc)
        b = set(bound)
        for g in n.generators:
          if go(g.iter, cur, b):
            return True
          b = b | {y.id for y in ast.walk(g.target) if isinstance(y, ast.Name)}
          if go(g.target, cur, b):
            return True
          for c in g.ifs:
            if go(c, cur, b):
              return True
            cur = cur | tf(c, True, b)
        elts = [n.key, n.value] if isinstance(n, ast.DictComp) else [n.elt]
        return any(go(e, cur, b) for e in elts)
      if isinstance(n, ast.Lambda):
        b = set(bound) | {a.arg for a in n.args.args}
        return go(n.body, acc, b)
      if isinstance(n, (ast.FunctionDef, ast.AsyncFunctionDef, ast.ClassDef)) and n is not root:
        return False
      for ch in ast.iter_child_nodes(n):
        if go(ch, acc, bound):
          return True
      return False

    go(root, set(), set())
    return found[0] if found else set()

  def facts_at(self, astnode, start=None, mapping=None):
    """Everything known when `astnode` is evaluated: CFG guards plus its position inside its
    own statement."""
    n = self.node_of(astnode)
    out = self.cfg_facts(n.id, start, mapping)
    roots = list(n.exprs) if n.kind != "stmt" else [n.stmt]
    for r in roots:
      if any(y is astnode for y in ast.walk(r)):
        out |= self.expr_facts(r, astnode, mapping)
    return out

  def holds(self, astnode, cond, pol=True, start=None, mapping=None):
    """`cond` (an ast test, or an already canonical atom text) has truth value `pol` whenever
    astnode is evaluated."""
    key = (cond, pol) if isinstance(cond, str) else self.atom(cond, pol, mapping)
    return key in self.facts_at(astnode, start, mapping)

  # ------------------------------------------------------------------ loops
  def loop_head(self, loop):
    for n in self.cfg.nodes:
      if n.stmt is loop and n.kind in ("for", "while"):
        return n.id
    raise AnalysisError("%s: loop has no CFG node" % self.fn.qualname)

  def loop_map(self, loop, prefix="_v"):
    """Placeholder mapping for the variables of a for loop (by position in the target)."""
    return LoopMap(target_map(loop.target, prefix), self.loop_head(loop))

  def enclosing_loops(self, astnode):
    st = astnode if isinstance(astnode, ast.stmt) else self.node_of(astnode).stmt
    return [s for (s, fld) in enclosing_chain(self.node, st)
            if isinstance(s, (ast.For, ast.While)) and fld == "body"]

  def runs_for_all(self, loop, astnode):
    """The statement/expression `astnode` inside `loop` is evaluated in every iteration and the
    loop cannot stop early: no guard between the loop head and it, no break/return in the body."""
    n = self.node_of(astnode)
    head = self.loop_head(loop)
    if any(isinstance(z, (ast.Break, ast.Return)) for b in loop.body for z in walk_no_nested(b)):
      return False
    # every path from the head back to the head (or out through the body) passes the node
    body_first = {s for s in self.cfg.succ[head]
                  if self.cfg.nodes[s].stmt is not None and
                  any(self.cfg.nodes[s].stmt is y or any(z is self.cfg.nodes[s].stmt
                                                         for z in ast.walk(y))
                      for y in loop.body)}
    if not body_first:
      return False
    r = self.cfg.reach(body_first, removed={n.id})
    return head not in r and self.cfg.exit.id not in r

  # ------------------------------------------------------------------ collections
  def collection(self, expr):
    """Normal form of a container built from one iteration, whether it is written as a
    comprehension or as `c = {}` / `[]` / `set()` followed by one loop that fills it:
      Coll(kind, key, value, iter, conds, mapping)   texts use positional loop placeholders.
    None when `expr` is not such a container; AnalysisError when it is filled in a way that
    cannot be related to a single iteration."""
    e = expr
    name = None
    at = self.point_of(expr)
    if isinstance(e, ast.Name):
      name = e.id
      e2, at2 = self.resolve(e, at=at)
      if e2 is e:
        # filled in place after an empty initialisation: the name has one plain binding
        sites = [nid for nid, names in self._gens().items() if name in names]
        v = self._plain_value(name, sites[0]) if len(sites) == 1 and name not in self.params \
            else None
        if v is None or _empty_container(v) is None:
          return None
        return self._loop_coll(name, _empty_container(v), v)
      e, at = e2, at2
      if _empty_container(e) is not None and isinstance(expr, ast.Name):
        return self._loop_coll(expr.id, _empty_container(e), e)
    if isinstance(e, ast.Call) and dotted(e.func) in ("set", "list", "dict", "OrderedDict",
                                                      "tuple", "frozenset") and \
        len(e.args) == 1 and not e.keywords and \
        isinstance(e.args[0], (ast.GeneratorExp, ast.ListComp)):
      kind = {"set": "set", "frozenset": "set", "list": "list", "tuple": "list"}.get(
        dotted(e.func), "dict")
      g = e.args[0]
      if kind == "dict":
        if not (isinstance(g.elt, ast.Tuple) and len(g.elt.elts) == 2):
          return None
        return self._comp_coll("dict", g.elt.elts[0], g.elt.elts[1], g.generators, e, at)
      return self._comp_coll(kind, None, g.elt, g.generators, e, at)
    if isinstance(e, ast.DictComp):
      return self._comp_coll("dict", e.key, e.value, e.generators, e, at)
    if isinstance(e, (ast.ListComp, ast.SetComp, ast.GeneratorExp)):
      kind = "set" if isinstance(e, ast.SetComp) else "list"
      return self._comp_coll(kind, None, e.elt, e.generators, e, at)
    return None

  def _comp_coll(self, kind, key, value, gens, node, at):
    if len(gens) != 1 or gens[0].is_async:
      raise AnalysisError("%s: comprehension with nested generators: %s"
                          % (self.fn.qualname, short(node)))
    g = gens[0]
    tm = target_map(g.target)
    own = set(tm)
    conds = set()
    for c in g.ifs:
      conds |= self.test_facts(c, True, tm, at=at, bound=own)
    return Coll(kind, self._ct(key, tm, at, own) if key is not None else None,
                self._ct(value, tm, at, own), g.iter, self._ct(g.iter, None, at, ()), conds, tm,
                node, None)

  def _ct(self, e, tm, at, own):
    """text of a comprehension part: the comprehension's own variables shadow locals"""
    ex = self.x(e, at=at, bound=own)
    if tm:
      ex = _Renamer(_versioned(tm)).visit(ex)
    return text(ex)

  def _loop_coll(self, name, kind, init):
    muts = sorted(self.du.muts.get(name, set()))
    fills = []
    for nid in muts:
      n = self.cfg.nodes[nid]
      s = n.stmt
      if isinstance(s, ast.Assign) and len(s.targets) == 1 and \
          isinstance(s.targets[0], ast.Subscript) and isinstance(s.targets[0].value, ast.Name) and \
          s.targets[0].value.id == name and kind == "dict":
        fills.append((n, s.targets[0].slice, s.value))
        continue
      c = s.value if isinstance(s, ast.Expr) else None
      if isinstance(c, ast.Call) and isinstance(c.func, ast.Attribute) and \
          isinstance(c.func.value, ast.Name) and c.func.value.id == name and len(c.args) == 1 and \
          not c.keywords and ((kind == "list" and c.func.attr == "append") or
                              (kind == "set" and c.func.attr == "add")):
        fills.append((n, None, c.args[0]))
        continue
      raise AnalysisError("%s: %s is filled by a statement outside the supported idioms: %s"
                          % (self.fn.qualname, name, short(s)))
    if len(fills) != 1:
      raise AnalysisError("%s: %s is filled incrementally by %d statements; cannot relate it to "
                          "one iteration" % (self.fn.qualname, name, len(fills)))
    n, key, value = fills[0]
    loops = self.enclosing_loops(n.stmt)
    if len(loops) != 1 or not isinstance(loops[0], ast.For) or loops[0].orelse:
      raise AnalysisError("%s: %s is filled incrementally (not inside exactly one for loop); "
                          "cannot relate it to one iteration" % (self.fn.qualname, name))
    lp = loops[0]
    for y in lp.body:
      for z in walk_no_nested(y):
        if isinstance(z, (ast.Break, ast.Return)):
          raise AnalysisError("%s: the loop filling %s can stop early" % (self.fn.qualname, name))
    tm = self.loop_map(lp)
    conds = self.cfg_facts(n.id, start=tm.head, mapping=tm)
    return Coll(kind, self.t(key, tm) if key is not None else None, self.t(value, tm),
                lp.iter, self.t(lp.iter), conds, tm, init, lp)


def canon_atom(cond_text, pol=True):
  """Canonical (text, polarity) of a condition given as source text (no locals are expanded):
  the same folding of not / != / `is not` / `not in` and operand ordering View.atom applies."""
  e = ast.parse(cond_text, mode="eval").body
  while isinstance(e, ast.UnaryOp) and isinstance(e.op, ast.Not):
    e, pol = e.operand, not pol
  if isinstance(e, ast.Compare) and len(e.ops) == 1:
    op = type(e.ops[0])
    if op in _FLIP:
      op, pol = _FLIP[op], not pol
    l, r = text(e.left), text(e.comparators[0])
    if op in (ast.Eq, ast.Is) and r < l:
      l, r = r, l
    if op in (ast.Gt, ast.GtE):
      op = ast.Lt if op is ast.Gt else ast.LtE
      l, r = r, l
    return ("%s %s %s" % (l, _OPNAME.get(op, op.__name__), r), pol)
  return (text(e), pol)


def in_consts(atom_text):
  """('x', ('a', 'b')) for the canonical atom text "x in ('a', 'b')"; None otherwise."""
  try:
    e = ast.parse(atom_text, mode="eval").body
  except SyntaxError:
    return None
  if isinstance(e, ast.Compare) and len(e.ops) == 1 and isinstance(e.ops[0], ast.In) and \
      isinstance(e.comparators[0], (ast.Tuple, ast.List, ast.Set)) and \
      all(isinstance(x, ast.Constant) for x in e.comparators[0].elts):
    return text(e.left), tuple(x.value for x in e.comparators[0].elts)
  return None


def flags_known_at(view, nid):
  """{local: bool} for locals every binding of which that reaches node nid is a plain assignment
  of the same boolean constant."""
  out = {}
  for name, defs in view._reaching().get(nid, {}).items():
    vals = set()
    for d in defs:
      v = view._plain_value(name, d) if d != view.ENTRY else None
      if isinstance(v, ast.Constant) and isinstance(v.value, bool):
        vals.add(v.value)
      else:
        vals.add(None)
    if len(vals) == 1 and None not in vals:
      out[name] = next(iter(vals))
  return out


def flag_path(cfg, start, targets, stops, after=True, known=None):
  """A path from `start` (from just after it when after=True) to one of `stops` that avoids
  `targets`, where an `if` testing a boolean flag -- a local that was assigned the constant True
  or False on the way and not reassigned since -- only takes the branch that value selects. None
  when every path passes a target. A plain path search would report the impossible path
  `found = True ... if not found: raise`."""
  from collections import deque

  def value(test, known):
    if isinstance(test, ast.Name):
      return known.get(test.id)
    if isinstance(test, ast.UnaryOp) and isinstance(test.op, ast.Not):
      x = value(test.operand, known)
      return None if x is None else (not x)
    return None

  def step(nid, known):
    node = cfg.nodes[nid]
    s = node.stmt
    k2 = known
    if node.kind == "stmt" and isinstance(s, ast.Assign) and len(s.targets) == 1 and \
        isinstance(s.targets[0], ast.Name):
      nm = s.targets[0].id
      k2 = dict(known)
      if isinstance(s.value, ast.Constant) and isinstance(s.value.value, bool):
        k2[nm] = s.value.value
      else:
        k2.pop(nm, None)
    elif node.kind in ("stmt", "for", "with") and s is not None:
      bound = stmt_defs_plain(s) if node.kind == "stmt" else \
          {y.id for y in ast.walk(s.target) if isinstance(y, ast.Name)} if node.kind == "for" \
          else set()
      if bound & set(known):
        k2 = {k: v for k, v in known.items() if k not in bound}
    succs = set(cfg.normal_succ(nid))
    if node.kind == "if" and nid in cfg.if_true:
      t_succ = set(cfg.if_true[nid]) & succs
      f_succ = succs - set(cfg.if_true[nid])
      verdict = value(s.test, k2)
      if verdict is True:
        succs = t_succ
      elif verdict is False:
        succs = f_succ
    return succs, k2

  def freeze(k):
    return tuple(sorted(k.items()))

  known0 = dict(known or {})
  init = (start, freeze(known0))
  prev = {init: None}
  dq = deque()
  if not after and start in stops:
    return [start]
  dq.append((init, known0))
  while dq:
    cur, known = dq.popleft()
    nid = cur[0]
    succs, k2 = step(nid, known)
    for t in succs:
      if t in targets:
        continue
      nxt = (t, freeze(k2))
      if nxt in prev:
        continue
      prev[nxt] = cur
      if t in stops:
        path = [t]
        p = cur
        while p is not None:
          path.append(p[0])
          p = prev[p]
        return list(reversed(path))
      dq.append((nxt, k2))
  return None


def eq_const(atom_text):
  """('x', 'years') for the canonical atom text "'years' == x" (either order); None otherwise."""
  try:
    e = ast.parse(atom_text, mode="eval").body
  except SyntaxError:
    return None
  if isinstance(e, ast.Compare) and len(e.ops) == 1 and isinstance(e.ops[0], ast.Eq):
    l, r = e.left, e.comparators[0]
    if isinstance(l, ast.Constant) and not isinstance(r, ast.Constant):
      return text(r), l.value
    if isinstance(r, ast.Constant) and not isinstance(l, ast.Constant):
      return text(l), r.value
  return None


class _Replace(ast.NodeTransformer):
  """Replace loads of one name by an expression."""
  def __init__(self, name, expr):
    self.name = name
    self.expr = expr

  def visit_Name(self, n):
    if n.id == self.name and isinstance(n.ctx, ast.Load):
      return copy.deepcopy(self.expr)
    return n


class LoopMap(dict):
  """{loop variable: placeholder} plus the CFG node of the loop head that binds them."""
  def __init__(self, mapping, head):
    dict.__init__(self, mapping)
    self.head = head


def _versioned(mapping):
  """A placeholder mapping also applies to the versioned spelling `name@<head>` of its names."""
  head = getattr(mapping, "head", None)
  if head is None:
    return mapping
  out = dict(mapping)
  for k, v in mapping.items():
    out["%s@%d" % (k, head)] = v
  return out


def _mkey(mapping):
  if not mapping:
    return None
  return (tuple(sorted(mapping.items())), getattr(mapping, "head", None))


def stmt_defs_plain(s):
  """Names bound by a simple statement itself (targets, imports), not by comprehensions in it."""
  out = set()
  if isinstance(s, ast.Assign):
    for t in s.targets:
      out |= {y.id for y in ast.walk(t) if isinstance(y, ast.Name) and
              isinstance(y.ctx, ast.Store)}
  elif isinstance(s, (ast.AugAssign, ast.AnnAssign)):
    out |= {y.id for y in ast.walk(s.target) if isinstance(y, ast.Name) and
            isinstance(y.ctx, ast.Store)}
  elif isinstance(s, (ast.Import, ast.ImportFrom)):
    for a in s.names:
      out.add((a.asname or a.name).split(".")[0])
  return out


class Coll(object):
  """Normal form of a container built from one iteration (see View.collection)."""
  def __init__(self, kind, key, value, iter_expr, iter_text, conds, mapping, node, loop):
    self.kind = kind
    self.key = key
    self.value = value
    self.iter = iter_expr
    self.iter_text = iter_text
    self.conds = frozenset(conds)
    self.mapping = mapping
    self.node = node
    self.loop = loop


_ACCESSORS = ("get", "setdefault", "__getitem__")


def _allocates(v):
  """The expression creates a new object each time it is evaluated (as opposed to reaching an
  existing one through attributes, subscripts or dict accessors)."""
  if isinstance(v, (ast.Dict, ast.List, ast.Set, ast.ListComp, ast.SetComp, ast.DictComp,
                    ast.GeneratorExp, ast.Tuple, ast.BinOp, ast.JoinedStr)):
    return True
  if isinstance(v, ast.Call):
    if isinstance(v.func, ast.Attribute) and v.func.attr in _ACCESSORS:
      return False
    return True
  return False


def _empty_container(e):
  if isinstance(e, ast.Dict) and not e.keys:
    return "dict"
  if isinstance(e, ast.List) and not e.elts:
    return "list"
  if isinstance(e, ast.Call) and not e.args and not e.keywords:
    d = dotted(e.func)
    if d in ("dict", "OrderedDict", "collections.OrderedDict"):
      return "dict"
    if d == "list":
      return "list"
    if d == "set":
      return "set"
  return None


def _direct_defs(fnode):
  out = []
  def walk(stmts):
    for s in stmts:
      if isinstance(s, (ast.FunctionDef, ast.AsyncFunctionDef, ast.ClassDef)):
        out.append(s)
        continue
      for fld in ("body", "orelse", "finalbody"):
        b = getattr(s, fld, None)
        if isinstance(b, list) and b and isinstance(b[0], ast.stmt):
          walk(b)
      for h in getattr(s, "handlers", []) or []:
        walk(h.body)
  walk(fnode.body)
  return out


# ======================================================================== decision arms

class Arm(object):
  """One path through a loop-free function: the conditions taken and how it ends."""
  def __init__(self, conds, kind, value, stmt):
    self.conds = conds        # [(test expr with earlier assignments substituted, polarity)]
    self.kind = kind          # 'return' | 'raise' | 'fall'
    self.value = value        # returned / raised expression (substituted), None for bare/fall
    self.stmt = stmt

  def facts(self, view, mapping=None):
    out = set()
    for (t, pol) in self.conds:
      for (e, p) in _G.facts(t, pol):
        out.add(view.atom(e, p, mapping))
    return out


def _subst(e, env):
  if e is None or not env:
    return e

  class T(ast.NodeTransformer):
    def __init__(self, bound):
      self.bound = bound

    def visit_Name(self, n):
      if isinstance(n.ctx, ast.Load) and n.id in env and n.id not in self.bound:
        return copy.deepcopy(env[n.id])
      return n

    def _comp(self, n):
      b = set(self.bound)
      for g in n.generators:
        for y in ast.walk(g.target):
          if isinstance(y, ast.Name):
            b.add(y.id)
      return T(b).generic_visit(n)

    visit_ListComp = visit_SetComp = visit_DictComp = visit_GeneratorExp = _comp

    def visit_Lambda(self, n):
      return T(set(self.bound) | {a.arg for a in n.args.args}).generic_visit(n)

  return T(set()).visit(copy.deepcopy(e))


def decision_arms(fnode, limit=400, never_returns=None):
  """Every path of a function whose body consists of assignments, expression statements,
  if/elif/else, return and raise (conditional expressions in returned values are split into
  paths as well), as a list of Arm. Local assignments are substituted into later conditions and
  results, so `x = f(a); return x` and `return f(a)` give the same arm. AnalysisError for loops,
  try and with on a path that is still open."""
  arms = []

  def emit_value(conds, v, stmt, kind):
    if isinstance(v, ast.IfExp):
      emit_value(conds + [(v.test, True)], v.body, stmt, kind)
      emit_value(conds + [(v.test, False)], v.orelse, stmt, kind)
      return
    arms.append(Arm(list(conds), kind, v, stmt))
    if len(arms) > limit:
      raise AnalysisError("%s: too many paths" % fnode.name)

  def go(stmts, states):
    """states: [(conds, env)] open at the start of stmts -> open states after them"""
    for s in stmts:
      if not states:
        return []
      nxt = []
      for (conds, env) in states:
        if isinstance(s, ast.Expr) and never_returns is not None and \
            isinstance(s.value, ast.Call) and never_returns(s.value):
          # a call that always raises ends the path
          arms.append(Arm(list(conds), "raise", _subst(s.value, env), s))
        elif isinstance(s, ast.Expr):
          nxt.append((conds, env))
        elif isinstance(s, (ast.Pass, ast.Import, ast.ImportFrom, ast.Global, ast.Nonlocal,
                            ast.FunctionDef, ast.ClassDef, ast.Assert, ast.Delete)):
          nxt.append((conds, env))
        elif isinstance(s, ast.Assign):
          env2 = dict(env)
          val = _subst(s.value, env)
          for t in s.targets:
            if isinstance(t, ast.Name):
              env2[t.id] = val
            else:
              for y in ast.walk(t):
                if isinstance(y, ast.Name) and isinstance(y.ctx, ast.Store):
                  env2.pop(y.id, None)
          nxt.append((conds, env2))
        elif isinstance(s, ast.AnnAssign):
          env2 = dict(env)
          if isinstance(s.target, ast.Name) and s.value is not None:
            env2[s.target.id] = _subst(s.value, env)
          nxt.append((conds, env2))
        elif isinstance(s, ast.AugAssign):
          env2 = dict(env)
          if isinstance(s.target, ast.Name):
            cur = env.get(s.target.id, ast.Name(id=s.target.id, ctx=ast.Load()))
            env2[s.target.id] = ast.BinOp(left=copy.deepcopy(cur), op=s.op,
                                          right=_subst(s.value, env))
          nxt.append((conds, env2))
        elif isinstance(s, ast.If):
          t = _subst(s.test, env)
          nxt.extend(go(s.body, [(conds + [(t, True)], dict(env))]))
          nxt.extend(go(s.orelse, [(conds + [(t, False)], dict(env))]))
        elif isinstance(s, ast.Return):
          emit_value(conds, _subst(s.value, env), s, "return")
        elif isinstance(s, ast.Raise):
          arms.append(Arm(list(conds), "raise", _subst(s.exc, env), s))
        else:
          raise AnalysisError("%s: statement outside the decision subset: %s"
                              % (fnode.name, short(s)))
      states = nxt
      if len(states) > limit:
        raise AnalysisError("%s: too many paths" % fnode.name)
    return states

  for (conds, env) in go(fnode.body, [([], {})]):
    arms.append(Arm(list(conds), "fall", None, None))
  return arms


# ======================================================================== helper inlining

def _always_exits(stmts):
  """The block cannot fall through (ends in return/raise on every path)."""
  if not stmts:
    return False
  last = stmts[-1]
  if isinstance(last, (ast.Return, ast.Raise)):
    return True
  if isinstance(last, ast.If) and last.orelse:
    return _always_exits(last.body) and _always_exits(last.orelse)
  return False


def _structure_returns(stmts, cont=None, budget=None):
  """Rewrite a helper body so that every `return` is the last thing on its path: what follows a
  statement that may return is moved (duplicated) into the branches that fall through --
  `if c: return A` + REST becomes `if c: return A / else: REST`; `try: B except E: return None`
  + REST becomes `try: B / except E: return None / else: REST`. Every path of the result ends
  in a Return (a path that falls off the end gets `return None`). None when a return sits
  inside a loop, a with block, a try body or a finally block, or the result would get too big."""
  if budget is None:
    budget = [120]
  if cont is None:
    cont = [ast.Return(value=ast.Constant(value=None))]

  def spend(n=1):
    budget[0] -= n
    return budget[0] >= 0

  out = []
  for i, s in enumerate(stmts):
    rest = stmts[i + 1:]
    if isinstance(s, ast.Return):
      if not spend():
        return None
      out.append(s)
      return out
    if isinstance(s, ast.Raise):
      if not spend():
        return None
      out.append(s)
      return out
    if isinstance(s, ast.If) and _has_return(s):
      rc = _structure_returns(rest, cont, budget)
      if rc is None:
        return None
      body = _structure_returns(s.body, rc, budget)
      orelse = _structure_returns(s.orelse, rc, budget)
      if body is None or orelse is None or not spend():
        return None
      out.append(ast.copy_location(ast.If(test=s.test, body=body, orelse=orelse), s))
      return out
    if isinstance(s, ast.Try) and _has_return(s):
      if any(_has_return(b) for b in s.body) or any(_has_return(b) for b in s.finalbody):
        return None
      rc = _structure_returns(rest, cont, budget)
      if rc is None:
        return None
      handlers = []
      for h in s.handlers:
        hb = _structure_returns(h.body, rc, budget)
        if hb is None:
          return None
        h2 = copy.copy(h)
        h2.body = hb
        handlers.append(h2)
      orelse = _structure_returns(s.orelse, rc, budget)
      if orelse is None or not spend():
        return None
      t2 = copy.copy(s)
      t2.handlers = handlers
      t2.orelse = orelse
      out.append(t2)
      return out
    if _has_return(s):
      return None          # a return inside a loop / with block
    if not spend():
      return None
    out.append(s)
  return out + list(cont)


def _has_return(s):
  return any(isinstance(x, ast.Return) for x in walk_no_nested(s))


def _inlinable(fi):
  n = fi.node
  if n.decorator_list and not all(dotted(d) in ("staticmethod", "classmethod")
                                  for d in n.decorator_list):
    return None
  a = n.args
  if a.vararg or a.kwarg or a.kwonlyargs or a.posonlyargs:
    return None
  for x in walk_no_nested(n):
    if isinstance(x, (ast.Yield, ast.YieldFrom, ast.Global, ast.Nonlocal, ast.Await)):
      return None
    if x is not n and isinstance(x, (ast.FunctionDef, ast.AsyncFunctionDef, ast.ClassDef)):
      return None
  if _direct_defs(n):
    return None
  body = [s for s in n.body if not (isinstance(s, ast.Expr) and isinstance(s.value, ast.Constant))]
  body = _structure_returns(body)
  return body


class _Inliner(object):
  def __init__(self, world, fi, keep, depth):
    self.world = world
    self.fi = fi
    self.keep = set(keep)
    self.depth = depth
    self.counter = [0]
    self.changed = False
    self.inlined = set()

  def callee(self, call, stack):
    f = call.func
    fi = None
    is_method = False
    if isinstance(f, ast.Attribute) and isinstance(f.value, ast.Name) and \
        f.value.id in ("self", "cls") and self.fi.cls is not None:
      fi = self.fi.cls.methods.get(f.attr)
      is_method = True
    elif isinstance(f, ast.Name):
      fi = self.fi.module.functions.get(f.id)
      top = self.fi
      while top.parent is not None:
        top = top.parent
      # a local of the same name shadows the module function
      if fi is not None and any(isinstance(y, ast.Name) and y.id == f.id and
                                isinstance(y.ctx, ast.Store) for y in ast.walk(top.node)):
        fi = None
    if fi is None or not fi.name.startswith("_") or fi.name.startswith("__"):
      return None
    if fi.name in self.keep or fi.qualname in stack or fi is self.fi:
      return None
    if fi.module.name == "useractions":
      try:
        if any(fi is a for a in role_anchors(self.world).values()):
          return None          # an anchor of the rules, whatever it is called today
      except AnalysisError:
        pass
    return fi, is_method

  def instantiate(self, fi, is_method, call, body, how, targets):
    """Statements replacing the call: parameters bound to fresh locals, helper locals renamed,
    returns turned into `how` ('assign' to targets / 'return' / 'expr')."""
    self.counter[0] += 1
    suffix = "__h%d" % self.counter[0]
    params = fi.params()
    decs = {dotted(d) for d in fi.node.decorator_list}
    recv = None
    if is_method and "staticmethod" not in decs:
      recv, params = params[0], params[1:]
    a = fi.node.args
    names = [x.arg for x in a.args]
    defaults = dict(zip(names[len(names) - len(a.defaults):], a.defaults))
    bound = bind_args(call, params)
    if bound is None:
      return None
    for p in params:
      if p not in bound:
        if p not in defaults:
          return None
        bound[p] = defaults[p]
    locals_ = set(params)
    for s in body:
      for y in walk_no_nested(s):
        if isinstance(y, ast.Name) and isinstance(y.ctx, (ast.Store, ast.Del)):
          locals_.add(y.id)
    ren = {n: n + suffix for n in locals_}
    if recv is not None:
      ren[recv] = call.func.value.id

    class R(ast.NodeTransformer):
      def visit_Name(self, n):
        if n.id in ren:
          return ast.copy_location(ast.Name(id=ren[n.id], ctx=n.ctx), n)
        return n

    out = []
    for p in params:
      st = ast.Assign(targets=[ast.Name(id=ren[p], ctx=ast.Store())],
                      value=copy.deepcopy(bound[p]), lineno=call.lineno, col_offset=0)
      out.append(ast.fix_missing_locations(ast.copy_location(st, call)))

    def conv(stmts):
      res = []
      for s in stmts:
        if isinstance(s, ast.Return):
          v = R().visit(copy.deepcopy(s.value)) if s.value is not None else None
          if how == "return":
            res.append(ast.copy_location(ast.Return(value=v), call))
          elif how == "assign":
            vv = v if v is not None else ast.Constant(value=None)
            res.append(ast.copy_location(
              ast.Assign(targets=[copy.deepcopy(t) for t in targets], value=vv,
                         lineno=call.lineno), call))
          else:
            if v is not None and not isinstance(v, (ast.Constant, ast.Name)):
              res.append(ast.copy_location(ast.Expr(value=v), call))
            else:
              res.append(ast.copy_location(ast.Pass(), call))
        elif isinstance(s, ast.If):
          s2 = ast.If(test=R().visit(copy.deepcopy(s.test)), body=conv(s.body) or
                      [ast.copy_location(ast.Pass(), s)], orelse=conv(s.orelse))
          res.append(ast.copy_location(s2, s))
        elif isinstance(s, ast.Try) and _has_return(s):
          hs = []
          for h in s.handlers:
            h2 = ast.ExceptHandler(type=R().visit(copy.deepcopy(h.type)) if h.type else None,
                                   name=ren.get(h.name, h.name) if h.name else None,
                                   body=conv(h.body) or [ast.copy_location(ast.Pass(), s)])
            hs.append(ast.copy_location(h2, h))
          s2 = ast.Try(body=[R().visit(copy.deepcopy(b)) for b in s.body], handlers=hs,
                       orelse=conv(s.orelse),
                       finalbody=[R().visit(copy.deepcopy(b)) for b in s.finalbody])
          res.append(ast.copy_location(s2, s))
        else:
          res.append(R().visit(copy.deepcopy(s)))
      return res

    out.extend(conv(body))
    for s in out:
      ast.fix_missing_locations(s)
    return out

  def block(self, stmts, stack, depth):
    out = []
    for s in stmts:
      rep = self.stmt(s, stack, depth)
      out.extend(rep)
    return out

  def stmt(self, s, stack, depth):
    call, how, targets = None, None, None
    if isinstance(s, ast.Expr) and isinstance(s.value, ast.Call):
      call, how = s.value, "expr"
    elif isinstance(s, ast.Assign) and isinstance(s.value, ast.Call):
      call, how, targets = s.value, "assign", s.targets
    elif isinstance(s, ast.Return) and isinstance(s.value, ast.Call):
      call, how = s.value, "return"
    if call is not None and depth > 0:
      r = self.callee(call, stack)
      if r is not None:
        fi, is_method = r
        body = _inlinable(fi)
        if body is not None:
          rep = self.instantiate(fi, is_method, call, body, how, targets)
          if rep is not None:
            self.changed = True
            self.inlined.add(fi.qualname)
            sub = _Inliner(self.world, fi, self.keep, depth - 1)
            sub.counter = self.counter
            sub.inlined = self.inlined
            # helpers called by the helper (one more level)
            return sub.block(rep, stack | {fi.qualname}, depth - 1)
    # a helper called inside an expression that is evaluated unconditionally: its body is placed
    # before the statement and its result takes the place of the call
    if depth > 0 and isinstance(s, (ast.Expr, ast.Assign, ast.AugAssign, ast.Return, ast.If,
                                    ast.For)):
      root = s.value if isinstance(s, (ast.Expr, ast.Assign, ast.AugAssign, ast.Return)) else \
          (s.test if isinstance(s, ast.If) else s.iter)
      if root is not None:
        for c in _unconditional_calls(root):
          if c is call:
            continue
          r = self.callee(c, stack)
          if r is None:
            continue
          fi, is_method = r
          body = _inlinable(fi)
          if body is None:
            continue
          self.counter[0] += 1
          tmp = ast.Name(id="ret__h%d" % self.counter[0], ctx=ast.Store())
          rep = self.instantiate(fi, is_method, c, body, "assign", [tmp])
          if rep is None:
            continue
          self.changed = True
          self.inlined.add(fi.qualname)
          sub = _Inliner(self.world, fi, self.keep, depth - 1)
          sub.counter = self.counter
          sub.inlined = self.inlined
          pre = sub.block(rep, stack | {fi.qualname}, depth - 1)
          use = ast.copy_location(ast.Name(id=tmp.id, ctx=ast.Load()), c)
          s2 = _replace_node(s, c, use)
          return pre + self.stmt(s2, stack, depth)
    # recurse into compound statements, sharing untouched sub-statements
    if isinstance(s, (ast.FunctionDef, ast.AsyncFunctionDef, ast.ClassDef)):
      return [s]
    new_fields = {}
    for fld in ("body", "orelse", "finalbody"):
      b = getattr(s, fld, None)
      if isinstance(b, list) and b and isinstance(b[0], ast.stmt):
        nb = self.block(b, stack, depth)
        if len(nb) != len(b) or any(x is not y for x, y in zip(nb, b)):
          new_fields[fld] = nb
    handlers = getattr(s, "handlers", None)
    if handlers:
      nh = []
      ch = False
      for h in handlers:
        nb = self.block(h.body, stack, depth)
        if len(nb) != len(h.body) or any(x is not y for x, y in zip(nb, h.body)):
          h2 = copy.copy(h)
          h2.body = nb
          nh.append(h2)
          ch = True
        else:
          nh.append(h)
      if ch:
        new_fields["handlers"] = nh
    if new_fields:
      s2 = copy.copy(s)
      for k, v in new_fields.items():
        setattr(s2, k, v)
      return [s2]
    return [s]


def _unconditional_calls(root):
  """Call nodes inside expression `root` that are evaluated whenever root is: not behind and/or,
  a conditional expression, a comprehension or a lambda. Innermost (first evaluated) first."""
  out = []

  def go(n):
    if isinstance(n, (ast.BoolOp, ast.IfExp, ast.Lambda, ast.ListComp, ast.SetComp, ast.DictComp,
                      ast.GeneratorExp)):
      if isinstance(n, ast.BoolOp):
        go(n.values[0])
      elif isinstance(n, ast.IfExp):
        go(n.test)
      elif isinstance(n, (ast.ListComp, ast.SetComp, ast.DictComp, ast.GeneratorExp)):
        go(n.generators[0].iter)
      return
    for ch in ast.iter_child_nodes(n):
      go(ch)
    if isinstance(n, ast.Call):
      out.append(n)

  go(root)
  return out


def _replace_node(root, target, new):
  """Copy of `root` in which node `target` is replaced by `new`; only the ancestors of target
  are copied, everything else is shared."""
  if root is target:
    return new
  for fld, val in ast.iter_fields(root):
    if isinstance(val, ast.AST):
      if any(y is target for y in ast.walk(val)):
        r2 = copy.copy(root)
        setattr(r2, fld, _replace_node(val, target, new))
        return r2
    elif isinstance(val, list):
      for i, x in enumerate(val):
        if isinstance(x, ast.AST) and any(y is target for y in ast.walk(x)):
          r2 = copy.copy(root)
          lst = list(val)
          lst[i] = _replace_node(x, target, new)
          setattr(r2, fld, lst)
          return r2
  return root


def expand_helpers(world, fi, keep=(), depth=2):
  """FuncInfo whose body has the private helpers of the same class / module inlined at their
  statement-level call sites (`self._h(..)`, `x = self._h(..)`, `return _h(..)`), parameters
  bound to fresh `<param>__hN` locals. Statements that are not touched are shared with the
  original tree (node identity is kept). Helpers that cannot be inlined faithfully (generators,
  returns inside loops, nested defs, * / ** parameters) are left as calls. The original fi is
  returned when nothing was inlined."""
  from ..index import FuncInfo
  inl = _Inliner(world, fi, keep, depth)
  body = inl.block(fi.node.body, {fi.qualname}, depth)
  if not inl.changed:
    return fi
  node = copy.copy(fi.node)
  node.body = body
  out = FuncInfo(fi.module, fi.cls, node, fi.qualname, fi.parent)
  out.expanded_from = fi
  out.inlined = set(inl.inlined)
  return out


_XFN_CACHE = {}


def xfn(world, qualname, keep=(), depth=2):
  """Fn of `qualname` with helpers inlined (see expand_helpers); cached per World."""
  from ..fn import Fn
  key = (id(world), qualname, tuple(sorted(keep)), depth)
  if key not in _XFN_CACHE:
    fi = world.repo.func(qualname)
    try:
      fi2 = expand_helpers(world, fi, keep, depth)
    except RecursionError:
      fi2 = fi
    _XFN_CACHE[key] = world.fn_of(fi) if fi2 is fi else Fn(world, fi2)
    _XFN_CACHE[(key, "w")] = world      # keep the world alive so that id() stays unique
  return _XFN_CACHE[key]
