"""
Shared helpers for the rule modules C16, C17, C21, C33, C35, C36, C38.

Pure syntax over `ast` plus the standard library's own `re._parser`; nothing from the repository
is imported or executed here.

  ntext / target_map        alpha-normalised text of an expression (loop variables -> positions)
  ConstEval                 evaluator for module-level *constant* expressions (literals, % and +
                            on strings, tuples/lists/dicts/sets, dict(zip(..)), re.compile(..))
  CharSet + regex helpers   code-point sets; `re._parser` trees -> char sets, group tables
  RenameSite                the "rename funnel" analysis shared by C16 and C17
"""
import ast
import copy
import re
try:                                    # Python 3.11+
  import re._parser as sre_parse
  import re._constants as sre_c
except ImportError:                     # pragma: no cover
  import sre_parse
  import sre_constants as sre_c

from ..index import AnalysisError, dotted
from ..astutil import text, short, endswith, calls_in, walk_no_nested, enclosing_chain
from ..dataflow import DefUse
from .. import events as E


# ======================================================================== alpha-normalised text

class _Renamer(ast.NodeTransformer):
  def __init__(self, mapping):
    self.mapping = mapping

  def visit_Name(self, node):
    if node.id in self.mapping:
      return ast.copy_location(ast.Name(id=self.mapping[node.id], ctx=node.ctx), node)
    return node


def ntext(node, mapping):
  """ast.unparse of `node` with the names of `mapping` replaced (positional placeholders)."""
  if node is None:
    return None
  return text(_Renamer(mapping).visit(copy.deepcopy(node)))


def target_map(target, prefix="_v"):
  """{name: placeholder} for the names bound by a for/comprehension target, by position."""
  out = {}
  def go(t, path):
    if isinstance(t, ast.Name):
      out[t.id] = prefix + "_".join(str(i) for i in path)
    elif isinstance(t, (ast.Tuple, ast.List)):
      for i, e in enumerate(t.elts):
        go(e, path + [i])
    else:
      raise AnalysisError("loop target outside the supported subset: %s" % text(t))
  go(target, [0])
  return out


def enclosing_ifs_within(fnode, stmt, loop):
  """Tests of the `if` statements that enclose `stmt` inside `loop` (all must be if-bodies)."""
  chain = enclosing_chain(fnode, stmt)
  idx = None
  for i, (s, fld) in enumerate(chain):
    if s is loop:
      idx = i
  if idx is None:
    raise AnalysisError("statement is not inside the expected loop")
  tests = []
  for (s, fld) in chain[idx + 1:]:
    if isinstance(s, ast.If) and fld == "body":
      tests.append(s.test)
    elif isinstance(s, ast.With):
      continue
    else:
      raise AnalysisError("emission sits under an unsupported construct (%s/%s)"
                          % (s.__class__.__name__, fld))
  return tests


def innermost_loop(fnode, stmt):
  chain = enclosing_chain(fnode, stmt)
  loops = [s for (s, fld) in chain if isinstance(s, ast.For) and fld == "body"]
  return loops[-1] if loops else None


def stmt_of(fnode, node):
  """The innermost statement of fnode that contains ast node `node`."""
  best = None
  for s in ast.walk(fnode):
    if isinstance(s, ast.stmt) and s is not fnode:
      for x in ast.walk(s):
        if x is node:
          if best is None or any(y is s for y in ast.walk(best)):
            best = s
          break
  if best is None:
    raise AnalysisError("node not found in function")
  return best


# ======================================================================== constant evaluation

class Regex(object):
  def __init__(self, pattern, flags):
    self.pattern = pattern
    self.flags = flags

  def __repr__(self):
    return "Regex(%r, %d)" % (self.pattern, self.flags)


_RE_FLAGS = {"I": re.I, "IGNORECASE": re.I, "M": re.M, "MULTILINE": re.M, "S": re.S,
             "DOTALL": re.S, "X": re.X, "VERBOSE": re.X, "A": re.A, "ASCII": re.A,
             "U": re.U, "UNICODE": re.U}

_LIB_CONSTS = {
  # names of the standard library the analysed modules import as constants
  ("string", "ascii_uppercase"): "ABCDEFGHIJKLMNOPQRSTUVWXYZ",
  ("string", "ascii_lowercase"): "abcdefghijklmnopqrstuvwxyz",
  ("string", "digits"): "0123456789",
}


class ConstEval(object):
  """Evaluates module-level constant expressions of one module, never calling repository code.
  Anything outside the subset raises AnalysisError."""
  def __init__(self, module):
    self.module = module
    self._cache = {}
    self._busy = set()
    # names assigned more than once at module level are not constants
    counts = {}
    mutated = set()
    for node in module.tree.body:
      for n in ast.walk(node) if not isinstance(node, (ast.FunctionDef, ast.ClassDef)) else []:
        if isinstance(n, ast.Name) and isinstance(n.ctx, ast.Store):
          counts[n.id] = counts.get(n.id, 0) + 1
        elif isinstance(n, (ast.Subscript, ast.Attribute)) and \
            isinstance(n.ctx, (ast.Store, ast.Del)) and isinstance(n.value, ast.Name):
          mutated.add(n.value.id)
        elif isinstance(n, ast.Expr) and isinstance(n.value, ast.Call) and \
            isinstance(n.value.func, ast.Attribute) and isinstance(n.value.func.value, ast.Name):
          mutated.add(n.value.func.value.id)      # X.update(...), X.append(...) at module level
    self.counts = counts
    self.mutated = mutated

  def name(self, ident):
    if ident in self._cache:
      return self._cache[ident]
    if ident in self._busy:
      raise AnalysisError("%s.%s: cyclic constant" % (self.module.name, ident))
    imp = self.module.imports.get(ident)
    if imp is not None and imp[0] == "name" and (imp[1], imp[2]) in _LIB_CONSTS:
      return _LIB_CONSTS[(imp[1], imp[2])]
    node = self.module.assigns.get(ident)
    if node is None:
      raise AnalysisError("%s.%s: not a module-level constant" % (self.module.name, ident))
    if self.counts.get(ident, 0) != 1:
      raise AnalysisError("%s.%s is assigned %d times at module level; not a constant"
                          % (self.module.name, ident, self.counts.get(ident, 0)))
    if ident in self.mutated:
      raise AnalysisError("%s.%s is filled in place at module level; not a constant"
                          % (self.module.name, ident))
    self._busy.add(ident)
    try:
      v = self.ev(node)
    finally:
      self._busy.discard(ident)
    self._cache[ident] = v
    return v

  def ev(self, n):
    if isinstance(n, ast.Constant):
      return n.value
    if isinstance(n, ast.Name):
      return self.name(n.id)
    if isinstance(n, ast.Tuple):
      return tuple(self.ev(e) for e in n.elts)
    if isinstance(n, ast.List):
      return [self.ev(e) for e in n.elts]
    if isinstance(n, ast.Set):
      return set(self.ev(e) for e in n.elts)
    if isinstance(n, ast.Dict):
      if any(k is None for k in n.keys):
        raise AnalysisError("dict unpacking in a constant: %s" % short(n))
      keys = [self.ev(k) for k in n.keys]
      if len(set(map(repr, keys))) != len(keys):
        raise AnalysisError("duplicate keys in constant dict: %s" % short(n))
      return OrderedPairs([(k, self.ev(v)) for k, v in zip(keys, n.values)])
    if isinstance(n, ast.UnaryOp) and isinstance(n.op, ast.USub):
      v = self.ev(n.operand)
      if isinstance(v, (int, float)):
        return -v
    if isinstance(n, ast.BinOp):
      if isinstance(n.op, ast.Mod):
        l, r = self.ev(n.left), self.ev(n.right)
        if isinstance(l, str) and isinstance(r, (tuple, str, int)):
          return l % r
      if isinstance(n.op, ast.Add):
        l, r = self.ev(n.left), self.ev(n.right)
        if type(l) is type(r) and isinstance(l, (str, tuple, list)):
          return l + r
      if isinstance(n.op, ast.BitOr):
        l, r = self.ev(n.left), self.ev(n.right)
        if isinstance(l, int) and isinstance(r, int):
          return l | r
    if isinstance(n, ast.Attribute):
      d = dotted(n)
      if d is not None:
        head, _, tail = d.partition(".")
        imp = self.module.imports.get(head)
        if imp == ("module", "re") and tail in _RE_FLAGS:
          return int(_RE_FLAGS[tail])
        if imp is not None and imp[0] == "module" and (imp[1], tail) in _LIB_CONSTS:
          return _LIB_CONSTS[(imp[1], tail)]
    if isinstance(n, ast.Call) and not n.keywords:
      d = dotted(n.func)
      if d == "set" and len(n.args) == 1:
        return set(self.ev(n.args[0]))
      if d == "tuple" and len(n.args) == 1:
        return tuple(self.ev(n.args[0]))
      if d == "float" and len(n.args) == 1 and isinstance(n.args[0], ast.Constant) and \
          n.args[0].value in ("inf", "-inf"):
        return float(n.args[0].value)
      if d == "dict" and len(n.args) == 1 and isinstance(n.args[0], ast.Call) and \
          dotted(n.args[0].func) == "zip" and len(n.args[0].args) == 2:
        a, b = (self.ev(x) for x in n.args[0].args)
        return ZipDict(list(a), list(b))
      if d is not None and d.split(".")[-1] == "compile" and \
          self.module.imports.get(d.split(".")[0]) == ("module", "re") and 1 <= len(n.args) <= 2:
        pat = self.ev(n.args[0])
        flags = self.ev(n.args[1]) if len(n.args) == 2 else 0
        if isinstance(pat, str) and isinstance(flags, int):
          return Regex(pat, flags)
    raise AnalysisError("%s: expression outside the constant subset: %s"
                        % (self.module.name, short(n)))


class OrderedPairs(list):
  """A constant dict as an ordered list of (key, value) pairs."""
  def keys(self):
    return [k for k, _ in self]

  def values(self):
    return [v for _, v in self]

  def get(self, key, default=None):
    for k, v in self:
      if k == key and type(k) is type(key):
        return v
    return default


class ZipDict(object):
  """dict(zip(a, b)) kept unevaluated so that length agreement can be an obligation."""
  def __init__(self, a, b):
    self.a = a
    self.b = b

  def pairs(self):
    return OrderedPairs(list(zip(self.a, self.b)))


# ======================================================================== char sets and regexes

MAXCP = 0x10FFFF


class CharSet(object):
  """A set of code points as sorted disjoint closed intervals."""
  __slots__ = ("iv",)

  def __init__(self, intervals=()):
    ivs = sorted((lo, hi) for (lo, hi) in intervals if lo <= hi)
    out = []
    for lo, hi in ivs:
      lo, hi = max(lo, 0), min(hi, MAXCP)
      if out and lo <= out[-1][1] + 1:
        out[-1] = (out[-1][0], max(out[-1][1], hi))
      else:
        out.append((lo, hi))
    self.iv = tuple(out)

  @classmethod
  def of(cls, chars):
    return cls([(ord(c), ord(c)) for c in chars])

  @classmethod
  def rng(cls, a, b):
    return cls([(ord(a), ord(b))])

  @classmethod
  def all(cls):
    return cls([(0, MAXCP)])

  def union(self, o):
    return CharSet(self.iv + o.iv)

  def complement(self):
    out, cur = [], 0
    for lo, hi in self.iv:
      if lo > cur:
        out.append((cur, lo - 1))
      cur = hi + 1
    if cur <= MAXCP:
      out.append((cur, MAXCP))
    return CharSet(out)

  def intersect(self, o):
    return self.complement().union(o.complement()).complement()

  def minus(self, o):
    return self.intersect(o.complement())

  def subset_of(self, o):
    return not self.minus(o).iv

  def empty(self):
    return not self.iv

  def disjoint(self, o):
    return self.intersect(o).empty()

  def contains(self, ch):
    c = ord(ch)
    return any(lo <= c <= hi for lo, hi in self.iv)

  def size(self):
    return sum(hi - lo + 1 for lo, hi in self.iv)

  def chars(self, limit=200):
    """The members, when there are at most `limit` of them, else None."""
    if self.size() > limit:
      return None
    return [chr(c) for lo, hi in self.iv for c in range(lo, hi + 1)]

  def __eq__(self, o):
    return isinstance(o, CharSet) and self.iv == o.iv

  def __hash__(self):
    return hash(self.iv)

  def __repr__(self):
    def one(c):
      ch = chr(c)
      return ch if 32 < c < 127 else "\\u%04x" % c
    parts = []
    for lo, hi in self.iv[:8]:
      parts.append(one(lo) if lo == hi else "%s-%s" % (one(lo), one(hi)))
    if len(self.iv) > 8:
      parts.append("...")
    return "[" + "".join(parts) + "]"


LOWER = CharSet.rng("a", "z")
UPPER = CharSet.rng("A", "Z")
DIGIT = CharSet.rng("0", "9")
UNDERSCORE = CharSet.of("_")
LETTERS = LOWER.union(UPPER)
IDENT_CHARS = LETTERS.union(DIGIT).union(UNDERSCORE)
ASCII = CharSet([(0, 127)])

_CATEGORY_CACHE = {}


def _category_set(cat, flags):
  """Code points of a regex category for str patterns (Unicode unless re.A)."""
  key = (str(cat), bool(flags & re.A))
  if key in _CATEGORY_CACHE:
    return _CATEGORY_CACHE[key]
  name = str(cat)
  neg = "NOT_" in name
  base = name.replace("NOT_", "")
  if flags & re.A:
    table = {"CATEGORY_DIGIT": DIGIT, "CATEGORY_WORD": IDENT_CHARS,
             "CATEGORY_SPACE": CharSet.of(" \t\n\r\f\v")}
    if base not in table:
      raise AnalysisError("regex category outside the supported subset: %s" % name)
    s = table[base]
  else:
    if base == "CATEGORY_DIGIT":
      pred = str.isdecimal
    elif base == "CATEGORY_SPACE":
      pred = str.isspace
    elif base == "CATEGORY_WORD":
      pred = lambda ch: ch.isalnum() or ch == "_"
    else:
      raise AnalysisError("regex category outside the supported subset: %s" % name)
    ivs, start = [], None
    for c in range(MAXCP + 1):
      if pred(chr(c)):
        if start is None:
          start = c
      elif start is not None:
        ivs.append((start, c - 1))
        start = None
    if start is not None:
      ivs.append((start, MAXCP))
    s = CharSet(ivs)
  if neg:
    s = s.complement()
  _CATEGORY_CACHE[key] = s
  return s


def _fold_case(s, flags):
  if not (flags & re.I):
    return s
  # ASCII letters fold onto each other; a set reaching beyond ASCII letters under IGNORECASE has
  # Unicode folding rules this analysis does not model
  extra = s.intersect(LOWER)
  up = CharSet([(lo - 32, hi - 32) for lo, hi in extra.iv])
  extra2 = s.intersect(UPPER)
  low = CharSet([(lo + 32, hi + 32) for lo, hi in extra2.iv])
  return s.union(up).union(low)


def parse_regex(rx):
  """re._parser tree of a Regex constant."""
  try:
    return sre_parse.parse(rx.pattern, rx.flags)
  except re.error as e:
    raise AnalysisError("regex does not parse: %r (%s)" % (rx.pattern, e))


def item_charset(item, flags):
  """CharSet matched by a one-character regex item (LITERAL / NOT_LITERAL / IN / ANY /
  CATEGORY), or None when the item is not a one-character item."""
  op, av = item
  if op is sre_c.LITERAL:
    return _fold_case(CharSet([(av, av)]), flags)
  if op is sre_c.NOT_LITERAL:
    return _fold_case(CharSet([(av, av)]), flags).complement()
  if op is sre_c.ANY:
    return CharSet.all() if flags & re.S else CharSet.of("\n").complement()
  if op is sre_c.CATEGORY:
    return _category_set(av, flags)
  if op is sre_c.IN:
    neg = False
    acc = CharSet()
    for (o, a) in av:
      if o is sre_c.NEGATE:
        neg = True
      elif o is sre_c.LITERAL:
        acc = acc.union(CharSet([(a, a)]))
      elif o is sre_c.RANGE:
        acc = acc.union(CharSet([(a[0], a[1])]))
      elif o is sre_c.CATEGORY:
        acc = acc.union(_category_set(a, flags))
      else:
        raise AnalysisError("regex class item outside the supported subset: %s" % (o,))
    acc = _fold_case(acc, flags)
    return acc.complement() if neg else acc
  return None


class GroupInfo(object):
  """One capturing group of a regex.
    parent        enclosing capturing group (None at top level)
    mandatory     takes part in every match of its parent (no alternation, optional repeat or
                  look-around between the two)
    branch_path   the alternations between parent and group: ((branch id, arm index, arms), ...)
    branch_certain  the outermost of those alternations itself takes part in every match of the
                  parent
    arm_mandatory within its innermost arm the group is unconditional
  """
  def __init__(self, gid, name, parent, mandatory, body, branch_path, branch_certain,
               arm_mandatory):
    self.gid = gid
    self.name = name
    self.parent = parent
    self.mandatory = mandatory
    self.body = body
    self.branch_path = branch_path
    self.branch_certain = branch_certain
    self.arm_mandatory = arm_mandatory


def regex_groups(rx):
  """{group name (or number for unnamed groups): GroupInfo} for every capturing group."""
  tree = parse_regex(rx)
  names = {gid: nm for nm, gid in tree.state.groupdict.items()}
  out = {}

  def walk(sub, parent, mand, path, bcertain, armmand):
    # mand: unconditional since parent; armmand: unconditional since the innermost arm
    for (op, av) in sub:
      if op is sre_c.SUBPATTERN:
        gid, add_flags, del_flags, body = av
        if gid is None:
          walk(body, parent, mand, path, bcertain, armmand)
        else:
          nm = names.get(gid)
          gi = GroupInfo(gid, nm, parent, mand, body, path, bcertain, armmand)
          out[nm if nm is not None else gid] = gi
          walk(body, gi, True, (), True, True)
      elif op is sre_c.BRANCH:
        for i, alt in enumerate(av[1]):
          walk(alt, parent, False, path + ((id(av), i, len(av[1])),),
               bcertain if path else mand, True)
      elif op in (sre_c.MAX_REPEAT, sre_c.MIN_REPEAT) or str(op) == "POSSESSIVE_REPEAT":
        lo, hi, body = av
        walk(body, parent, mand and lo >= 1, path, bcertain, armmand and lo >= 1)
      elif op in (sre_c.ASSERT, sre_c.ASSERT_NOT):
        walk(av[1], parent, False, path, bcertain, False)
      elif str(op) == "ATOMIC_GROUP":
        walk(av, parent, mand, path, bcertain, armmand)
      elif op is sre_c.GROUPREF_EXISTS:
        raise AnalysisError("conditional regex groups are outside the supported subset")
  walk(tree, None, True, (), True, True)
  return out


def body_is_digits(body, flags):
  """True when a group body can only match one or more ASCII/Unicode decimal digits: a
  sequence of (possibly repeated) one-character items each within \\d, total min width >= 1."""
  digits = _category_set(sre_c.CATEGORY_DIGIT, flags)
  minw = 0
  for item in body:
    op, av = item
    if op in (sre_c.MAX_REPEAT, sre_c.MIN_REPEAT):
      lo, hi, sub = av
      if len(sub) != 1:
        return False
      cs = item_charset(sub[0], flags)
      if cs is None or not cs.subset_of(digits):
        return False
      minw += lo
    else:
      cs = item_charset(item, flags)
      if cs is None or not cs.subset_of(digits):
        return False
      minw += 1
  return minw >= 1


def body_min_width(body):
  try:
    return body.getwidth()[0]
  except Exception:
    raise AnalysisError("cannot compute the width of a regex group")


# ======================================================================== rename funnel (C16/C17)

def rename_constructions(world, names):
  """[(Fn, call)] for every construction actions.<name>(...) / <name>(...) of the given action
  types anywhere in the engine (not in nested defs of other functions twice)."""
  out = []
  for fi in world.repo.all_functions():
    fn = world.fn_of(fi)
    for s in fi.node.body:
      for n in walk_no_nested(s):
        if isinstance(n, ast.Call):
          d = dotted(n.func)
          if d is not None and d.split(".")[-1] in names and \
              (d in names or d == "actions." + d.split(".")[-1]):
            out.append((fn, n))
  return out


HARMLESS, HARMFUL, UNKNOWN = "harmless", "harmful", "unknown"


class RenameSite(object):
  """
  One function that hands RenameColumn / RenameTable actions to the gateway, analysed by role:

    emits      [(cfg node id, gateway call, ctor call, action name)]
    loop       the `for <targets> in <pairs>` statement that drives the emissions
    field      the metadata field whose change means "renamed" ('colId' / 'tableId'), read from
               the emission guard has_diff_value(values, <field>, ...)
    preps      [(cfg node id, call)] calls of self._prepare_formula_renames(<map>)
    map_name   the local name of the rename map (before any re-keying)
  """
  def __init__(self, fn, action_names):
    self.fn = fn
    self.cfg = fn.cfg
    self.du = DefUse(fn)
    self.emits = []
    for (n, c, nm) in fn.calls():
      if E.is_gateway_call(c, nm, fn) and c.args:
        ctor = E.action_ctor(c.args[0], action_names)
        if ctor is not None:
          self.emits.append((n.id, c, ctor[1], ctor[0]))
    self.preps = [(n.id, c) for (n, c, nm) in fn.calls()
                  if endswith(nm, "self._prepare_formula_renames") and len(c.args) == 1]

  # ---- the emission loop, by role
  def emission_shape(self, emit):
    """(loop stmt, canonical iterable text, root container name, {target: placeholder},
    [guard tests], ctor call)"""
    nid, gw, ctor, aname = emit
    stmt = self.cfg.nodes[nid].stmt
    loop = innermost_loop(self.fn.node, stmt)
    if loop is None:
      raise AnalysisError("%s: %s emitted outside a loop over update pairs"
                          % (self.fn.qualname, aname))
    tests = enclosing_ifs_within(self.fn.node, stmt, loop)
    it_text, root = self.canonical_iter(loop.iter)
    return loop, it_text, root, target_map(loop.target), tests, ctor

  def canonical_iter(self, it):
    """Iterable expression with single-definition view aliases expanded:
    `update_pairs` defined once as `col_updates.items()` -> ('col_updates.items()', 'col_updates')."""
    e = it
    for _ in range(3):
      if isinstance(e, ast.Name):
        vals = E.local_defs(self.fn.node, e.id)
        if len(vals) == 1 and (isinstance(vals[0], ast.Name) or _is_items_view(vals[0])):
          e = vals[0]
          continue
      break
    if isinstance(e, ast.Name):
      return e.id, e.id
    if _is_items_view(e):
      return text(e), e.func.value.id
    raise AnalysisError("%s: iterable of the emission loop outside the supported subset: %s"
                        % (self.fn.qualname, short(it)))

  # ---- the rename map, by role
  def resolve_map(self, arg):
    """Follow the argument of _prepare_formula_renames to the construction of the map.
    Returns (kind, name, comp, rekey) with kind in 'comp' | 'incremental'."""
    rekey = None
    e = arg
    if isinstance(e, ast.DictComp) and len(e.generators) == 1 and \
        _is_items_view(e.generators[0].iter) and not e.generators[0].ifs:
      # {(old, None): new for (old, new) in table_renames.items()}   (re-keying only)
      g = e.generators[0]
      tm = target_map(g.target)
      k, v = ntext(e.key, tm), ntext(e.value, tm)
      if (k, v) == ("(_v0_0, None)", "_v0_1"):
        rekey = "table"
      elif (k, v) == ("_v0_0", "_v0_1"):
        rekey = None
      else:
        raise AnalysisError("%s: rename map re-keyed in an unknown way: %s"
                            % (self.fn.qualname, short(e)))
      e = g.iter.func.value
    if not isinstance(e, ast.Name):
      if isinstance(e, ast.DictComp):
        return ("comp", None, e, rekey)
      raise AnalysisError("%s: rename map argument outside the supported subset: %s"
                          % (self.fn.qualname, short(arg)))
    name = e.id
    vals = E.local_defs(self.fn.node, name)
    muts = self.du.muts.get(name, set())
    if len(vals) == 1 and isinstance(vals[0], ast.DictComp) and not muts:
      return ("comp", name, vals[0], rekey)
    if vals and all(isinstance(v, ast.Dict) and not v.keys or
                    (isinstance(v, ast.Call) and dotted(v.func) in ("dict", "OrderedDict")
                     and not v.args and not v.keywords) for v in vals) and muts:
      return ("incremental", name, None, rekey)
    raise AnalysisError("%s: construction of the rename map %s is outside the supported idioms"
                        % (self.fn.qualname, name))

  def map_writer_nodes(self, name, comp):
    if name is None:
      return {n.id for n in self.cfg.nodes if n.stmt is not None and
              any(x is comp for e in n.exprs for x in ast.walk(e))}
    return self.du.defs.get(name, set()) | self.du.muts.get(name, set())

  # ---- writes to the pairs container, classified
  def classify_pairs_write(self, nid, root, field):
    """How a statement that writes the update-pairs container can affect the set of renames."""
    node = self.cfg.nodes[nid]
    s = node.stmt
    verdicts = []
    for c in calls_in(node.exprs):
      f = c.func
      if not (isinstance(f, ast.Attribute) and isinstance(f.value, ast.Name) and
              f.value.id == root):
        continue
      if f.attr == "append" and len(c.args) == 1:
        a = c.args[0]
        d = a.elts[1] if isinstance(a, ast.Tuple) and len(a.elts) == 2 else None
        verdicts.append(_dict_carries(d, field))
      elif f.attr == "setdefault" and len(c.args) == 2 and _empty_dict(c.args[1]):
        verdicts.append(self._chained_write(s, c, field))
      elif f.attr in ("update", "extend", "insert", "__setitem__"):
        verdicts.append(UNKNOWN)
      elif f.attr in ("get", "items", "keys", "values"):
        continue
      else:
        verdicts.append(UNKNOWN)
    if isinstance(s, ast.Assign):
      for t in s.targets:
        if isinstance(t, ast.Subscript) and isinstance(t.value, ast.Name) and t.value.id == root:
          verdicts.append(_dict_carries(s.value, field))
        if isinstance(t, ast.Name) and t.id == root:
          verdicts.append(UNKNOWN)       # the container is replaced
    elif isinstance(s, ast.AugAssign) and isinstance(s.target, ast.Name) and s.target.id == root:
      verdicts.append(UNKNOWN)
    if HARMFUL in verdicts:
      return HARMFUL
    if UNKNOWN in verdicts or not verdicts:
      return UNKNOWN
    return HARMLESS

  def _chained_write(self, stmt, inner, field):
    """X.setdefault(k, {}) used as the receiver of a write of one constant field."""
    for n in ast.walk(stmt):
      # X.setdefault(k, {}).setdefault('formula', v) / .update(a=1, b=2)
      if isinstance(n, ast.Call) and isinstance(n.func, ast.Attribute) and n.func.value is inner:
        if n.func.attr == "setdefault" and n.args and isinstance(n.args[0], ast.Constant):
          return HARMFUL if n.args[0].value == field else HARMLESS
        if n.func.attr == "update" and not n.args and all(k.arg is not None for k in n.keywords):
          return HARMFUL if any(k.arg == field for k in n.keywords) else HARMLESS
        return UNKNOWN
      # X.setdefault(k, {})['formula'] = v
      if isinstance(n, ast.Subscript) and n.value is inner and isinstance(n.ctx, ast.Store):
        if isinstance(n.slice, ast.Constant):
          return HARMFUL if n.slice.value == field else HARMLESS
        return UNKNOWN
    return HARMLESS if isinstance(stmt, ast.Expr) and stmt.value is inner else UNKNOWN


def _is_items_view(e):
  return isinstance(e, ast.Call) and isinstance(e.func, ast.Attribute) and \
      e.func.attr == "items" and isinstance(e.func.value, ast.Name) and not e.args


def _empty_dict(e):
  return (isinstance(e, ast.Dict) and not e.keys) or \
      (isinstance(e, ast.Call) and dotted(e.func) in ("dict", "OrderedDict") and not e.args
       and not e.keywords)


def _dict_carries(d, field):
  """Can the values-dict expression `d` carry the rename field?"""
  if isinstance(d, ast.Dict) and all(isinstance(k, ast.Constant) for k in d.keys):
    return HARMFUL if any(k.value == field for k in d.keys) else HARMLESS
  return HARMFUL     # an arbitrary values dict may carry a rename


# ======================================================================== schema.py extraction

def python_schema(world):
  """The metadata schema as written in schema.schema_create_actions(), read from the AST:
  OrderedPairs [(table_id, [(col_id, col_type), ...])], plus the AST nodes for reports.
  Slots are filled by role: the AddTable field order comes from actions.py, the meaning of
  make_column's parameters from the dict it returns."""
  repo = world.repo
  mod = repo.module("schema")
  fi = repo.func("schema.schema_create_actions")
  mk = repo.func("schema.make_column")
  # make_column: which parameter is the id, which the type
  rets = [s for s in ast.walk(mk.node) if isinstance(s, ast.Return)]
  if len(rets) != 1 or not isinstance(rets[0].value, ast.Dict):
    raise AnalysisError("schema.make_column no longer returns one dict literal")
  role = {}
  for k, v in zip(rets[0].value.keys, rets[0].value.values):
    if isinstance(k, ast.Constant) and isinstance(v, ast.Name):
      role[k.value] = v.id
  if "id" not in role or "type" not in role:
    raise AnalysisError("schema.make_column: 'id'/'type' keys not bound to parameters")
  params = mk.params()
  fields = world.action_types().get("AddTable")
  if fields is None or "table_id" not in fields or "columns" not in fields:
    raise AnalysisError("actions.AddTable fields changed")
  i_tid, i_cols = fields.index("table_id"), fields.index("columns")
  rets = [s for s in ast.walk(fi.node) if isinstance(s, ast.Return)]
  if len(rets) != 1 or not isinstance(rets[0].value, ast.List):
    raise AnalysisError("schema.schema_create_actions no longer returns one list literal")

  def arg(call, params_, name):
    for kw in call.keywords:
      if kw.arg == name:
        return kw.value
    i = params_.index(name)
    if i < len(call.args):
      return call.args[i]
    return None

  out = OrderedPairs()
  for el in rets[0].value.elts:
    if not (isinstance(el, ast.Call) and dotted(el.func) in ("actions.AddTable", "AddTable") and
            not el.keywords and len(el.args) == len(fields)):
      raise AnalysisError("schema_create_actions: element is not actions.AddTable(...): %s"
                          % short(el))
    tid, cols = el.args[i_tid], el.args[i_cols]
    if not (isinstance(tid, ast.Constant) and isinstance(tid.value, str) and
            isinstance(cols, ast.List)):
      raise AnalysisError("schema_create_actions: table not written as literals: %s" % short(el))
    cl = []
    for c in cols.elts:
      if not (isinstance(c, ast.Call) and dotted(c.func) == "make_column"):
        raise AnalysisError("schema_create_actions: column is not make_column(...): %s"
                            % short(c))
      cid, ctype = arg(c, params, role["id"]), arg(c, params, role["type"])
      if not (isinstance(cid, ast.Constant) and isinstance(cid.value, str) and
              isinstance(ctype, ast.Constant) and isinstance(ctype.value, str)):
        raise AnalysisError("schema_create_actions: column id/type not literal: %s" % short(c))
      cl.append((cid.value, ctype.value, c))
    out.append((tid.value, cl))
  ids = [t for t, _ in out]
  if len(set(ids)) != len(ids):
    raise AnalysisError("schema_create_actions: duplicate table ids")
  return out
