"""C08 Internal schema always matches the metadata -- structural clauses (DESIGN.md section 4, C08).

Deviation from the design text: R2 does not demand "keys produced by col_to_dict(include_default=
True) = SchemaColumn._fields - colId" as a bare set equality only; it additionally demands that
every col_to_dict call that feeds a ModifyColumn (the undo in DocActions.ModifyColumn, the no-op
filter in UserActions.doModifyColumn) passes include_default=True, because that is the clause whose
violation makes an undo of "set reverseColId" a no-op (schema keeps it, metadata does not).
"""
import ast
from ..fn import World
from ..index import AnalysisError, dotted
from ..astutil import text, short, endswith, calls_in, walk_no_nested
from ..dataflow import DefUse
from .. import events as E
from .. import types as T
from . import _h_B as H

EXPLANATION = (
  "Decides the structural pairing that keeps Engine.schema equal to the schema described by "
  "_grist_Tables/_grist_Tables_column: every function that hands a schema doc action to the "
  "gateway also writes the matching metadata table(s) with the matching kind of write on every "
  "normal path (R1; doModifyColumn is the named exception and the rule is applied to its callers); "
  "the field sets agree between SchemaColumn, _modify_col_schema_props, the keys "
  "DocActions.ModifyColumn reads (positionally, with the old column's own field as default), "
  "col_to_dict(include_default=True), build_schema and the translation of metadata updates into "
  "schema actions in _updateColumnRecords, and every col_to_dict feeding a ModifyColumn passes "
  "include_default=True so each modifiable key can be restored (R2); every DocActions schema "
  "method rebuilds usercode after its last schema write, a failing schema action restores the "
  "cloned schema, and apply_user_actions asserts schema consistency after every user action that "
  "touched the schema and after a rollback (R3); every suppression of rebuild_usercode is lifted in "
  "a finally and followed by a rebuild (R4). Not decided: metadata-only paths that change a "
  "schema-relevant field through raw ApplyDocActions; values written to the metadata.")

TC = "_grist_Tables_column"
TT = "_grist_Tables"
# metadata writes a schema action needs: (kind of write, table)
REQUIRED = {
  "AddColumn":    [("add", TC)],
  "RemoveColumn": [("remove", TC)],
  "RenameColumn": [("update", TC)],
  "ModifyColumn": [("update", TC)],
  "AddTable":     [("add", TT), ("add", TC)],
  "RemoveTable":  [("remove", TT), ("remove", TC)],
  "RenameTable":  [("update", TT)],
}
# The one emitter whose metadata write is its callers' job (DESIGN: named exception).
R1_EXCEPTION = "useractions.UserActions.doModifyColumn"

def check(run, repo, tier):
  w = World(repo)
  r1_pairing(run, w)
  r2_field_sets(run, w)
  r3_rebuild_and_assert(run, w)
  r4_suppression(run, w)
  from ._extra import c08_schema_updates_before_modify
  run.guard(c08_schema_updates_before_modify, run, w, "C08-R1")


# ------------------------------------------------------------------------------------------ R1
def _writers(fn, du, w, handles, own_table):
  """[(node id, kind, table or None, Call)] for the enumerated metadata writers called in fn."""
  out = []
  for (n, c, nm) in fn.calls():
    if not isinstance(c.func, ast.Attribute):
      continue
    m = c.func.attr
    recv = c.func.value
    ua = fn.type_of(recv) == T.USERACTIONS or endswith(fn.name(recv) or "", "useractions",
                                                       "_useractions")
    if m in ("doBulkRemoveRecord", "doBulkUpdateFromPairs", "doBulkUpdateRecord") and ua:
      a = H.bound_args(w, c, "useractions.UserActions." + m, 1)
      if not a or a[0] is None:
        raise AnalysisError("%s: cannot bind the table argument of %s" % (fn.qualname, short(c)))
      kind = "remove" if m == "doBulkRemoveRecord" else "update"
      out.append((n.id, kind, H.table_arg_value(fn, du, n.id, a[0], own_table), c))
    elif fn.type_of(recv) == T.DOCMODEL and m in ("add", "insert", "insert_after", "update",
                                                  "remove"):
      a = H.bound_args(w, c, "docmodel.DocModel." + m, 1)
      if not a or a[0] is None:
        raise AnalysisError("%s: cannot bind the first argument of %s" % (fn.qualname, short(c)))
      if m in ("update", "remove"):
        out.append((n.id, m, H.record_table_of(fn, a[0], w, handles, own_table=own_table), c))
      else:
        out.append((n.id, "add", H.handle_table_of(fn, H.deref(fn, a[0]), w, handles), c))
  return out


def _hidden_writer(w, fn, kind, table, handles, depth=2, seen=None):
  """A same-class helper fn calls (not a user action, not one of the enumerated writers) may do a
  metadata write of this kind on this table, or on a table that depends on its arguments."""
  seen = seen if seen is not None else {fn.qualname}
  ua = w.useraction_methods()
  for (n, c, nm) in fn.calls():
    fi = H.self_method(w, fn, c)
    if fi is None or fi.qualname in seen or fi.name in ua or fi.name.startswith("doBulk"):
      continue
    seen.add(fi.qualname)
    h = w.fn_of(fi)
    try:
      wr = _writers(h, DefUse(h), w, handles, None)
    except AnalysisError:
      return True
    if any(kd == kind and tb in (table, None) for (nid, kd, tb, c2) in wr):
      return True
    if depth > 1 and _hidden_writer(w, h, kind, table, handles, depth - 1, seen):
      return True
  return False


def r1_pairing(run, w):
  R1 = run.rule("C08-R1", "a function that hands a schema doc action to the gateway writes the "
                "matching metadata table with the matching kind of write on every normal path",
                floor=11)
  names = w.action_types()
  schema_names = set(w.schema_action_names())
  if schema_names != set(REQUIRED):
    raise AnalysisError("schema action names %s differ from the pairing table" % sorted(schema_names))
  handles = H.docmodel_handles(w)
  own = {f.qualname: t for ((a, t), f) in w.override_methods().items()}
  emitters = set()
  exc_callers = 0
  WRITER_METHODS = ("doBulkRemoveRecord", "doBulkUpdateFromPairs", "doBulkUpdateRecord", "add",
                    "insert", "insert_after", "update", "remove")
  is_writer = lambda c, nm, f: isinstance(c.func, ast.Attribute) and c.func.attr in WRITER_METHODS
  for fi in w.repo.all_functions():
    in_cls = fi.cls is not None and fi.cls.qualname in ("useractions.UserActions",
                                                        "summary.SummaryActions")
    # private helpers that exist for one function only are read in place (in their caller)
    fn = H.inlined_fn(w, fi.qualname) if in_cls and fi.parent is None else w.fn_of(fi)
    part_of = H.is_private_part(w, fi)[1] if in_cls else None
    sites = []      # (node, kind, construct)
    du = None
    for (n, c) in H.gateway_sites(fn):
      du = du or DefUse(fn)
      kinds, _producer = H.classify_gateway_arg(fn, du, c, names)
      for k in sorted(kinds & schema_names):
        sites.append((n, k, short(c)))
    for (n, c, nm) in fn.calls():
      if isinstance(c.func, ast.Attribute) and c.func.attr == R1_EXCEPTION.split(".")[-1]:
        du = du or DefUse(fn)
        sites.append((n, "ModifyColumn", short(c)))
        exc_callers += 1
    if not sites:
      continue
    if fi.qualname == R1_EXCEPTION:
      run.ob(R1, fi.qualname, "gateway(ModifyColumn)", "named exception: the metadata record is "
             "written by each caller (checked at the callers)", True, fi=fi, nontrivial=False)
      emitters.add(fi.qualname)
      sites = [s for s in sites if s[1] != "ModifyColumn"]
    if not (fi.cls is not None and fi.cls.qualname in ("useractions.UserActions",
                                                       "summary.SummaryActions")):
      for (n, k, cons) in sites:
        run.ob(R1, fi.qualname, cons, "schema actions are emitted only by UserActions/"
               "SummaryActions methods", False, fi=fi, node=n.stmt)
      continue
    cfg = fn.cfg
    wr = _writers(fn, du, w, handles, own.get(fi.qualname))
    for (n, k, cons) in sites:
      emitters.add(fi.qualname)
      for (kind, table) in REQUIRED[k]:
        W = {nid for (nid, kd, tb, c) in wr if kd == kind and tb == table}
        ok = bool(W) and (cfg.dominated_by(n.id, W) or cfg.postdominated_by(n.id, W))
        wit = None
        if not ok:
          unknown = [c for (nid, kd, tb, c) in wr if kd == kind and tb is None]
          if unknown:
            raise AnalysisError("%s: cannot tell which metadata table %s writes"
                                % (fi.qualname, short(unknown[0])))
          if part_of is not None:
            raise AnalysisError("%s is a private part of %s that could not be read in place; the "
                                "metadata %s of %s may be its caller's" % (fi.qualname, part_of,
                                                                          kind, table))
          if not W and _hidden_writer(w, fn, kind, table, handles):
            raise AnalysisError("%s: no metadata %s of %s in the function itself, but a helper "
                                "it calls writes metadata; cannot follow" % (fi.qualname, kind,
                                                                            table))
          p1 = cfg.path(cfg.entry.id, {n.id}, removed=W) or []
          p2 = cfg.path(n.id, {cfg.exit.id}, removed=W, after=True) or []
          wit = cfg.describe_path(p1 + p2[1:]) if p1 and p2 else "no %s of %s in this function" \
              % (kind, table)
        run.ob(R1, fi.qualname, "%s -> %s %s" % (cons, kind, table),
               "every normal path through the schema action also does a metadata %s on %s"
               % (kind, table), ok, witness=wit, fi=fi, node=n.stmt)
  if exc_callers == 0:
    raise AnalysisError("no caller of %s found (the exception of R1 needs its callers)" % R1_EXCEPTION)
  if len(emitters) < 3:
    raise AnalysisError("only %d function(s) seen handing schema actions to the gateway: the "
                        "gateway mechanism moved" % len(emitters))
  run.ob(R1, "useractions", "emitting functions: %s" % ", ".join(sorted(emitters)),
         "the seven schema action kinds are each emitted somewhere", len(emitters) >= 7,
         nontrivial=False)


# ------------------------------------------------------------------------------------------ R2
def _schema_column_fields(w):
  mod = w.repo.module("schema")
  v = mod.assigns.get("SchemaColumn")
  if not (isinstance(v, ast.Call) and dotted(v.func) == "namedtuple" and len(v.args) == 2 and
          isinstance(v.args[1], (ast.Tuple, ast.List)) and
          all(isinstance(e, ast.Constant) for e in v.args[1].elts)):
    raise AnalysisError("schema.SchemaColumn is not a namedtuple with literal fields any more")
  return [e.value for e in v.args[1].elts]


def _truth(test, env):
  """Three-valued evaluation of a test over known boolean parameters: True / False / None."""
  if isinstance(test, ast.Name) and test.id in env:
    return env[test.id]
  if isinstance(test, ast.UnaryOp) and isinstance(test.op, ast.Not):
    v = _truth(test.operand, env)
    return None if v is None else (not v)
  if isinstance(test, ast.BoolOp):
    vs = [_truth(v, env) for v in test.values]
    if isinstance(test.op, ast.Or):
      if any(v is True for v in vs):
        return True
      return False if all(v is False for v in vs) else None
    if any(v is False for v in vs):
      return False
    return True if all(v is True for v in vs) else None
  return None


def _col_to_dict_keys(w, env):
  """(keys certainly present, keys possibly present, {key: attribute of the column read}) of the
  dict col_to_dict returns for the given boolean parameter values."""
  fn = w.fn("schema.col_to_dict")
  colp = fn.fi.params()[0]
  rets = [s for s in ast.walk(fn.node) if isinstance(s, ast.Return)]
  if len(rets) != 1 or not isinstance(rets[0].value, ast.Name):
    raise AnalysisError("schema.col_to_dict: expected a single `return <dict variable>`")
  var = rets[0].value.id
  must, may, attr = set(), set(), {}
  locals_ = {}          # plain locals standing for an attribute of the column
  def val_attr(v):
    if isinstance(v, ast.Name) and v.id in locals_:
      v = locals_[v.id]
    return v.attr if isinstance(v, ast.Attribute) and isinstance(v.value, ast.Name) and \
        v.value.id == colp else None
  def go(stmts, cond):   # cond: True (always) / None (maybe)
    for s in stmts:
      if isinstance(s, ast.Assign) and len(s.targets) == 1:
        t = s.targets[0]
        if isinstance(t, ast.Name) and t.id == var:
          if not isinstance(s.value, ast.Dict) or \
              not all(isinstance(k, ast.Constant) for k in s.value.keys):
            raise AnalysisError("schema.col_to_dict: dict is not a literal with constant keys")
          for k, v in zip(s.value.keys, s.value.values):
            (must if cond else may).add(k.value)
            attr[k.value] = val_attr(v)
          continue
        if isinstance(t, ast.Subscript) and isinstance(t.value, ast.Name) and t.value.id == var \
            and isinstance(t.slice, ast.Constant):
          (must if cond else may).add(t.slice.value)
          attr[t.slice.value] = val_attr(s.value)
          continue
      if isinstance(s, ast.Assign) and len(s.targets) == 1 and \
          isinstance(s.targets[0], ast.Name) and s.targets[0].id != var and \
          not calls_in(s.value):
        # a local naming a sub-expression (e.g. reverse_col_id = col.reverseColId)
        locals_[s.targets[0].id] = s.value
        continue
      if isinstance(s, ast.If):
        tv = _truth(s.test, env)
        if tv is True:
          go(s.body, cond)
        elif tv is False:
          go(s.orelse, cond)
        else:
          go(s.body, None)
          go(s.orelse, None)
        continue
      if isinstance(s, ast.Pass) or (isinstance(s, (ast.Return, ast.Expr)) and (
          isinstance(s, ast.Return) or isinstance(s.value, ast.Constant))):
        continue
      raise AnalysisError("schema.col_to_dict: unsupported statement %s" % short(s))
  go(fn.node.body, True)
  return must, may | must, attr


def _call_flag(call, fi, pname):
  """Constant boolean bound to parameter pname at call (default included), else None."""
  e = H.arg_of(call, fi, pname, skip_self=False)
  ok, v = H.const_value(e) if e is not None else (False, None)
  return bool(v) if ok and isinstance(v, bool) else None


def r2_field_sets(run, w):
  R2 = run.rule("C08-R2", "field-set agreement: SchemaColumn fields, _modify_col_schema_props, keys "
                "read by DocActions.ModifyColumn, col_to_dict(include_default=True), build_schema "
                "and _updateColumnRecords name the same properties", floor=12)
  fields = _schema_column_fields(w)
  if fields[:1] != ["colId"]:
    raise AnalysisError("SchemaColumn no longer starts with colId")
  props = fields[1:]
  # (a) _modify_col_schema_props
  ua = w.repo.module("useractions")
  v = ua.assigns.get("_modify_col_schema_props")
  if not (isinstance(v, ast.Set) and all(isinstance(e, ast.Constant) for e in v.elts)):
    raise AnalysisError("useractions._modify_col_schema_props is not a literal set any more")
  mprops = {e.value for e in v.elts}
  run.ob(R2, "useractions._modify_col_schema_props", "{%s}" % ", ".join(sorted(mprops)),
         "the schema properties forwarded to ModifyColumn are exactly SchemaColumn's fields "
         "other than colId", mprops == set(props), witness="SchemaColumn fields: %s" % fields)
  # (b) DocActions.ModifyColumn builds the new SchemaColumn positionally from col_info.get(f, old.f)
  # (a module-level or private helper that only ModifyColumn uses is read in place)
  mc = H.inlined_fn(w, "docactions.DocActions.ModifyColumn")
  ps = mc.fi.params()
  p_col, p_info = ps[2], ps[3]
  def by_field(call):
    """The constructor's arguments in field order (positional or by field name), else None."""
    if any(isinstance(a, ast.Starred) for a in call.args) or \
        any(k.arg is None or k.arg not in fields for k in call.keywords):
      return None
    out = list(call.args)
    for f in fields[len(call.args):]:
      v = H.kwarg(call, f)
      if v is None:
        return None
      out.append(v)
    return out if len(out) == len(fields) == len(call.args) + len(call.keywords) else None
  ctors = [c for c in calls_in(mc.node) if endswith(dotted(c.func), "SchemaColumn")]
  if len(ctors) != 1 or by_field(ctors[0]) is None:
    raise AnalysisError("DocActions.ModifyColumn: expected one SchemaColumn(...) call giving "
                        "every field")
  ctor = ctors[0]
  cargs = by_field(ctor)
  cst = H.stmt_of(mc.node, ctor)
  newvar = cst.targets[0].id if isinstance(cst, ast.Assign) and \
      isinstance(cst.targets[0], ast.Name) else None
  oldvars = set()
  run.ob(R2, mc.qualname, "SchemaColumn(%s, ...)" % text(cargs[0]),
         "the rebuilt column keeps its id", H.canon(mc, cargs[0]) == p_col, fi=mc.fi, node=ctor)
  for f, a in zip(props, cargs[1:]):
    a = H.strip_bool(H.deref(mc, a))
    ok = isinstance(a, ast.Call) and isinstance(a.func, ast.Attribute) and a.func.attr == "get" \
        and H.canon(mc, a.func.value) == p_info and len(a.args) == 2 and \
        isinstance(a.args[0], ast.Constant) and a.args[0].value == f and \
        isinstance(a.args[1], ast.Attribute) and a.args[1].attr == f and \
        isinstance(a.args[1].value, ast.Name)
    if ok:
      ov = a.args[1].value
      while isinstance(H.alias_value(mc, ov.id), ast.Name):     # plain copies of the old column
        ov = H.alias_value(mc, ov.id)
      oldvars.add(ov.id)
    run.ob(R2, mc.qualname, "%s <- %s" % (f, short(a)),
           "field %s is taken from col_info[%r], defaulting to the old column's own %s"
           % (f, f, f), ok, fi=mc.fi, node=a)
  old_ok = False
  oldvar = None
  if len(oldvars) == 1:
    oldvar = next(iter(oldvars))
    d = H.single_def(mc, oldvar)
    old_ok = isinstance(d, ast.Subscript) and H.canon(mc, d.slice) == p_col and \
        mc.type_of(d.value) == "SchemaColumns"
  run.ob(R2, mc.qualname, "old = <schema columns>[col_id]", "defaults come from the current schema "
         "entry of the same column", old_ok, fi=mc.fi)
  # (c) col_to_dict(include_default=True, include_id=False) yields exactly the modifiable keys
  must, may, attr = _col_to_dict_keys(w, {"include_default": True, "include_id": False})
  run.ob(R2, "schema.col_to_dict", "keys with include_default=True: %s" % sorted(must),
         "with defaults included the dict names every modifiable schema property, each read from "
         "the column's field of the same name", must == set(props) and may == must and
         all(attr.get(k) == k for k in must), witness="possible keys: %s" % sorted(may))
  must0, may0, _ = _col_to_dict_keys(w, {"include_default": False, "include_id": False})
  dropped = sorted(set(props) - must0)
  run.note("col_to_dict without include_default omits %s when empty" % dropped) if dropped else None
  # (d) every col_to_dict call feeding a ModifyColumn passes include_default=True
  c2d = w.repo.func("schema.col_to_dict")
  for q in ("docactions.DocActions.ModifyColumn", "useractions.UserActions.doModifyColumn"):
    fn = w.fn(q)
    calls = [c for (n, c, nm) in fn.calls() if endswith(nm, "col_to_dict")]
    if not calls:
      raise AnalysisError("%s: no col_to_dict call (the old column info moved)" % q)
    for c in calls:
      inc_def = _call_flag(c, c2d, "include_default")
      run.ob(R2, q, short(c), "the old column's info is taken with include_default=True (every "
             "modifiable key present, so a key that was empty can be compared and restored)",
             inc_def is True, fi=fn.fi, node=c,
             witness="without include_default the dict lacks %s when it was empty" % dropped)
  # (e) the undo of DocActions.ModifyColumn is built from that dict of the *old* column
  names = w.action_types()
  du = DefUse(mc)
  undo = [(n, c) for (n, c, nm) in mc.calls() if E.is_undo_record(c, nm, mc)]
  ok = False
  desc = "undo.append(ModifyColumn(...))"
  for (n, c) in undo:
    r = E.action_ctor(c.args[-1], names) if c.args else None
    if r and r[0] == "ModifyColumn" and len(r[1].args) == 3:
      info = r[1].args[2]
      desc = short(c)
      src = [x for nid in du.backward_slice([info]) for e in mc.cfg.nodes[nid].exprs
             for x in calls_in(e) if endswith(mc.name(x), "col_to_dict")]
      ok = len(src) == 1 and src[0].args and oldvar is not None and \
          H.canon(mc, src[0].args[0], stop={oldvar}) == oldvar
  run.ob(R2, mc.qualname, desc, "the recorded inverse carries the old column's values (taken from "
         "the one col_to_dict(old, ...) call)", ok, fi=mc.fi)
  # (f) a no-op shortcut, if there is one, compares complete columns
  sw = E.schema_write_nodes(mc)
  for n in mc.cfg.nodes:
    if n.kind != "if" or n.id in mc.cfg.reach_after(sw) or n.id not in mc.cfg.if_true:
      continue
    t_succ = set(mc.cfg.if_true[n.id])
    f_succ = set(mc.cfg.succ[n.id]) - t_succ - set(mc.cfg.if_exc.get(n.id, ()))
    sides = []
    for side, succs in ((True, t_succ), (False, f_succ)):
      r = mc.cfg.reach(succs) if succs else set()
      if mc.cfg.exit.id in r and not (r & sw):
        sides.append(side)
    if len(sides) != 1:
      continue        # not an early return
    mentioned = {x.id for x in ast.walk(n.stmt.test) if isinstance(x, ast.Name)}
    if not (mentioned & {newvar, oldvar}):
      continue
    t = n.stmt.test
    def columns_equal(v):
      def val(e):
        if isinstance(e, ast.Compare) and len(e.ops) == 1 and \
            {text(e.left), text(e.comparators[0])} == {newvar, oldvar}:
          if isinstance(e.ops[0], ast.Eq):
            return v
          if isinstance(e.ops[0], ast.NotEq):
            return not v
        return None
      return val
    whole = H.eval3(t, columns_equal(True)) is sides[0] and \
        H.eval3(t, columns_equal(False)) is (not sides[0])
    run.ob(R2, mc.qualname, "if %s: return" % short(t), "the no-op shortcut compares whole schema "
           "columns (all fields), so a change of any one field is applied", whole, fi=mc.fi,
           node=n.stmt)
  # (g) build_schema reads exactly the metadata fields that _updateColumnRecords translates
  bs = w.fn("schema.build_schema")
  ctors = [c for c in calls_in(bs.node) if endswith(dotted(c.func), "SchemaColumn")]
  if len(ctors) != 1 or by_field(ctors[0]) is None:
    raise AnalysisError("schema.build_schema: expected one SchemaColumn(...) call giving every "
                        "field")
  meta_fields = {}
  ok_pos = True
  for f, a in zip(fields, by_field(ctors[0])):
    a = H.strip_bool(a)
    if isinstance(a, ast.Attribute) and isinstance(a.value, ast.Name):
      meta_fields[f] = a.attr
      ok_pos = ok_pos and a.attr == f
    elif isinstance(a, ast.Call) and isinstance(a.func, ast.Name) and len(a.args) == 1:
      # reverse_col_id(c): a function obtained from get_reverse_col_id_lookup_func
      d = H.single_def(bs, a.func.id)
      lf = w.fn("schema.get_reverse_col_id_lookup_func")
      got = [x for x in ast.walk(lf.node) if isinstance(x, ast.Call) and dotted(x.func) == "getattr"
             and len(x.args) >= 2 and isinstance(x.args[1], ast.Constant)]
      if not (isinstance(d, ast.Call) and endswith(dotted(d.func), "get_reverse_col_id_lookup_func")
              and len(got) == 1):
        raise AnalysisError("build_schema: %s is not the reverse-column lookup" % short(a))
      meta_fields[f] = got[0].args[1].value
    else:
      raise AnalysisError("build_schema: unrecognised SchemaColumn argument %s" % short(a))
  want = {f: f for f in fields}
  want["reverseColId"] = "reverseCol"
  run.ob(R2, bs.qualname, "SchemaColumn(%s)" % ", ".join("%s<-%s" % (f, meta_fields[f])
                                                         for f in fields),
         "each schema field is derived from the metadata field of the same name (reverseColId "
         "from reverseCol)", meta_fields == want and ok_pos, fi=bs.fi, node=ctors[0])
  _r2_update_translation(run, R2, w, mprops)
  _r2_noop_filter(run, R2, w)


def _r2_noop_filter(run, R2, w):
  """doModifyColumn drops from col_info the properties that are "unchanged" and emits no
  ModifyColumn when nothing is left, while its callers still write the requested values to the
  column record: a property may count as unchanged only when it *equals* the schema's value."""
  fn = H.inlined_fn(w, "useractions.UserActions.doModifyColumn")
  cfg = fn.cfg
  du = DefUse(fn)
  rd = H.ReachDefs(fn, du)
  names = w.action_types()
  p_info = fn.fi.params()[3]
  gws = [n for (n, c) in H.gateway_sites(fn)
         if (E.action_ctor(H.deref(fn, c.args[0]), names) or (None,))[0] == "ModifyColumn"]
  if len(gws) != 1:
    raise AnalysisError("doModifyColumn: expected exactly one gateway(ModifyColumn) call")
  g = gws[0]
  defs = rd.reaching(p_info, g.id) - {H.ReachDefs.ENTRY}
  if not defs:
    run.ob(R2, fn.qualname, "no no-op filter on %s" % p_info, "every requested property reaches "
           "the ModifyColumn doc action", True, fi=fn.fi, nontrivial=False)
    return
  comp, at = H.resolve(fn, du, rd, ast.Name(id=p_info, ctx=ast.Load()), g.id)
  if not (isinstance(comp, ast.DictComp) and len(comp.generators) == 1 and len(defs) == 1):
    raise AnalysisError("doModifyColumn: the rebinding of %s before the doc action is not a "
                        "filtering comprehension / loop over its items" % p_info)
  gen = comp.generators[0]
  it = H.expand(fn, gen.iter)
  if not (isinstance(it, ast.Call) and isinstance(it.func, ast.Attribute) and
          it.func.attr == "items" and isinstance(it.func.value, ast.Name) and
          it.func.value.id == p_info and isinstance(gen.target, ast.Tuple) and
          len(gen.target.elts) == 2 and text(comp.key) == text(gen.target.elts[0]) and
          text(comp.value) == text(gen.target.elts[1])):
    raise AnalysisError("doModifyColumn: filter of %s not recognised (%s)" % (p_info, short(comp)))
  kname, vname = text(gen.target.elts[0]), text(gen.target.elts[1])
  # the dict of the schema's current values
  def is_old_dict(f, e):
    d = H.deref(f, e)
    return isinstance(d, ast.Call) and endswith(f.name(d) or dotted(d.func), "col_to_dict")

  def verdict(f, e, k, v, olds, depth=0):
    """'ne' / 'eq': e is true exactly when the requested value differs from / equals the schema's;
    'normalised': it compares transformed operands; None: not recognised."""
    flip = {"eq": "ne", "ne": "eq"}
    if depth > 4:
      return None
    if isinstance(e, ast.Name):
      d = H.alias_value(f, e.id, pure_only=False)
      return verdict(f, d, k, v, olds, depth + 1) if d is not None else None
    if isinstance(e, ast.UnaryOp) and isinstance(e.op, ast.Not):
      r = verdict(f, e.operand, k, v, olds, depth + 1)
      return flip.get(r, r)
    def role(x):
      """'value' / 'old' for the two operands, 'value*' / 'old*' when wrapped in a call."""
      x0 = x
      if isinstance(x, ast.Name):
        if x.id == v:
          return "value"
        d = H.alias_value(f, x.id, pure_only=False)
        if d is None and x.id in olds:
          return "old"
        x = d if d is not None else x
      if isinstance(x, ast.Name) and x.id in olds:
        return "old"
      if isinstance(x, ast.Call) and isinstance(x.func, ast.Attribute) and x.func.attr == "get" \
          and x.args and text(x.args[0]) == k and is_old_dict(f, x.func.value) and \
          (len(x.args) == 1 or text(x.args[1]) == v):
        return "old"
      if isinstance(x, ast.Subscript) and text(x.slice) == k and is_old_dict(f, x.value):
        return "old"
      # a transformation of one of the operands: which operand occurs inside (maximal matches)
      def inside(y):
        out = set()
        for ch in ast.iter_child_nodes(y):
          if isinstance(ch, (ast.Name, ast.Call, ast.Subscript, ast.Attribute)):
            r = role(ch)
            if r is not None:
              out.add(r.rstrip("*"))
              continue
          out |= inside(ch)
        return out
      found = inside(x)
      return (found.pop() + "*") if len(found) == 1 else None
    if isinstance(e, ast.Compare) and len(e.ops) == 1 and \
        isinstance(e.ops[0], (ast.Eq, ast.NotEq)):
      rs = {role(e.left), role(e.comparators[0])}
      if rs == {"value", "old"}:
        return "eq" if isinstance(e.ops[0], ast.Eq) else "ne"
      if all(r is not None for r in rs) and {r.rstrip("*") for r in rs} == {"value", "old"}:
        return "normalised"
      return None
    if isinstance(e, ast.BoolOp):
      # `k not in old or old[k] != v` / `k in old and old[k] == v`
      rest = [x for x in e.values if not (isinstance(x, ast.Compare) and len(x.ops) == 1 and
                                          isinstance(x.ops[0], (ast.In, ast.NotIn)) and
                                          text(x.left) == k and is_old_dict(f, x.comparators[0]))]
      if len(rest) == 1:
        return verdict(f, rest[0], k, v, olds, depth + 1)
      return None
    if isinstance(e, ast.Call) and isinstance(e.func, ast.Name) and not e.keywords and \
        [text(a) for a in e.args] == [k, v]:
      # a local predicate (nested function or lambda) of the key and the requested value
      target = None
      for x in ast.walk(f.node):
        if isinstance(x, ast.FunctionDef) and x.name == e.func.id and x is not f.node:
          target = x
      lam = H.alias_value(f, e.func.id, pure_only=False)
      if target is None and isinstance(lam, ast.Lambda):
        ps = [a.arg for a in lam.args.args]
        return verdict(f, lam.body, ps[0], ps[1], olds, depth + 1) if len(ps) == 2 else None
      if target is None or len(target.args.args) != 2:
        return None
      pk, pv = [a.arg for a in target.args.args]
      # locals of the predicate that hold the schema's value
      hold = set(olds)
      for x in ast.walk(target):
        if isinstance(x, ast.Assign) and len(x.targets) == 1 and \
            isinstance(x.targets[0], ast.Name):
          c = x.value
          if isinstance(c, ast.Call) and isinstance(c.func, ast.Attribute) and \
              c.func.attr == "get" and c.args and text(c.args[0]) == pk and \
              is_old_dict(f, c.func.value):
            hold.add(x.targets[0].id)
          elif isinstance(c, ast.Subscript) and text(c.slice) == pk and is_old_dict(f, c.value):
            hold.add(x.targets[0].id)
      rets = [x.value for x in ast.walk(target) if isinstance(x, ast.Return)]
      vs = [verdict(f, r, pk, pv, hold, depth + 1) if r is not None else None for r in rets]
      if "normalised" in vs:
        return "normalised"
      if vs and all(x == vs[0] for x in vs) and vs[0] in ("eq", "ne"):
        return vs[0]
      return None
    return None
  vs = [verdict(fn, t, kname, vname, set()) for t in gen.ifs]
  if any(x is None for x in vs):
    raise AnalysisError("doModifyColumn: cannot interpret the no-op filter `%s`"
                        % short(gen.ifs[vs.index(None)], 80))
  ok = all(x == "ne" for x in vs)
  run.ob(R2, fn.qualname, "%s = {k: v for k, v in %s.items() if <schema value> != v}"
         % (p_info, p_info), "a requested property is dropped as unchanged only when it equals "
         "the schema's current value (plain comparison, nothing normalised): otherwise the "
         "column record gets a value the schema never sees", ok, fi=fn.fi,
         witness=None if ok else "filter: %s" % "; ".join(short(t, 70) for t in gen.ifs))


def _r2_update_translation(run, R2, w, mprops):
  """_updateColumnRecords: colId -> RenameColumn, type/isFormula/formula -> ModifyColumn via
  select_keys(values, _modify_col_schema_props), reverseCol -> reverseColId on both branches."""
  ufi = w.override_methods().get(("BulkUpdateRecord", TC))
  if ufi is None:
    raise AnalysisError("no @override_action('BulkUpdateRecord', %r) method" % TC)
  fn = H.inlined_fn(w, ufi.qualname)
  cfg = fn.cfg
  names = w.action_types()
  mods = [(n, H.norm(w, fn, c)) for (n, c, nm) in fn.calls() if nm == "self.doModifyColumn"]
  if len(mods) != 1 or len(mods[0][1].args) != 3 or not isinstance(mods[0][1].args[2], ast.Name):
    raise AnalysisError("_updateColumnRecords: expected one doModifyColumn(table, col, <name>) call")
  mn, mcall = mods[0]
  info = mcall.args[2].id
  d = H.single_def(fn, info)
  if isinstance(d, ast.Call) and dotted(d.func) != "select_keys" and \
      H.local_callee(w, fn, d) is not None:
    raise AnalysisError("_updateColumnRecords: %s is produced by helper %s; cannot follow"
                        % (info, short(d, 50)))
  if d is None:
    raise AnalysisError("_updateColumnRecords: %s has no single binding" % info)
  ok = isinstance(d, ast.Call) and dotted(d.func) == "select_keys" and len(d.args) == 2 and \
      text(d.args[1]) == "_modify_col_schema_props" and isinstance(d.args[0], ast.Name)
  run.ob(R2, fn.qualname, "%s = %s" % (info, short(d) if d is not None else "?"),
         "the schema change is the update restricted to _modify_col_schema_props", ok, fi=fn.fi)
  if not ok:
    return
  valvar = d.args[0].id
  sk = w.fn("useractions.select_keys")
  sdu = DefUse(sk)
  rets = H.return_values(sk, sdu, H.ReachDefs(sk, sdu))
  p0, p1 = sk.fi.params()[:2]
  ok = False
  if len(rets) == 1 and isinstance(rets[0][1], ast.DictComp) and \
      len(rets[0][1].generators) == 1:
    dc = rets[0][1]
    gen = dc.generators[0]
    ok = H.canon(sk, gen.iter) == "%s.items()" % p0 and \
        [text(i) for i in gen.ifs] == ["%s in %s" % (text(dc.key), p1)] and \
        text(gen.target) == "(%s, %s)" % (text(dc.key), text(dc.value))
  elif len(rets) != 1 or rets[0][1] is None:
    raise AnalysisError("select_keys: returned value not recognised")
  run.ob(R2, sk.qualname, "{k: v for k, v in d.items() if k in keys}",
         "select_keys keeps every requested key that is present, unchanged", ok, fi=sk.fi)
  # reverseCol -> reverseColId: whenever 'reverseCol' is among the values, every path to the
  # ModifyColumn assigns the key
  def has_reverse(e):
    return isinstance(e, ast.Compare) and len(e.ops) == 1 and isinstance(e.ops[0], ast.In) and \
        H.const_value(e.left) == (True, "reverseCol") and H.canon(fn, e.comparators[0]) == valvar
  def lacks_reverse(e):
    return isinstance(e, ast.Compare) and len(e.ops) == 1 and isinstance(e.ops[0], ast.NotIn) and \
        H.const_value(e.left) == (True, "reverseCol") and H.canon(fn, e.comparators[0]) == valvar
  given = lambda e: True if has_reverse(e) else (False if lacks_reverse(e) else None)
  tested = any(has_reverse(x) or lacks_reverse(x) for n in cfg.nodes if n.kind == "if"
               for x in ast.walk(n.stmt.test))
  assigns = {n.id for n in cfg.nodes if n.kind == "stmt" and isinstance(n.stmt, ast.Assign) and
             isinstance(n.stmt.targets[0], ast.Subscript) and
             H.canon(fn, n.stmt.targets[0].value) == info and
             H.const_value(n.stmt.targets[0].slice) == (True, "reverseColId")}
  dnodes = {n.id for n in cfg.nodes if n.kind == "stmt" and isinstance(n.stmt, ast.Assign) and
            n.stmt.value is d}
  ok = tested and bool(assigns) and bool(dnodes)
  wit = None
  if ok:
    starts = set()
    for x in dnodes:
      starts |= cfg.normal_succ(x)
    bad = mn.id in H.reach_assuming(cfg, starts, given, removed=assigns)
    ok = not bad and "reverseColId" in mprops
    if bad:
      wit = cfg.describe_path(cfg.path(next(iter(dnodes)), {mn.id}, removed=assigns, after=True))
  run.ob(R2, fn.qualname, "if 'reverseCol' in values: %s['reverseColId'] = ..." % info,
         "a metadata change of reverseCol reaches the schema as reverseColId on every branch "
         "(set and unset)", ok, witness=wit, fi=fn.fi)
  # the ModifyColumn is issued whenever there is something to change
  heads = H.loop_heads_around(fn, cfg, mn.stmt)
  stops = heads | {cfg.exit.id}
  nonempty = lambda e: True if isinstance(e, ast.Name) and e.id == info else None
  starts = set()
  for x in dnodes:
    starts |= cfg.normal_succ(x)
  ok = bool(dnodes) and not (H.reach_assuming(cfg, starts, nonempty, removed={mn.id}) & stops)
  run.ob(R2, fn.qualname, "if %s: self.doModifyColumn(...)" % info,
         "the schema change is applied whenever the restricted update is non-empty", ok, fi=fn.fi)
  # colId -> RenameColumn(table, old, values['colId']) whenever has_diff_value(values,'colId',old)
  ren = []
  for (n, c) in H.gateway_sites(fn):
    r = E.action_ctor(H.deref(fn, c.args[0]), names)
    if r and r[0] == "RenameColumn":
      ren.append((n, r[1]))
  ok = len(ren) == 1
  if ok:
    n, ctor = ren[0]
    a_old, a_new = H.action_arg(ctor, names, "RenameColumn", 1), \
        H.action_arg(ctor, names, "RenameColumn", 2)
    def renamed(e):
      if isinstance(e, ast.Call) and dotted(e.func) == "has_diff_value" and len(e.args) == 3 and \
          H.canon(fn, e.args[0]) == valvar and H.const_value(e.args[1]) == (True, "colId") and \
          a_old is not None and H.canon(fn, e.args[2]) == H.canon(fn, a_old):
        return True
      if isinstance(e, ast.Name):
        v = H.alias_value(fn, e.id, pure_only=False)
        return renamed(v) if v is not None else None
      return None
    heads = H.loop_heads_around(fn, cfg, n.stmt)
    body_first = set()
    for h in heads:
      body_first |= H.nodes_of_stmts(cfg, cfg.nodes[h].stmt.body[:1])
    tested = any(renamed(x) for m in cfg.nodes if m.kind == "if" for x in ast.walk(m.stmt.test))
    ok = H.action_nargs(ctor) == 3 and a_new is not None and \
        H.canon(fn, a_new) == "%s['colId']" % valvar and tested and bool(heads) and \
        not (H.reach_assuming(cfg, body_first, renamed, removed={n.id}) &
             (heads | {cfg.exit.id}))
  run.ob(R2, fn.qualname, "if has_diff_value(values, 'colId', c.colId): gateway(RenameColumn("
         "table, c.colId, values['colId']))", "a metadata change of colId reaches the schema as a "
         "RenameColumn from the old to the new id", ok, fi=fn.fi)


# ------------------------------------------------------------------------------------------ R3
def r3_rebuild_and_assert(run, w):
  R3 = run.rule("C08-R3", "schema doc actions rebuild usercode after their last schema write; a "
                "failing one restores the cloned schema; apply_user_actions asserts consistency "
                "whenever the schema was touched, also after a rollback", floor=18)
  cls = w.repo.cls("docactions.DocActions")
  for an in w.schema_action_names():
    if an not in cls.methods:
      raise AnalysisError("DocActions has no method %s" % an)
    fn = w.fn_of(cls.methods[an])
    cfg = fn.cfg
    sw = E.schema_write_nodes(fn)
    reb = H.always_nodes(w, fn, E.is_engine_call("rebuild_usercode"))
    if not sw:
      raise AnalysisError("%s: no schema write recognised (mechanism moved?)" % fn.qualname)
    bad = [s for s in sorted(sw) if not cfg.postdominated_by(s, reb)]
    wit = cfg.describe_path(cfg.path(bad[0], {cfg.exit.id}, removed=reb, after=True)) if bad else None
    run.ob(R3, fn.qualname, "schema write -> rebuild_usercode()",
           "every write to Engine.schema is followed by rebuild_usercode on every normal path",
           not bad, witness=wit, fi=fn.fi,
           node=cfg.nodes[bad[0]].stmt if bad else None)
  # C04-R3: clone / restore / _schema_updated = True before dispatch (recorded under C08-R3)
  from .c04 import r3_schema_restore
  r3_schema_restore(H.RuleAlias(run, {"C04-R3": R3}, w), H.NormWorld(w))
  run.rule(R3, run.rules[R3]["desc"], floor=18)
  # apply_user_actions (private helpers of Engine it calls are read in place)
  fn = w.fn("engine.Engine.apply_user_actions")
  a_recalc, a_undo, a_apply = (H.engine_anchor(w, "recalc"), H.engine_anchor(w, "undo"),
                               H.engine_anchor(w, "apply_one"))
  special = {a_recalc.name, a_undo.name, "assert_schema_consistent", "apply_doc_action",
             "rebuild_usercode"} | ({a_apply.name} if a_apply is not None else set())
  sel = lambda fi: fi.cls is not None and fi.cls.qualname == "engine.Engine" and \
      fi.name.startswith("_") and fi.name not in special
  NI = H.InlinedCFG(w, fn, exceptional=False, depth=2, select=sel)
  XI = H.InlinedCFG(w, fn, exceptional=True, depth=2, select=sel)
  ncfg, xcfg = NI.cfg, XI.cfg
  def region(I, stmts):
    ids = set(H.nodes_of_stmts(I.cfg, H.stmts_under(stmts)))
    grew = True
    while grew:
      grew = False
      for k, v in I.spliced.items():
        if k in ids and not v <= ids:
          ids |= v
          grew = True
    return ids
  def loop_of(cfg):
    """The loop over the user actions: a `for` of apply_user_actions itself whose iterable is
    built from the user_actions parameter (possibly through enumerate(), list(), ...)."""
    from ..astutil import names_loaded
    loops = [n for n in cfg.nodes if n.kind == "for" and
             fn.fi.params()[1] in names_loaded(H.expand(fn, n.stmt.iter))
             and any(n.stmt is x for x in H.stmts_under(fn.node.body))]
    if len(loops) != 1:
      raise AnalysisError("apply_user_actions: loop over the user actions not found")
    return loops[0]
  def flag_assign(cfg, val):
    return {n.id for n in cfg.nodes if n.kind == "stmt" and isinstance(n.stmt, ast.Assign) and
            text(n.stmt.targets[0]) == "self._schema_updated" and
            isinstance(n.stmt.value, ast.Constant) and n.stmt.value.value is val}
  touched = lambda e: True if text(e) == "self._schema_updated" else None
  def asserts_in(I, nodes):
    return {n.id for (n, c, nm) in I.calls() if nm == "self.assert_schema_consistent" and
            n.id in nodes}
  def dispatches(f, c, nm):
    """the user action is applied: self._apply_one_user_action(...), or the dispatch it consists
    of, getattr(self.user_actions, <name>)(*user_action), written in place"""
    if a_apply is not None and nm == "self." + a_apply.name:
      return True
    g = H.deref(f, c.func)
    return isinstance(g, ast.Call) and dotted(g.func) == "getattr" and g.args and \
        endswith(f.name(g.args[0]) or "", "user_actions", "_useractions")
  all_applies = {n.id for (n, c, nm) in NI.calls() if dispatches(NI.owner[n.id], c, nm)}
  if not all_applies:
    raise AnalysisError("apply_user_actions: no call that applies a user action found")
  # the loop over the user actions: the innermost `for` (of the function or of a private helper
  # read in place) around the application
  loops = [(len(region(NI, n.stmt.body)), n) for n in ncfg.nodes if n.kind == "for" and
           all_applies & region(NI, n.stmt.body)]
  if not loops:
    raise AnalysisError("apply_user_actions: loop over the user actions not found")
  lp = min(loops, key=lambda x: x[0])[1]
  body = region(NI, lp.stmt.body)
  applies = all_applies & body
  checks = asserts_in(NI, body)
  is_assert = lambda c, nm, f: isinstance(c.func, ast.Attribute) and \
      c.func.attr == "assert_schema_consistent"
  if not checks and H.hidden_in_callees(w, fn, is_assert, depth=4):
    raise AnalysisError("apply_user_actions: assert_schema_consistent is only called inside a "
                        "function that could not be read in place")
  # on the normal path, each applied user action that set the flag is followed by the assertion
  # before the next iteration / the end of the loop (however the test of the flag is spelled)
  bad = [a for a in applies
         if lp.id in H.reach_assuming(ncfg, set(ncfg.normal_succ(a)), touched, removed=checks)]
  run.ob(R3, fn.qualname, "if self._schema_updated: self.assert_schema_consistent()  (per user "
         "action)", "after each user action that touched the schema the consistency assertion "
         "runs before the next one starts", bool(checks) and not bad,
         witness=ncfg.describe_path(ncfg.path(bad[0], {lp.id}, removed=checks, after=True))
         if bad else None, fi=fn.fi)
  resets = flag_assign(ncfg, False)
  between = set()
  for a in applies:
    between |= ncfg.reach_after({a}, removed=checks | {lp.id})
  ok = bool(resets) and resets <= body and \
      all(ncfg.dominated_by(a, resets) for a in applies) and not (between & resets)
  run.ob(R3, fn.qualname, "self._schema_updated = False only at the start of each user action",
         "the flag is cleared before the action runs and never between the action and its check",
         ok, fi=fn.fi)
  # after a rollback
  undo = {n.id for (n, c, nm) in XI.calls() if nm == "self." + a_undo.name}
  hbody = set()
  for n in xcfg.nodes:
    if n.kind == "handler" and any(u in xcfg.reach_after({n.id}) for u in undo):
      hbody |= region(XI, n.stmt.body)
  undo &= hbody
  checks_h = asserts_in(XI, hbody)
  is_undo = lambda c, nm, f: isinstance(c.func, ast.Attribute) and \
      c.func.attr == a_undo.name
  if (not undo and H.hidden_in_callees(w, fn, is_undo, depth=4)) or \
      (undo and not checks_h and H.hidden_in_callees(w, fn, is_assert, depth=4)):
    raise AnalysisError("apply_user_actions: the rollback / the check after it is inside a "
                        "function that could not be read in place")
  xexits = {xcfg.exit.id, xcfg.raise_exit.id}
  # (what follows the rollback in the handler is followed as long as it completes: a statement of
  # the handler that itself fails ends the handler with that failure, which is not the schema
  # check being skipped)
  def after_undo(u):
    cut = H.impossible_edges(xcfg, touched) | set(xcfg.exc_edges)
    return H._reach_cut_edges(xcfg, set(xcfg.normal_succ(u)), cut, removed=checks_h)
  ok = bool(undo) and bool(checks_h) and all(not (after_undo(u) & xexits) for u in undo)
  run.ob(R3, fn.qualname, "_undo_to_checkpoint(...) -> if self._schema_updated: "
         "assert_schema_consistent()", "after a rollback the schema is compared with the metadata "
         "again", ok, fi=fn.fi)
  # assert_schema_consistent compares Engine.schema with build_schema(metadata) and checks strays
  ac = H.inlined_fn(w, "engine.Engine.assert_schema_consistent")
  du = DefUse(ac)
  bsc = [c for (n, c, nm) in ac.calls() if endswith(nm, "schema.build_schema")]
  fetched = {}
  for s in ast.walk(ac.node):
    if isinstance(s, ast.Assign) and isinstance(s.value, ast.Call) and \
        ac.name(s.value) == "self.fetch_table" and isinstance(s.targets[0], ast.Name):
      fa = H.norm(w, ac, s.value).args
      if fa and isinstance(fa[0], ast.Constant):
        fetched[s.targets[0].id] = fa[0].value
  bsc = [H.norm(w, ac, c) for c in bsc]
  ok = len(bsc) == 1 and len(bsc[0].args) >= 2 and \
      [fetched.get(text(a)) for a in bsc[0].args[:2]] == [TT, TC]
  raises = {n.id for n in ac.cfg.nodes if n.kind == "raise_stmt"}
  def raising_if(n, cmp, value=True):
    """Once the comparison `cmp` tested at node n has the given truth value, every path raises."""
    holds = lambda e: value if e is cmp else None
    r = H.reach_assuming(ac.cfg, {n.id}, holds)
    return bool(r & raises) and ac.cfg.exit.id not in r
  is_schema = lambda x: isinstance(x, ast.Attribute) and text(x) == "self.schema"
  is_built = lambda x: isinstance(x, ast.Call) and endswith(dotted(x.func), "build_schema")
  cmp_ok = False
  stray_ok = False
  for n in ac.cfg.nodes:
    if n.kind != "if":
      continue
    for t in ast.walk(n.stmt.test):
      if not isinstance(t, ast.Compare) or len(t.ops) != 1:
        continue
      l, r = t.left, t.comparators[0]
      op = t.ops[0]
      if isinstance(op, (ast.NotEq, ast.Eq)):
        fl = [(du.flows_from(is_schema, s), du.flows_from(is_built, s)) for s in (l, r)]
        if (fl[0][0] and fl[1][1]) or (fl[1][0] and fl[0][1]):
          cmp_ok = cmp_ok or raising_if(n, t, isinstance(op, ast.NotEq))
      if isinstance(op, (ast.Gt, ast.Lt, ast.LtE, ast.GtE)):
        strict = isinstance(op, (ast.Gt, ast.Lt))
        if isinstance(op, (ast.Lt, ast.GtE)):
          l, r = r, l
        # now: l > r (strict) or l <= r (not strict), l the larger side when violated
        is_parent = lambda x: isinstance(x, ast.Subscript) and isinstance(x.slice, ast.Constant) \
            and x.slice.value == "parentId"
        is_rows = lambda x: isinstance(x, ast.Attribute) and x.attr == "row_ids"
        if du.flows_from(is_parent, l) and du.flows_from(is_rows, r):
          stray_ok = stray_ok or raising_if(n, t, strict)
  if not (cmp_ok and stray_ok):
    # not finding a comparison is no evidence that it is not made: it may sit in a helper
    hidden = [c for (n, c, nm) in ac.calls() if H.local_callee(w, ac, c) is not None and
              nm not in ("self.fetch_table",)]
    if hidden:
      raise AnalysisError("assert_schema_consistent: comparison not found in the function "
                          "itself, and %s could not be read in place" % short(hidden[0], 60))
  run.ob(R3, ac.qualname, "build_schema(fetch(_grist_Tables), fetch(_grist_Tables_column)) != "
         "self.schema -> raise", "the assertion compares the engine's schema with the one the two "
         "metadata tables describe and raises on a difference", ok and cmp_ok, fi=ac.fi)
  run.ob(R3, ac.qualname, "set(column parentIds) > set(table row ids) -> raise",
         "column records that belong to no table are reported", stray_ok, fi=ac.fi)


# ------------------------------------------------------------------------------------------ R4
def r4_suppression(run, w):
  R4 = run.rule("C08-R4", "every `_should_rebuild_usercode = False` is undone by `= True` on every "
                "path (normal and exceptional) and followed by rebuild_usercode() on the normal "
                "path", floor=1)
  def flag_nodes(fn, cfg, val):
    return {n.id for n in cfg.nodes if n.kind == "stmt" and isinstance(n.stmt, ast.Assign) and
            isinstance(n.stmt.targets[0], ast.Attribute) and
            n.stmt.targets[0].attr == "_should_rebuild_usercode" and
            isinstance(n.stmt.value, ast.Constant) and n.stmt.value.value is val}
  for fi in w.repo.all_functions():
    if not any(isinstance(x, ast.Attribute) and x.attr == "_should_rebuild_usercode" and
               isinstance(x.ctx, ast.Store) for x in ast.walk(fi.node)):
      continue
    fn = w.fn_of(fi)
    cfg = fn.xcfg
    other = [n for n in cfg.nodes if n.kind == "stmt" and isinstance(n.stmt, ast.Assign) and
             isinstance(n.stmt.targets[0], ast.Attribute) and
             n.stmt.targets[0].attr == "_should_rebuild_usercode" and
             not (isinstance(n.stmt.value, ast.Constant) and
                  isinstance(n.stmt.value.value, bool))]
    if other:
      raise AnalysisError("%s: _should_rebuild_usercode assigned a non-literal" % fi.qualname)
    offs, ons = flag_nodes(fn, cfg, False), flag_nodes(fn, cfg, True)
    reb = fn.nodes_calling(lambda c, nm, f: endswith(nm, "rebuild_usercode"), cfg)
    for o in sorted(offs):
      ok1 = bool(ons) and cfg.postdominated_by(o, ons, exits={cfg.exit.id, cfg.raise_exit.id},
                                               completed=True)
      wit = None
      if not ok1:
        wit = cfg.describe_path(cfg.path(o, {cfg.exit.id, cfg.raise_exit.id}, removed=ons,
                                         after=True, completed=True))
      run.ob(R4, fi.qualname, "_should_rebuild_usercode = False ... = True",
             "the suppression is lifted on every path out of the function, exceptional ones "
             "included", ok1, witness=wit, fi=fi, node=cfg.nodes[o].stmt)
      # on the normal path a rebuild follows the re-enabling
      ncfg = fn.cfg
      offs_n, ons_n = flag_nodes(fn, ncfg, False), flag_nodes(fn, ncfg, True)
      reb_n = fn.nodes_calling(lambda c, nm, f: endswith(nm, "rebuild_usercode"))
      after_on = set()
      for x in ons_n:
        after_on |= ncfg.reach_after({x})
      good = reb_n & after_on
      ok2 = all(ncfg.postdominated_by(x, good) for x in offs_n) and bool(good)
      run.ob(R4, fi.qualname, "... = True -> rebuild_usercode()",
             "the schema changes made while rebuilding was suppressed are compiled before the "
             "function returns", ok2, fi=fi, node=cfg.nodes[o].stmt)


D = "sandbox/grist/docactions.py"
U = "sandbox/grist/useractions.py"
EN = "sandbox/grist/engine.py"
SC = "sandbox/grist/schema.py"
IA = "sandbox/grist/import_actions.py"
VARIANTS = [
  # R1
  ("removecolumns-keeps-metadata", U,
   "    self.doBulkRemoveRecord('_grist_Tables_column', [int(c) for c in all_removals])\n", "",
   "C08-R1"),
  ("removetable-keeps-column-records", U,
   "    self.doBulkRemoveRecord('_grist_Tables_column', col_row_ids)\n", "", "C08-R1"),
  ("renametable-metadata-only-when-renamed", U,
   "    # Update the metadata to reflect the renamed tables.\n    self.doBulkUpdateFromPairs(table_id, update_pairs)\n",
   "    # Update the metadata to reflect the renamed tables.\n    if not table_renames:\n      return\n    self.doBulkUpdateFromPairs('_grist_Tables_column', col_updates.items())\n",
   "C08-R1"),
  ("addcolumn-metadata-skipped-for-helpers", U,
   "    inserted = self._docmodel.insert(table_rec.columns, position, **values)\n\n    return {\n      'colRef': inserted[0].id,",
   "    if col_id.startswith('gristHelper_'):\n      return {'colRef': 0, 'colId': col_id}\n    inserted = self._docmodel.insert(table_rec.columns, position, **values)\n\n    return {\n      'colRef': inserted[0].id,",
   "C08-R1"),
  ("column-update-writes-wrong-table", U,
   "    self.doBulkUpdateFromPairs(table_id, update_pairs)\n\n    if renames:",
   "    self.doBulkUpdateFromPairs('_grist_Tables', update_pairs)\n\n    if renames:", "C08-R1"),
  # R2
  ("modifycolumn-undo-drops-default", D,
   "schema.col_to_dict(old, include_id=False, include_default=True).items()",
   "schema.col_to_dict(old, include_id=False).items()", "C08-R2"),
  ("domodify-filter-drops-default", U,
   "                                      include_id=False, include_default=True)\n\n    col_info = {k: v",
   "                                      include_id=False)\n\n    col_info = {k: v", "C08-R2"),
  ("modify-props-lack-reversecolid", U,
   "_modify_col_schema_props = {'type', 'formula', 'isFormula', 'reverseColId'}",
   "_modify_col_schema_props = {'type', 'formula', 'isFormula'}", "C08-R2"),
  ("modifycolumn-ignores-reversecolid", D,
   "col_info.get('reverseColId', old.reverseColId))", "old.reverseColId)", "C08-R2"),
  ("modifycolumn-wrong-default", D,
   "col_info.get('formula', old.formula),", "col_info.get('formula', old.type),", "C08-R2"),
  ("unset-reversecol-not-translated", U,
   "        else:\n          schema_colinfo['reverseColId'] = None\n", "", "C08-R2"),
  ("summary-column-rename-not-applied-to-schema", U,
   "      if has_diff_value(values, 'colId', c.colId):\n        self._do_doc_action(actions.RenameColumn(",
   "      if has_diff_value(values, 'colId', c.colId) and not c.summarySourceCol:\n        self._do_doc_action(actions.RenameColumn(",
   "C08-R2"),
  ("noop-filter-ignores-formula-whitespace", U,
   "    col_info = {k: v for k, v in col_info.items() if old_col_info.get(k, v) != v}",
   "    def is_unchanged(key, value):\n      old_value = old_col_info.get(key, value)\n      if key == 'formula' and isinstance(old_value, str) and isinstance(value, str):\n        return old_value.strip() == value.strip()\n      return old_value == value\n\n    col_info = {k: v for k, v in col_info.items() if not is_unchanged(k, v)}",
   "C08-R2"),
  ("noop-filter-compares-as-text", U,
   "    col_info = {k: v for k, v in col_info.items() if old_col_info.get(k, v) != v}",
   "    col_info = {k: v for k, v in col_info.items() if str(old_col_info.get(k, v)) != str(v)}",
   "C08-R2"),
  ("col-to-dict-default-skips-reverse", SC,
   "  if col.reverseColId or include_default:", "  if col.reverseColId:", "C08-R2"),
  ("undo-from-new-column", D,
   "schema.col_to_dict(old, include_id=False, include_default=True).items()\n                     if k in col_info}",
   "schema.col_to_dict(new, include_id=False, include_default=True).items()\n                     if k in col_info}",
   "C08-R2"),
  # R3
  ("modifycolumn-single-rebuild", D,
   "    schema_table_info.columns[col_id] = new\n    self._engine.rebuild_usercode()\n",
   "    schema_table_info.columns[col_id] = new\n", "C08-R3"),
  ("no-assert-after-useraction", EN,
   "        # If the UserAction touched the schema, check that it is now consistent with metadata.\n        if self._schema_updated:\n          self.assert_schema_consistent()\n",
   "", "C08-R3"),
  ("no-assert-after-rollback", EN,
   "        if self._schema_updated:\n          self.assert_schema_consistent()\n      except Exception:\n        log.error(\"Inconsistent schema",
   "        pass\n      except Exception:\n        log.error(\"Inconsistent schema", "C08-R3"),
  ("flag-reset-after-action", EN,
   "        self.out_actions.retValues.append(self._apply_one_user_action(user_action))\n",
   "        self.out_actions.retValues.append(self._apply_one_user_action(user_action))\n        self._schema_updated = False\n",
   "C08-R3"),
  ("flag-armed-after-dispatch", EN,
   "      self._schema_updated = True\n      # Make a copy of the schema.",
   "      # Make a copy of the schema.", "C08-R3"),
  # R4
  ("suppression-not-in-finally", IA,
   "    finally:\n      self._engine._should_rebuild_usercode = True\n    self._engine.rebuild_usercode()",
   "    finally:\n      pass\n    self._engine._should_rebuild_usercode = True\n    self._engine.rebuild_usercode()",
   "C08-R4"),
  ("suppression-no-final-rebuild", IA,
   "      self._engine._should_rebuild_usercode = True\n    self._engine.rebuild_usercode()\n",
   "      self._engine._should_rebuild_usercode = True\n", "C08-R4"),
]
