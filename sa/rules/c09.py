"""C09 Metadata references always resolve -- structural clauses (DESIGN.md section 4, C09).

Deviation from the design text (R2): the cascade table does not list "column => display/rule helper
columns". doRemoveColumns removes them eagerly only to avoid recalculation; what the property needs
is that unused helpers disappear, and that is the auto-removal mechanism decided by R3 (a
behaviour-preserving edit could drop the eager removal). The other owning references are kept.
"""
import ast
from ..fn import World
from ..index import AnalysisError, dotted
from ..astutil import text, short, endswith, calls_in, walk_no_nested
from ..dataflow import DefUse
from .. import events as E
from .. import types as T
from . import _h_B as H

EXPLANATION = (
  "Decides the removal discipline metadata integrity rests on: record removals reach the gateway "
  "only through doBulkRemoveRecord (which also clears references to the removed rows, C10), and "
  "every table-specific BulkRemoveRecord override ends in doBulkRemoveRecord for its own table on "
  "every normal path (R1); for each owning reference of the metadata (table=>columns, "
  "viewSections; view=>tabBarItems, viewSections, pageItems; section=>fields; column=>viewFields; "
  "each confirmed against schema.py and MetaTableExtras) the remover of the parent passes the "
  "child accessor's records to a removal call on every normal path, reading the accessor before "
  "the parent goes (R2); every setAutoRemove formula reports to docmodel.setAutoRemove(rec, ...), "
  "apply_auto_removes reads the set before clearing it, removes under indirect_actions(), reports "
  "whether anything was removed, and apply_user_actions loops on it, recalculating after each "
  "round, until nothing is left (R3); every table is created with a raw view section that is "
  "recorded in rawViewSectionRef (R4); when a summary section is regrouped, the fields kept and "
  "the fields re-pointed are found by the column ids of the OLD table's columns that are carried "
  "over (group-by columns kept, formula columns copied), never by ids requested for or given in "
  "the new table, so that every old field is either deleted or re-pointed (R6). Not decided: resolution of non-owning references after "
  "arbitrary cascades; the values written.")

# Owning references: (parent table, accessor on the parent record, child table, child field, why
# the child cannot outlive the parent).
CASCADE = [
  ("_grist_Tables", "columns", "_grist_Tables_column", "parentId",
   "a column record of no table is exactly what C08/C09 forbid"),
  ("_grist_Tables", "viewSections", "_grist_Views_section", "tableRef",
   "a section must show an existing table"),
  ("_grist_Views", "tabBarItems", "_grist_TabBar", "viewRef", "a tab of no view"),
  ("_grist_Views", "viewSections", "_grist_Views_section", "parentId",
   "a non-raw section must sit in an existing view"),
  ("_grist_Views", "pageItems", "_grist_Pages", "viewRef", "a page of no view"),
  ("_grist_Views_section", "fields", "_grist_Views_section_field", "parentId",
   "a field of no section"),
  ("_grist_Tables_column", "viewFields", "_grist_Views_section_field", "colRef",
   "a field must show a column of its section's table"),
]
# setAutoRemove formulas that report only for some records, with the reason this is no C09 matter.
AUTOREMOVE_PARTIAL = {
  "_grist_Cells": "only comment cells (type 1) are ever auto-removed; other cell kinds are kept "
                  "by design and C09 names no reference of _grist_Cells",
}
REMOVE_KINDS = ("RemoveRecord", "BulkRemoveRecord")


def check(run, repo, tier):
  w = World(repo)
  from ._extra import c10_updates_unfiltered
  run.guard(c10_updates_unfiltered, run, w, "C09-R5")
  r1_removal_funnel(run, w, "C09-R1")
  r2_cascade(run, w)
  r3_auto_remove(run, w)
  r4_raw_section(run, w)
  r6_regrouped_fields(run, w)


# ------------------------------------------------------------------------------------------ R1
def _always_removes(w, fi, table):
  """True when every normal path through UserActions helper `fi` calls
  self.doBulkRemoveRecord(<literal table>, ...)."""
  fn = H.inlined_fn(w, fi.qualname)
  du = DefUse(fn)
  nodes = {n.id for (n, c, nm) in fn.calls() if nm == "self.doBulkRemoveRecord" and
           H.funnel_args(w, c)[0] is not None and
           H.table_arg_value(fn, du, n.id, H.funnel_args(w, c)[0]) == table}
  return bool(nodes) and fn.cfg.dominated_by(fn.cfg.exit.id, nodes)


def _helper_calls(w, fn):
  """[(node, call, FuncInfo)] for self.<method>(...) calls of fn that resolve to plain helper
  methods of UserActions (not @useraction entry points, not the funnel itself)."""
  ci = w.repo.cls("useractions.UserActions")
  ua = w.useraction_methods()
  out = []
  for (n, c, nm) in fn.calls():
    if nm and nm.startswith("self.") and nm.count(".") == 1:
      m = nm.split(".")[1]
      if m in ci.methods and m not in ua and m != "doBulkRemoveRecord":
        out.append((n, c, ci.methods[m]))
  return out


def r1_removal_funnel(run, w, rid):
  R1 = run.rule(rid, "record removals reach the gateway only in doBulkRemoveRecord; every "
                "BulkRemoveRecord override reaches doBulkRemoveRecord for its own table on every "
                "normal path; the user-level entry points dispatch to it", floor=11)
  names = w.action_types()
  funnel = "useractions.UserActions.doBulkRemoveRecord"
  n_sites = 0
  for fi in w.repo.all_functions():
    fn = w.fn_of(fi)
    sites = H.gateway_sites(fn)
    if not sites:
      continue
    du = DefUse(fn)
    for (n, c) in sites:
      kinds, _prod = H.classify_gateway_arg(fn, du, c, names)
      if kinds & set(REMOVE_KINDS):
        n_sites += 1
        run.ob(R1, fi.qualname, short(c), "a record removal is handed to the gateway only by "
               "doBulkRemoveRecord (which also clears the references to the removed rows)",
               fi.qualname == funnel or H.is_private_part(w, fi) == (True, funnel), fi=fi,
               node=c)
  if n_sites == 0:
    raise AnalysisError("no gateway call with a record removal found (funnel moved?)")
  # overrides
  ov = {t: f for ((a, t), f) in w.override_methods().items() if a == "BulkRemoveRecord"}
  if not ov:
    raise AnalysisError("no @override_action('BulkRemoveRecord', ...) methods found")
  is_funnel = lambda c, nm, f: isinstance(c.func, ast.Attribute) and \
      c.func.attr == "doBulkRemoveRecord"
  for t, fi in sorted(ov.items()):
    fn = H.inlined_fn(w, fi.qualname)
    du = DefUse(fn)
    cfg = fn.cfg
    nodes = set()
    for (n, c, nm) in fn.calls():
      if nm == "self.doBulkRemoveRecord" and H.funnel_args(w, c)[0] is not None and \
          H.table_arg_value(fn, du, n.id, H.funnel_args(w, c)[0], t) == t:
        nodes.add(n.id)
    for (n, c, hfi) in _helper_calls(w, fn):
      if _always_removes(w, hfi, t):
        nodes.add(n.id)
    ok = bool(nodes) and cfg.dominated_by(cfg.exit.id, nodes)
    wit = None
    if not ok:
      direct = {n.id for (n, c, nm) in fn.calls() if is_funnel(c, nm, fn)} | nodes
      deeper = H.may_nodes(w, fn, is_funnel, depth=3) - direct
      if deeper and cfg.dominated_by(cfg.exit.id, nodes | deeper):
        raise AnalysisError("%s: the funnel is reached only through a helper that could not be "
                            "followed (%s)" % (fi.qualname, short(cfg.nodes[min(deeper)].stmt, 60)))
      wit = cfg.describe_path(cfg.path(cfg.entry.id, {cfg.exit.id}, removed=nodes))
    run.ob(R1, fi.qualname, "-> self.doBulkRemoveRecord(%r, ...)" % t,
           "the override removes the records of its own table through the funnel on every normal "
           "path", ok, witness=wit, fi=fi)
  # dispatch: BulkRemoveRecord -> overrides.get((name, table), doBulkRemoveRecord)(table, rows)
  br = H.inlined_fn(w, "useractions.UserActions.BulkRemoveRecord")
  ps = br.fi.params()
  ok = False
  calls = set()
  shape_ok = True
  for (n, c, nm) in br.calls():
    f = H.deref(br, c.func)
    if isinstance(f, ast.Call) and endswith(br.name(f), "_overrides.get") and len(f.args) == 2:
      key, default = H.deref(br, f.args[0]), f.args[1]
      good = isinstance(key, ast.Tuple) and len(key.elts) == 2 and \
          H.const_value(H.deref(br, key.elts[0])) == (True, "BulkRemoveRecord") and \
          H.canon(br, key.elts[1]) == ps[1] and H.canon(br, default) == "self.doBulkRemoveRecord" \
          and [H.canon(br, a) for a in c.args] == [ps[1], ps[2]] and not c.keywords
      shape_ok = shape_ok and good
      calls.add(n.id)
  if not calls:
    mentions = lambda x: isinstance(x, ast.Attribute) and x.attr == "_overrides"
    if not any(mentions(x) for x in ast.walk(br.node)) and \
        H.mentions_in_reach(w, br, mentions, depth=3):
      raise AnalysisError("BulkRemoveRecord: the override dispatch is inside a helper that "
                          "could not be read in place")
  ok = bool(calls) and shape_ok and br.cfg.dominated_by(br.cfg.exit.id, calls) and \
      not DefUse(br).rebinders(ps[1]) and not DefUse(br).rebinders(ps[2])
  run.ob(R1, br.qualname, "self._overrides.get(('BulkRemoveRecord', table_id), "
         "self.doBulkRemoveRecord)(table_id, row_ids)", "the user action runs the table's "
         "override, else the funnel, with its own arguments on every normal path", ok, fi=br.fi)
  for q, callee in (("useractions.UserActions.RemoveRecord", "self.BulkRemoveRecord"),
                    ("docmodel.DocModel.remove", "user_actions.BulkRemoveRecord")):
    fn = H.inlined_fn(w, q)
    nodes = {n.id for (n, c, nm) in fn.calls() if endswith(nm, callee)}
    others = [c for (n, c) in H.gateway_sites(fn)]
    if not nodes and H.hidden_in_callees(
        w, fn, lambda c, nm, f: isinstance(c.func, ast.Attribute) and
        c.func.attr == "BulkRemoveRecord", depth=3):
      raise AnalysisError("%s: BulkRemoveRecord is only called inside a helper that could not be "
                          "read in place" % q)
    # DocModel.remove delegates once per table group (inside its loop); RemoveRecord on every path
    in_loop = [x for x in nodes if H.loop_heads_around(fn, fn.cfg, fn.cfg.nodes[x].stmt)]
    run.ob(R1, q, "-> %s(...)" % callee, "removal entry point delegates to the BulkRemoveRecord "
           "user action", bool(nodes) and not others and
           (bool(in_loop) or fn.cfg.dominated_by(fn.cfg.exit.id, nodes)), fi=fn.fi)


# ------------------------------------------------------------------------------------------ R2
def _removal_calls(w, fn, du, child, handles, own_table):
  """[(node, records argument)] for calls in fn that remove records of table `child`."""
  out = []
  for (n, c, nm) in fn.calls():
    if nm == "self.doBulkRemoveRecord":
      ta, ra = H.funnel_args(w, c)
      if ta is not None and ra is not None and \
          H.table_arg_value(fn, du, n.id, ta, own_table) == child:
        out.append((n, ra))
    elif isinstance(c.func, ast.Attribute) and c.func.attr == "remove" and \
        fn.type_of(c.func.value) == T.DOCMODEL:
      a = H.bound_args(w, c, "docmodel.DocModel.remove", 1)
      if a and a[0] is not None:
        t = H.record_table_of(fn, a[0], w, handles, own_table=own_table)
        if t == child:
          out.append((n, a[0]))
  for (n, c, hfi) in _helper_calls(w, fn):
    a = H.bound_args(w, c, hfi.qualname, 1)
    if a and a[0] is not None and len(hfi.params()) == 2 and \
        _always_removes(w, hfi, child) and _removes_its_param(w, hfi, child):
      out.append((n, a[0]))
  return out


def _removes_its_param(w, hfi, table):
  fn = w.fn_of(hfi)
  ps = hfi.params()
  if len(ps) != 2:
    return False
  du = DefUse(fn)
  for (n, c, nm) in fn.calls():
    ta, ra = H.funnel_args(w, c) if nm == "self.doBulkRemoveRecord" else (None, None)
    if ta is not None and ra is not None and \
        H.table_arg_value(fn, du, n.id, ta) == table and \
        du.flows_from(lambda x: isinstance(x, ast.Name) and x.id == ps[1], ra):
      return True
  return False


def r2_cascade(run, w):
  R2 = run.rule("C09-R2", "owning references: the remover of the parent removes the records of "
                "the child accessor on every normal path, reading the accessor before the parent "
                "is removed", floor=14)
  acc = H.record_accessors(w)
  cols = H.meta_ref_columns(w)
  handles = H.docmodel_handles(w)
  ov = {t: f for ((a, t), f) in w.override_methods().items() if a == "BulkRemoveRecord"}
  for (parent, accessor, child, field, why) in CASCADE:
    a = acc.get(parent, {}).get(accessor)
    run.ob(R2, "docmodel.MetaTableExtras.%s" % parent, "%s = _record_set(%r, %r)"
           % (accessor, child, field), "the accessor lists the %s records whose %s is this record; "
           "schema.py declares that field as Ref:%s" % (child, field, parent),
           a is not None and a[0] == child and a[1] == field and a[2] == "_record_set" and
           cols.get((child, field)) == "Ref:" + parent, nontrivial=False)
    if parent not in ov:
      run.ob(R2, "useractions.UserActions", "@override_action('BulkRemoveRecord', %r)" % parent,
             "the parent table has a remover that can cascade", False, nontrivial=False)
      continue
    top = H.inlined_fn(w, ov[parent].qualname)
    cands = [(top, None)]
    for (n, c, hfi) in _helper_calls(w, top):
      if top.cfg.dominated_by(top.cfg.exit.id, {n.id}):
        cands.append((w.fn_of(hfi), n))
    found = None
    for (fn, via) in cands:
      du = DefUse(fn)
      own = parent if via is None else None
      for (n, arg) in _removal_calls(w, fn, du, child, handles, own):
        if not du.flows_from(lambda x: isinstance(x, ast.Attribute) and x.attr == accessor and
                             isinstance(x.ctx, ast.Load), arg):
          continue
        found = (fn, du, n, arg)
        break
      if found:
        break
    site = "%s.%s" % (parent, accessor)
    if not found:
      def reads_in(f, depth, seen):
        """the accessor is read on a record that is, or may be, one of the parent table"""
        if f.qualname in seen:
          return False
        seen.add(f.qualname)
        for x in ast.walk(f.node):
          if isinstance(x, ast.Attribute) and x.attr == accessor and isinstance(x.ctx, ast.Load):
            base = H.record_table_of(f, x.value, w, handles,
                                     own_table=parent if f is top else None)
            if base in (parent, None):
              return True
        if depth > 0:
          for (n_, c_, nm_) in f.calls():
            hfi = H.local_callee(w, f, c_)
            if hfi is not None and reads_in(w.fn_of(hfi), depth - 1, seen):
              return True
        return False
      if reads_in(top, 3, set()):
        raise AnalysisError("%s: %s is read in the remover (or a helper of it) but the removal "
                            "of its records could not be identified" % (top.qualname, site))
      run.ob(R2, top.qualname, "%s -> removal of %s" % (site, child),
             "the records listed by the accessor are passed to a removal call (%s)" % why, False,
             fi=top.fi)
      continue
    fn, du, n, arg = found
    cfg = fn.cfg
    ok = cfg.dominated_by(cfg.exit.id, {n.id})
    run.ob(R2, fn.qualname, "%s -> %s" % (site, short(cfg.nodes[n.id].stmt)),
           "the child records are removed on every normal path of the parent's remover (%s)" % why,
           ok, witness=None if ok else cfg.describe_path(
             cfg.path(cfg.entry.id, {cfg.exit.id}, removed={n.id})), fi=fn.fi,
           node=cfg.nodes[n.id].stmt)
    # the accessor is evaluated before the parent's own records are removed
    feed = du.backward_slice([arg]) | {n.id}
    readers = {x for x in feed if any(isinstance(y, ast.Attribute) and y.attr == accessor
                                      for e in cfg.nodes[x].exprs if e is not None
                                      for y in ast.walk(e))}
    parent_rm = {m.id for (m, c, nm) in fn.calls() if nm == "self.doBulkRemoveRecord" and
                 H.funnel_args(w, c)[0] is not None
                 and H.table_arg_value(fn, du, m.id, H.funnel_args(w, c)[0],
                                       parent if fn is top else None) == parent}
    late = readers & cfg.reach_after(parent_rm) if parent_rm else set()
    run.ob(R2, fn.qualname, "%s read before %s rows are removed" % (site, parent),
           "the accessor is a lookup by the parent's id; once the parent row is gone (and "
           "references to it cleared) it finds nothing", bool(readers) and not late, fi=fn.fi,
           node=cfg.nodes[n.id].stmt)


# ------------------------------------------------------------------------------------------ R3
def r3_auto_remove(run, w):
  R3 = run.rule("C09-R3", "auto-removal: every setAutoRemove formula reports to "
                "docmodel.setAutoRemove(rec, cond); apply_auto_removes reads, clears, removes "
                "indirectly and reports; apply_user_actions loops on it with recalculation",
                floor=10)
  ci = w.repo.cls("docmodel.MetaTableExtras")
  n_formulas = 0
  for tname, inner in sorted(ci.inner.items()):
    fi = inner.methods.get("setAutoRemove")
    if fi is None:
      continue
    n_formulas += 1
    fn = w.fn_of(fi)
    cfg = fn.cfg
    ps = fi.params()
    rep = {n.id for (n, c, nm) in fn.calls() if endswith(nm, "docmodel.setAutoRemove") and
           nm.split(".")[0] == ps[1] and len(H.norm(w, fn, c).args) == 2 and
           H.canon(fn, H.norm(w, fn, c).args[0]) == ps[0]}
    if tname in AUTOREMOVE_PARTIAL:
      run.ob(R3, fi.qualname, "table.docmodel.setAutoRemove(rec, <cond>)",
             "named exception (%s): the formula reports for the records it covers"
             % AUTOREMOVE_PARTIAL[tname], bool(rep), fi=fi, nontrivial=False)
      continue
    if not rep and H.hidden_in_callees(
        w, fn, lambda c, nm, f: isinstance(c.func, ast.Attribute) and
        c.func.attr == "setAutoRemove", depth=2):
      raise AnalysisError("%s: setAutoRemove is only called inside a helper" % fi.qualname)
    ok = bool(rep) and cfg.dominated_by(cfg.exit.id, rep)
    run.ob(R3, fi.qualname, "table.docmodel.setAutoRemove(rec, <cond>)",
           "every evaluation of the formula reports its verdict for its own record (marks or "
           "unmarks it)", ok, witness=None if ok else cfg.describe_path(
             cfg.path(cfg.entry.id, {cfg.exit.id}, removed=rep)), fi=fi)
  if n_formulas < 2:
    raise AnalysisError("MetaTableExtras: setAutoRemove formulas not found")
  # DocModel.setAutoRemove: add when true, discard otherwise
  sa = H.inlined_fn(w, "docmodel.DocModel.setAutoRemove")
  ps = sa.fi.params()
  adds = {n.id for (n, c, nm) in sa.calls() if endswith(nm, "_auto_remove_set.add") and
          len(c.args) == 1 and H.canon(sa, c.args[0]) == ps[1]}
  drops = {n.id for (n, c, nm) in sa.calls()
           if endswith(nm, "_auto_remove_set.discard", "_auto_remove_set.remove") and
           len(c.args) == 1 and H.canon(sa, c.args[0]) == ps[1]}
  verdict = lambda v: (lambda e: v if H.canon(sa, e) == ps[2] else None)
  scfg = sa.cfg
  yes_reach = H.reach_assuming(scfg, {scfg.entry.id}, verdict(True))
  no_reach = H.reach_assuming(scfg, {scfg.entry.id}, verdict(False))
  ok = bool(adds) and bool(drops) and \
      scfg.exit.id not in H.reach_assuming(scfg, {scfg.entry.id}, verdict(True), removed=adds) and \
      scfg.exit.id not in H.reach_assuming(scfg, {scfg.entry.id}, verdict(False), removed=drops) \
      and not (yes_reach & drops) and not (no_reach & adds) and not DefUse(sa).rebinders(ps[2])
  run.ob(R3, sa.qualname, "if yes: set.add(record) else: set.discard(record)",
         "a verdict marks the record, a later opposite verdict unmarks it", ok, fi=sa.fi)
  # apply_auto_removes
  ar = H.inlined_fn(w, "docmodel.DocModel.apply_auto_removes")
  cfg = ar.cfg
  du = DefUse(ar)
  is_set = lambda x: isinstance(x, ast.Attribute) and x.attr == "_auto_remove_set"
  rm = [(n, c) for (n, c, nm) in ar.calls() if nm in ("self.remove",) and
        len(c.args) + len(c.keywords) == 1]
  clears = {n.id for (n, c, nm) in ar.calls() if endswith(nm, "_auto_remove_set.clear")}
  if len(rm) != 1:
    raise AnalysisError("apply_auto_removes: expected one self.remove(<records>) call")
  rn, rc = rm[0]
  rc_arg = H.arg_of(rc, w.repo.func("docmodel.DocModel.remove"), "records")
  if rc_arg is None:
    raise AnalysisError("apply_auto_removes: cannot bind the argument of %s" % short(rc))
  ok = du.flows_from(is_set, rc_arg)
  run.ob(R3, ar.qualname, short(rc), "the records removed are those marked in _auto_remove_set",
         ok, fi=ar.fi, node=rc)
  readers = {x for x in du.backward_slice([rc_arg]) | {rn.id}
             if any(is_set(y) for e in cfg.nodes[x].exprs if e is not None for y in ast.walk(e))}
  ok = bool(clears) and bool(readers) and not (readers & cfg.reach_after(clears)) and \
      all(cfg.dominated_by(c_, readers) for c_ in clears) and \
      cfg.dominated_by(cfg.exit.id, clears)
  run.ob(R3, ar.qualname, "gone = sorted(self._auto_remove_set); self._auto_remove_set.clear()",
         "the marks are read before the set is cleared, and the set is cleared on every path (so "
         "the loop in apply_user_actions terminates and new marks are seen in the next round)",
         ok, fi=ar.fi)
  run.ob(R3, ar.qualname, "with ...indirect_actions(): self.remove(...)",
         "auto-removals are not direct actions", H.inside_with(ar.node, rn.stmt, "indirect_actions"),
         fi=ar.fi, node=rn.stmt, nontrivial=False)
  run.ob(R3, ar.qualname, "self.remove(...) on every path", "no path skips the removal",
         cfg.dominated_by(cfg.exit.id, {rn.id}), fi=ar.fi)
  rd = H.ReachDefs(ar, du)
  rets = [n for n in cfg.nodes if n.kind == "return"]
  rec_arg = rc_arg
  rec_defs = rd.reaching(rec_arg.id, rn.id) if isinstance(rec_arg, ast.Name) else None
  def truth_of_records(e, at):
    """True: the truth of the removed-records list; False: something else; None: unknown."""
    e = H.strip_bool(e)
    if isinstance(e, ast.Name) and not (rec_defs is not None and e.id == rec_arg.id):
      ds = rd.reaching(e.id, at)
      if len(ds) == 1 and H.def_value(cfg, next(iter(ds))) is not None:
        d = next(iter(ds))
        return truth_of_records(H.def_value(cfg, d), d)
    if isinstance(e, ast.Compare) and len(e.ops) == 1 and len(e.comparators) == 1 and \
        isinstance(e.left, ast.Call) and dotted(e.left.func) == "len":
      k = H.const_value(e.comparators[0])
      if (isinstance(e.ops[0], (ast.Gt, ast.NotEq)) and k == (True, 0)) or \
          (isinstance(e.ops[0], ast.GtE) and k == (True, 1)):
        e = e.left
    if isinstance(e, ast.Call) and dotted(e.func) == "len" and len(e.args) == 1:
      e = e.args[0]
    if isinstance(e, ast.Name) and rec_defs is not None and e.id == rec_arg.id:
      return rd.reaching(e.id, at) == rec_defs
    if isinstance(e, (ast.Constant, ast.Name, ast.Attribute, ast.IfExp)):
      return False
    return None
  verdicts = [truth_of_records(r.stmt.value, r.id) if r.stmt.value is not None else False
              for r in rets]
  if any(v is None for v in verdicts):
    raise AnalysisError("apply_auto_removes: cannot interpret the returned value")
  ok = bool(rets) and all(verdicts) and cfg.dominated_by(cfg.exit.id, {r.id for r in rets})
  run.ob(R3, ar.qualname, "return bool(<removed records>)", "the caller is told whether this "
         "round removed anything (it loops while that is true)", ok, fi=ar.fi)
  # who calls apply_auto_removes, and how (private Engine helpers are read in place, so the loop
  # may live in a helper of apply_user_actions)
  top = w.fn("engine.Engine.apply_user_actions")
  a_recalc, a_undo, a_apply = (H.engine_anchor(w, "recalc"), H.engine_anchor(w, "undo"),
                               H.engine_anchor(w, "apply_one"))
  special = {a_recalc.name, a_undo.name} | ({a_apply.name} if a_apply is not None else set())
  sel = lambda fi: fi.cls is not None and fi.cls.qualname == "engine.Engine" and \
      fi.name.startswith("_") and fi.name not in special
  I = H.InlinedCFG(w, top, exceptional=False, depth=2, select=sel)
  covered = {f.qualname for f in I.owner.values()}
  units = [(top, I.cfg, I.calls())]
  for fi in w.repo.all_functions():
    if fi.qualname in covered or not any(isinstance(x, ast.Attribute) and
                                         x.attr == "apply_auto_removes" for x in ast.walk(fi.node)):
      continue
    f2 = w.fn_of(fi)
    units.append((f2, f2.cfg, f2.calls()))
  n_calls = 0
  for (fn, cfg, calls) in units:
    fi = fn.fi
    A = {n.id for (n, c, nm) in calls if isinstance(c.func, ast.Attribute) and
         c.func.attr == "apply_auto_removes"}
    if not A:
      continue
    n_calls += len(A)
    first = cfg.nodes[min(A)]
    allrec = {m.id for (m, c2, nm2) in calls if nm2 == "self." + a_recalc.name}
    # rounds: a recalculation that follows a round is always followed by another round before
    # the function goes on (so the rounds are repeated, with a recalculation in between, until a
    # round reports that nothing was removed) -- however the loop is spelled
    after = cfg.reach_after(A)
    recalc = allrec & after
    again = set()
    for r in recalc:
      again |= cfg.reach_after({r}, removed=A)
    is_loop = bool(recalc) and cfg.exit.id not in again and \
        all(A & cfg.reach_after({r}) for r in recalc)
    run.ob(R3, fi.qualname, "while ...apply_auto_removes(): self._bring_all_up_to_date()",
           "auto-removals are applied round after round, recalculating in between (a removal can "
           "make further records removable), until a round removes nothing", is_loop, fi=fi,
           node=first.stmt)
    run.ob(R3, fi.qualname, "self._bring_all_up_to_date() before the first round",
           "the setAutoRemove formulas have been evaluated when the set is first consulted",
           bool(allrec) and all(cfg.dominated_by(a_, allrec) for a_ in A), fi=fi, node=first.stmt)
    post = {m.id for (m, c2, nm2) in calls if endswith(nm2, "out_actions.flush_calc_changes")}
    is_flush = lambda c, nm, f: isinstance(c.func, ast.Attribute) and \
        c.func.attr == "flush_calc_changes"
    if not post and H.hidden_in_callees(w, fn, is_flush, depth=4):
      raise AnalysisError("%s: flush_calc_changes is only called inside a function that could "
                          "not be read in place" % fi.qualname)
    if not allrec and H.hidden_in_callees(
        w, fn, lambda c, nm, f: isinstance(c.func, ast.Attribute) and
        c.func.attr == a_recalc.name, depth=4):
      raise AnalysisError("%s: _bring_all_up_to_date is only called inside a function that "
                          "could not be read in place" % fi.qualname)
    run.ob(R3, fi.qualname, "loop before out_actions.flush_calc_changes()",
           "the removals are part of the bundle being returned",
           bool(post) and all(cfg.dominated_by(p, A) and not (A & cfg.reach_after({p}))
                              for p in post), fi=fi, node=first.stmt)
  if n_calls == 0:
    raise AnalysisError("apply_auto_removes is never called")


# ------------------------------------------------------------------------------------------ R4
def r4_raw_section(run, w):
  R4 = run.rule("C09-R4", "every call of doAddTable asks for a raw view section; doAddTable "
                "creates it outside any view and records it in rawViewSectionRef", floor=5)
  da = w.repo.func("useractions.UserActions.doAddTable")
  n = 0
  for fi in w.repo.all_functions():
    if not any(isinstance(x, ast.Attribute) and x.attr == "doAddTable" for x in ast.walk(fi.node)):
      continue
    for c in calls_in(fi.node):
      if isinstance(c.func, ast.Attribute) and c.func.attr == "doAddTable":
        n += 1
        e = H.arg_of(c, da, "raw_section")
        run.ob(R4, fi.qualname, short(c, 70), "raw_section=True (literal, default evaluated)",
               e is not None and H.const_value(e) == (True, True), fi=fi, node=c,
               nontrivial=False)
  if n == 0:
    raise AnalysisError("doAddTable has no callers")
  fn = H.inlined_fn(w, da.qualname)
  cfg = fn.cfg
  du = DefUse(fn)
  rd = H.ReachDefs(fn, du)
  flag = "raw_section"
  if flag not in da.params():
    raise AnalysisError("doAddTable: parameter raw_section vanished")
  cp = w.repo.func("useractions.UserActions.create_plain_view_section")
  creates = []
  for (nn, c, nm) in fn.calls():
    if nm == "self.create_plain_view_section":
      st = nn.stmt
      var = st.targets[0].id if isinstance(st, ast.Assign) and len(st.targets) == 1 and \
          isinstance(st.targets[0], ast.Name) and st.value is c else None
      creates.append((nn, c, var))
  if len(creates) != 1 or creates[0][2] is None:
    raise AnalysisError("doAddTable: expected one <var> = self.create_plain_view_section(...)")
  cn, cc, var = creates[0]
  vs = H.arg_of(cc, cp, "view_sections")
  vs = H.expand(fn, vs) if vs is not None else None
  asked = lambda e: True if isinstance(e, ast.Name) and e.id == flag and \
      (H.ReachDefs.ENTRY in rd.reaching(flag, cfg.entry.id) or True) else None
  # when a raw section is asked for, no path avoids creating it ...
  ok = vs is not None and isinstance(vs, ast.Attribute) and \
      fn.type_of(vs.value) == T.DOCMODEL and vs.attr == "view_sections" and \
      cfg.exit.id not in H.reach_assuming(cfg, {cfg.entry.id}, asked, removed={cn.id}) and \
      all(d == cn.id or d == H.ReachDefs.ENTRY for d in du.rebinders(flag))
  run.ob(R4, fn.qualname, "if raw_section: raw_section = self.create_plain_view_section(..., "
         "self._docmodel.view_sections, ...)", "the raw section is created as a section of no "
         "view for the new table", ok, fi=fn.fi)
  # recorded in rawViewSectionRef whenever it was created
  upd = []
  ur = w.repo.func("useractions.UserActions.UpdateRecord")
  for (nn, c, nm) in fn.calls():
    if nm == "self.UpdateRecord":
      try:
        a_t, a_v = H.arg_of(c, ur, ur.params()[1]), H.arg_of(c, ur, ur.params()[3])
      except AnalysisError:
        continue
      a_v = H.deref(fn, a_v) if a_v is not None else None
      if a_t is not None and H.const_value(H.deref(fn, a_t)) == (True, "_grist_Tables") and \
          isinstance(a_v, ast.Dict):
        for k, v in zip(a_v.keys, a_v.values):
          if k is not None and H.const_value(k) == (True, "rawViewSectionRef"):
            upd.append((nn, c, v))
  if not upd:
    # no write of rawViewSectionRef through UpdateRecord('_grist_Tables', ...) with a literal dict:
    # if nothing here names that field at all it is gone (violation below); if it is named in some
    # other way the rule cannot tell how it is written
    named = [x for x in ast.walk(fn.node) if (isinstance(x, ast.Constant) and
                                              x.value == "rawViewSectionRef") or
             (isinstance(x, ast.keyword) and x.arg == "rawViewSectionRef")]
    if named or H.mentions_in_reach(
        w, fn, lambda x: isinstance(x, ast.Constant) and x.value == "rawViewSectionRef", depth=2):
      raise AnalysisError("doAddTable: rawViewSectionRef is written in a way the rule does not "
                          "recognise")
  ok = False
  if len(upd) == 1:
    nn, c, v = upd[0]
    is_sec = lambda x: isinstance(x, ast.Name) and x.id == var and \
        cn.id in rd.reaching(var, nn.id)
    val_ok = (isinstance(v, ast.IfExp) and is_sec(v.test) and isinstance(v.body, ast.Attribute)
              and v.body.attr == "id" and is_sec(v.body.value)) or \
        (isinstance(v, ast.Attribute) and v.attr == "id" and is_sec(v.value))
    made = lambda e: True if isinstance(e, ast.Name) and e.id == var else None
    reached = cfg.exit.id not in H.reach_assuming(cfg, set(cfg.normal_succ(cn.id)), made,
                                                  removed={nn.id})
    ok = val_ok and reached
  run.ob(R4, fn.qualname, "UpdateRecord('_grist_Tables', <new table>, {'rawViewSectionRef': "
         "raw_section.id})", "the new table's record points at its raw section whenever one was "
         "created", ok, fi=fn.fi)


# ------------------------------------------------------------------------------------------ R6
def r6_regrouped_fields(run, w):
  R6 = run.rule("C09-R6", "update_summary_section: every field of the regrouped section is deleted "
                "or re-pointed -- the kept set and the field look-ups use the ids of the old "
                "table's carried-over columns", floor=2)
  fn = H.inlined_fn(w, "summary.SummaryActions.update_summary_section")
  cfg = fn.cfg
  du = DefUse(fn)
  rd = H.ReachDefs(fn, du)
  ps = fn.fi.params()
  p_sec = ps[1]
  sec_is = lambda e, tail: H.canon(fn, e) == "%s.%s" % (p_sec, tail)
  # collections of old-table columns carried over: filled in the loop over the old table's columns
  loops = [n for n in cfg.nodes if n.kind == "for" and sec_is(n.stmt.iter, "tableRef.columns")]
  if len(loops) != 1:
    raise AnalysisError("update_summary_section: loop over the old table's columns not found")
  lbody = H.nodes_of_stmts(cfg, H.stmts_under(loops[0].stmt.body))
  carried = {nm for nm, ms in du.muts.items() if ms & lbody}
  if len(carried) < 2:
    raise AnalysisError("update_summary_section: the lists of kept group-by columns / copied "
                        "formula columns not recognised")
  # column records of the NEW table
  new_cols = set()
  for n in cfg.nodes:
    # (the call that gets or creates the new summary table: a method of the class that is
    # handed one of the carried-over lists and whose result is unpacked)
    if n.kind == "stmt" and isinstance(n.stmt, ast.Assign) and \
        isinstance(n.stmt.value, ast.Call) and \
        H.self_method(w, fn, n.stmt.value) is not None and \
        isinstance(n.stmt.targets[0], (ast.Tuple, ast.List)) and \
        any(isinstance(a_, ast.Name) and a_.id in carried
            for a_ in list(n.stmt.value.args) + [k.value for k in n.stmt.value.keywords]):
      for t in n.stmt.targets:
        new_cols |= {x.id for x in ast.walk(t) if isinstance(x, ast.Name)}
  if not new_cols:
    raise AnalysisError("update_summary_section: _get_or_create_summary(...) result not found")

  def binder_of(var, inside):
    """(iterable expression, position or None, node id) of the comprehension generator / for
    statement that binds local `var` around expression `inside`."""
    best = None
    for x in ast.walk(fn.node):
      gens = x.generators if isinstance(x, (ast.ListComp, ast.SetComp, ast.GeneratorExp,
                                            ast.DictComp)) else \
          ([x] if isinstance(x, ast.For) else [])
      if not gens or not any(y is inside for y in ast.walk(x)):
        continue
      for g in gens:
        tg = g.target
        if isinstance(tg, ast.Name) and tg.id == var:
          best = (g.iter, None, x)
        elif isinstance(tg, (ast.Tuple, ast.List)):
          for i, e in enumerate(tg.elts):
            if isinstance(e, ast.Name) and e.id == var:
              best = (g.iter, i, x)
    return best

  def node_of(x):
    ids = H.node_of_expr(cfg, x)
    return min(ids) if ids else cfg.exit.id

  def elem_origin(e, pos, at, depth=0):
    """Names of the collections the elements (their component `pos` when they are tuples) of
    iterable e come from."""
    if depth > 8:
      return {"?"}
    if isinstance(e, ast.Name):
      if e.id in carried or e.id in new_cols or e.id in ps:
        return {e.id}
      v, at2 = H.resolve(fn, du, rd, e, at)
      if v is e or isinstance(v, ast.Name):
        return {"?" + e.id}
      return elem_origin(v, pos, at2, depth + 1)
    if isinstance(e, ast.Call) and dotted(e.func) == "zip" and pos is not None and \
        pos < len(e.args):
      return elem_origin(e.args[pos], None, at, depth + 1)
    if isinstance(e, ast.Call) and dotted(e.func) in ("list", "tuple", "sorted", "set",
                                                       "reversed") and e.args:
      return elem_origin(e.args[0], pos, at, depth + 1)
    if isinstance(e, ast.BinOp) and isinstance(e.op, (ast.Add, ast.BitOr)):
      return elem_origin(e.left, pos, at, depth + 1) | elem_origin(e.right, pos, at, depth + 1)
    if isinstance(e, (ast.ListComp, ast.GeneratorExp, ast.SetComp)) and len(e.generators) == 1:
      el = e.elt
      if pos is not None and isinstance(el, ast.Tuple) and pos < len(el.elts):
        el = el.elts[pos]
      elif pos is not None and not isinstance(el, ast.Name):
        return {"?"}
      g = e.generators[0]
      if isinstance(el, ast.Name):
        if isinstance(g.target, ast.Name) and g.target.id == el.id:
          return elem_origin(g.iter, pos if isinstance(e.elt, ast.Name) else None, at, depth + 1)
        if isinstance(g.target, (ast.Tuple, ast.List)):
          for i, t in enumerate(g.target.elts):
            if isinstance(t, ast.Name) and t.id == el.id:
              return elem_origin(g.iter, i, at, depth + 1)
      if isinstance(el, ast.Attribute) and isinstance(el.value, ast.Name):
        # ids taken from elements: same origin as the elements
        return elem_origin(ast.ListComp(elt=el.value, generators=e.generators), pos, at, depth + 1)
      return {"?"}
    if isinstance(e, ast.Attribute) and isinstance(e.value, ast.Name) and e.value.id in ps:
      return {text(e)}
    return {"?"}

  def id_origin(key, at):
    """collections whose elements' colId the key expression is: `<v>.colId` with v bound by a
    comprehension / loop over such a collection."""
    key = H.expand(fn, key, pure_only=False) if isinstance(key, ast.Name) else key
    if isinstance(key, ast.Attribute) and key.attr == "colId" and isinstance(key.value, ast.Name):
      b = binder_of(key.value.id, key)
      if b is None:
        return {"?" + key.value.id}
      return elem_origin(b[0], b[1], at)
    return {"?"}

  def classify(origins):
    bad_new = sorted(o for o in origins if o in new_cols)
    other = sorted(o for o in origins if o not in carried and o not in new_cols)
    return bad_new, other

  # maps from a field's (old-table) column id to the field
  maps = set()
  for n in cfg.nodes:
    if n.kind == "stmt" and isinstance(n.stmt, ast.Assign) and len(n.stmt.targets) == 1 and \
        isinstance(n.stmt.targets[0], ast.Name):
      v, at = H.resolve(fn, du, rd, n.stmt.targets[0], cfg.exit.id) \
          if isinstance(n.stmt.value, (ast.Dict,)) else (n.stmt.value, n.id)
      if isinstance(v, ast.DictComp) and len(v.generators) == 1 and \
          sec_is(v.generators[0].iter, "fields") and \
          text(v.key) == "%s.colRef.colId" % text(v.generators[0].target) and \
          text(v.value) == text(v.generators[0].target):
        maps.add(n.stmt.targets[0].id)
  for nm_ in list(du.muts):
    for m in cfg.nodes:
      if m.stmt is not None and m.id not in du.muts[nm_] and any(
          isinstance(y, ast.Name) and y.id == nm_ and isinstance(y.ctx, ast.Load)
          for e_ in m.exprs if e_ is not None for y in ast.walk(e_)):
        c2 = H.loop_as_comprehension(fn, du, rd, nm_, m.id)
        if isinstance(c2, ast.DictComp) and sec_is(c2.generators[0].iter, "fields") and \
            text(c2.key) == "%s.colRef.colId" % text(c2.generators[0].target):
          maps.add(nm_)
        break
  _r6_table_ref_restored(run, R6, w, fn)
  # (a) the keep set: fields whose column id is not in it are deleted
  removes = []
  for (n, c, nm) in fn.calls():
    if isinstance(c.func, ast.Attribute) and c.func.attr == "remove" and \
        fn.type_of(c.func.value) == T.DOCMODEL and len(c.args) + len(c.keywords) == 1:
      arg = (list(c.args) + [k.value for k in c.keywords])[0]
      v, at = H.resolve(fn, du, rd, arg, n.id)
      if isinstance(v, (ast.ListComp, ast.GeneratorExp)) and len(v.generators) == 1 and \
          sec_is(v.generators[0].iter, "fields"):
        removes.append((n, v, at))
      elif isinstance(v, (ast.ListComp, ast.GeneratorExp)) and len(v.generators) == 1 and \
          not v.generators[0].ifs and isinstance(v.elt, ast.Subscript) and \
          isinstance(v.elt.value, ast.Name) and v.elt.value.id in maps and \
          text(v.elt.slice) == text(v.generators[0].target):
        # [<map>[c] for c in <ids of the map> - <kept ids>]
        it = H.strip_wrappers(H.expand(fn, v.generators[0].iter), ("sorted", "list", "tuple"))
        m_ = v.elt.value.id
        own_keys = lambda e: text(e) in (m_, "%s.keys()" % m_, "set(%s)" % m_,
                                         "set(%s.keys())" % m_)
        if isinstance(it, ast.BinOp) and isinstance(it.op, ast.Sub) and own_keys(it.left) and \
            isinstance(it.right, ast.Name):
          fake = ast.parse("[f for f in %s.fields if f.colRef.colId not in %s]"
                           % (p_sec, it.right.id), mode="eval").body
          removes.append((n, fake, at))
  if len(removes) != 1:
    raise AnalysisError("update_summary_section: removal of the fields that are not kept not "
                        "recognised")
  rn, rcomp, rat = removes[0]
  fvar = text(rcomp.generators[0].target)
  keep = None
  for t in rcomp.generators[0].ifs:
    t0 = t.operand if isinstance(t, ast.UnaryOp) and isinstance(t.op, ast.Not) else t
    if isinstance(t0, ast.Compare) and len(t0.ops) == 1 and \
        isinstance(t0.ops[0], (ast.NotIn, ast.In)) and \
        text(t0.left) == "%s.colRef.colId" % fvar and isinstance(t0.comparators[0], ast.Name):
      negated = isinstance(t0.ops[0], ast.NotIn) != (t0 is not t)
      if negated:
        keep = t0.comparators[0]
  if keep is None or len(rcomp.generators[0].ifs) != 1:
    raise AnalysisError("update_summary_section: filter of the deleted fields is not "
                        "`<field>.colRef.colId not in <kept ids>`")
  kv, kat = H.resolve(fn, du, rd, keep, rat)
  def ids_of(e, at, depth=0):
    if depth > 6:
      return {"?"}
    if isinstance(e, ast.Name):
      v, at2 = H.resolve(fn, du, rd, e, at)
      if v is e or isinstance(v, ast.Name):
        return {"?" + e.id}
      return ids_of(v, at2, depth + 1)
    if isinstance(e, ast.Call) and dotted(e.func) in ("set", "frozenset", "list") and e.args:
      return ids_of(e.args[0], at, depth + 1)
    if isinstance(e, ast.BinOp) and isinstance(e.op, (ast.BitOr, ast.Add)):
      return ids_of(e.left, at, depth + 1) | ids_of(e.right, at, depth + 1)
    if isinstance(e, ast.Call) and isinstance(e.func, ast.Attribute) and e.func.attr == "union":
      out = ids_of(e.func.value, at, depth + 1)
      for a_ in e.args:
        out |= ids_of(a_, at, depth + 1)
      return out
    if isinstance(e, (ast.SetComp, ast.GeneratorExp, ast.ListComp)) and len(e.generators) == 1 \
        and isinstance(e.elt, ast.Attribute) and e.elt.attr == "colId" and \
        isinstance(e.elt.value, ast.Name):
      g = e.generators[0]
      if isinstance(g.target, ast.Name) and g.target.id == e.elt.value.id:
        return elem_origin(g.iter, None, at)
    return {"?"}
  origins = ids_of(kv, kat)
  bad_new, other = classify(origins)
  unknown = [o for o in other if o.startswith("?")]
  if unknown and not [o for o in other if not o.startswith("?")] and not bad_new:
    raise AnalysisError("update_summary_section: cannot tell where the kept column ids %s come "
                        "from" % short(kv, 60))
  ok = not bad_new and not other
  run.ob(R6, fn.qualname, "kept ids = colIds of %s" % " + ".join(sorted(origins)),
         "a field is kept only when its column is one actually carried over from the old table "
         "(kept group-by column or copied formula column); a field kept for any other reason is "
         "neither deleted nor re-pointed", ok, fi=fn.fi, node=rn.stmt,
         witness=None if ok else "kept ids also come from %s" % ", ".join(bad_new + other))
  # (b) look-ups of kept fields by column id
  if not maps:
    raise AnalysisError("update_summary_section: map from a field's column id to the field not "
                        "found")
  keys = []
  for x in ast.walk(fn.node):
    if isinstance(x, ast.Subscript) and isinstance(x.value, ast.Name) and x.value.id in maps and \
        isinstance(x.ctx, ast.Load):
      keys.append((x.slice, x))
    elif isinstance(x, ast.Compare) and len(x.ops) == 1 and isinstance(x.ops[0], (ast.In, ast.NotIn)) \
        and isinstance(x.comparators[0], ast.Name) and x.comparators[0].id in maps:
      keys.append((x.left, x))
    elif isinstance(x, ast.Call) and isinstance(x.func, ast.Attribute) and x.func.attr == "get" \
        and isinstance(x.func.value, ast.Name) and x.func.value.id in maps and x.args:
      keys.append((x.args[0], x))
  if not keys:
    raise AnalysisError("update_summary_section: no look-up in the field map found")
  seen = set()
  for (k, site) in keys:
    if isinstance(k, ast.Name):
      b_ = binder_of(k.id, site)
      if b_ is not None and any(isinstance(y, ast.Name) and y.id in maps
                                for y in ast.walk(H.expand(fn, b_[0]))):
        continue          # a key taken from the map's own keys
    origins = id_origin(k, node_of(site))
    bad_new, other = classify(origins)
    label = "%s -> %s" % (short(site, 50), ", ".join(sorted(origins)))
    if label in seen:
      continue
    seen.add(label)
    if other and not bad_new:
      raise AnalysisError("update_summary_section: cannot tell which columns the key of %s "
                          "belongs to" % short(site, 60))
    run.ob(R6, fn.qualname, "field looked up by %s" % short(k, 40),
           "the map is keyed by the column id a field's column has in the OLD table, so the key "
           "must be the id of a carried-over old column (a copied formula column may have got "
           "another id in the new table)", not bad_new, fi=fn.fi, node=site,
           witness=None if not bad_new else "key comes from the new table's columns %s"
           % ", ".join(bad_new))


def _r6_table_ref_restored(run, R6, w, fn):
  """update_summary_section unsets the section's tableRef before it re-points the fields; every
  normal path from that reset must reach an update that sets tableRef again (to the summary
  table), else the section is left pointing at no table."""
  cfg = fn.cfg
  resets, sets = set(), set()
  for (n, c, nm) in fn.calls():
    if isinstance(c.func, ast.Attribute) and c.func.attr == "update" and \
        fn.type_of(c.func.value) == T.DOCMODEL:
      v = H.kwarg(c, "tableRef")
      if v is None:
        continue
      if H.const_value(H.deref(fn, v)) == (True, 0):
        resets.add(n.id)
      else:
        sets.add(n.id)
  if not resets:
    return
  if not sets and H.mentions_in_reach(
      w, fn, lambda x: isinstance(x, ast.keyword) and x.arg == "tableRef", depth=2) and \
      not any(isinstance(x, ast.keyword) and x.arg == "tableRef" and
              H.const_value(x.value) != (True, 0) for x in ast.walk(fn.node)):
    raise AnalysisError("update_summary_section: tableRef is set again only inside a helper")
  for r in sorted(resets):
    ok = bool(sets) and cfg.postdominated_by(r, sets)
    run.ob(R6, fn.qualname, "update(tableRef=0) ... update(tableRef=<summary table>)",
           "after the section's tableRef was unset, every normal path sets it to the summary "
           "table again (also when the section stays with the same table)", ok, fi=fn.fi,
           node=cfg.nodes[r].stmt,
           witness=None if ok else cfg.describe_path(
             cfg.path(r, {cfg.exit.id}, removed=sets, after=True)))


U = "sandbox/grist/useractions.py"
EN = "sandbox/grist/engine.py"
DM = "sandbox/grist/docmodel.py"
SM = "sandbox/grist/summary.py"
R1_VARIANTS = [
  ("field-removal-bypasses-funnel", U,
   "        raise ValueError(\"Cannot remove raw view section field\")\n    self.doBulkRemoveRecord(table_id, row_ids)",
   "        raise ValueError(\"Cannot remove raw view section field\")\n    self._do_doc_action(actions.BulkRemoveRecord(table_id, row_ids))"),
  ("pages-removed-only-when-fixed", U,
   "      self.doBulkUpdateRecord(table_id, fixed_row_ids, {'indentation': fixed_indentation})\n\n    self.doBulkRemoveRecord(table_id, row_ids)",
   "      self.doBulkUpdateRecord(table_id, fixed_row_ids, {'indentation': fixed_indentation})\n\n      self.doBulkRemoveRecord(table_id, row_ids)"),
  ("dispatch-default-is-docaction", U,
   "    method = self._overrides.get(('BulkRemoveRecord', table_id), self.doBulkRemoveRecord)\n    method(table_id, row_ids)",
   "    method = self._overrides.get(('BulkRemoveRecord', table_id))\n    if method:\n      method(table_id, row_ids)\n    else:\n      self._do_doc_action(actions.BulkRemoveRecord(table_id, row_ids))"),
]
VARIANTS = [(a, b, c, d, "C09-R1") for (a, b, c, d) in R1_VARIANTS] + [
  # R2
  ("view-removal-keeps-pages", U,
   "    self._docmodel.remove([p for v in view_recs for p in v.pageItems])\n", "", "C09-R2"),
  ("section-removal-keeps-fields", U,
   "    self.doBulkRemoveRecord('_grist_Views_section_field', [f.id for vs in recs for f in vs.fields])\n",
   "", "C09-R2"),
  ("table-removal-keeps-sections", U,
   "    self._doRemoveViewSectionRecords([vs for t in remove_table_recs for vs in t.viewSections])\n",
   "    self._doRemoveViewSectionRecords([t.rawViewSectionRef for t in remove_table_recs])\n",
   "C09-R2"),
  ("column-fields-removed-only-when-sorted", U,
   "    self.doBulkRemoveRecord(\"_grist_Views_section_field\", field_ids)\n",
   "    if re_sort_sections:\n      self.doBulkRemoveRecord(\"_grist_Views_section_field\", field_ids)\n",
   "C09-R2"),
  ("fields-looked-up-after-sections-gone", U,
   "    self.doBulkRemoveRecord('_grist_Views_section_field', [f.id for vs in recs for f in vs.fields])\n    self.doBulkRemoveRecord('_grist_Views_section', [r.id for r in recs])",
   "    self.doBulkRemoveRecord('_grist_Views_section', [r.id for r in recs])\n    self.doBulkRemoveRecord('_grist_Views_section_field', [f.id for vs in recs for f in vs.fields])",
   "C09-R2"),
  # R3
  ("auto-removes-single-round", EN,
   "    while self.docmodel.apply_auto_removes():\n      self._bring_all_up_to_date()",
   "    if self.docmodel.apply_auto_removes():\n      self._bring_all_up_to_date()", "C09-R3"),
  ("auto-removes-no-recalc-between-rounds", EN,
   "    while self.docmodel.apply_auto_removes():\n      self._bring_all_up_to_date()",
   "    while self.docmodel.apply_auto_removes():\n      pass\n    self._bring_all_up_to_date()",
   "C09-R3"),
  ("auto-remove-set-cleared-before-read", DM,
   "    gone_records = sorted(\n      self._auto_remove_set,\n      # Remove tables last to prevent errors trying to remove rows or columns from deleted tables.\n      key=lambda r: (r._table.table_id == \"_grist_Tables\", r)\n    )\n    self._auto_remove_set.clear()",
   "    self._auto_remove_set.clear()\n    gone_records = sorted(\n      self._auto_remove_set,\n      key=lambda r: (r._table.table_id == \"_grist_Tables\", r)\n    )",
   "C09-R3"),
  ("helper-col-verdict-only-when-unused", DM,
   "      table.docmodel.setAutoRemove(rec, as_display or as_col_rule or as_row_rule)",
   "      if as_display or as_col_rule or as_row_rule:\n        table.docmodel.setAutoRemove(rec, True)",
   "C09-R3"),
  ("auto-removes-always-report-true", DM,
   "    return bool(gone_records)", "    return True if self._auto_remove_set else False", "C09-R3"),
  ("set-auto-remove-verdict-inverted", DM,
   "    if yes_or_no:\n      self._auto_remove_set.add(record)\n    else:\n      self._auto_remove_set.discard(record)",
   "    if not yes_or_no:\n      self._auto_remove_set.add(record)\n    else:\n      self._auto_remove_set.discard(record)",
   "C09-R3"),
  ("set-auto-remove-never-unmarks", DM,
   "    else:\n      self._auto_remove_set.discard(record)", "    else:\n      pass", "C09-R3"),
  # R6
  ("regrouped-fields-found-by-new-column-id", SM,
   """    visible_formula = [(c, ci) for (c, ci) in zip(formula_columns, formula_colinfo)
                       if ci.colId in colid_to_field_map]
    visible_formula_columns = [c for (c, ci) in visible_formula]
    formula_fields = [colid_to_field_map[ci.colId] for (c, ci) in visible_formula]
""",
   """    visible_formula_columns = [c for c in formula_columns if c.colId in colid_to_field_map]
    formula_fields = [colid_to_field_map[c.colId] for c in visible_formula_columns]
""", "C09-R6"),
  ("regrouped-section-not-repointed-when-table-unchanged", SM,
   "    # Finally update the section to point to the new table.\n    self.docmodel.update([view_section], tableRef=summary_table.id, **update_args)",
   "    if summary_table != orig_table:\n      self.docmodel.update([view_section], tableRef=summary_table.id, **update_args)",
   "C09-R6"),
  ("regrouped-fields-kept-by-requested-groupby-ids", SM,
   "    colid_keep_set = set(c.colId for c in prev_group_cols + formula_colinfo)",
   "    colid_keep_set = groupby_colids | set(ci.colId for ci in formula_colinfo)", "C09-R6"),
  # R4
  ("summary-table-without-raw-section", SM,
   "        raw_section=True,\n        record_card_section=False)",
   "        record_card_section=False)", "C09-R4"),
  ("raw-table-without-raw-section", U,
   "      primary_view=False,\n      raw_section=True,\n      record_card_section=True\n    )",
   "      primary_view=False,\n      raw_section=False,\n      record_card_section=True\n    )",
   "C09-R4"),
  ("raw-section-ref-not-recorded", U,
   "        'rawViewSectionRef': raw_section.id if raw_section else 0,\n", "", "C09-R4"),
]
