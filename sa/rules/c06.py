"""C06 Formula results do not depend on evaluation order -- the out-of-order (OrderError) protocol.

Design deviations (DESIGN.md section 4, C06):
  * R4 decides only "lookup nodes are scheduled first" (the one ordering the property itself
    exempts). That the sort key is a *total* order is a determinism clause (C30-R4), not a
    necessary condition of order independence, and is left to C30.
  * R1 additionally decides that the scan over the required rows is exhaustive (no `break`, no
    `return` on a required row, skips only for rows that need no evaluation): the design's "a
    required dirty cell raises OrderError" is only true if the scan reaches every required row.
    For the same reason it decides that the rows *counted* as required are exactly the first
    sequence the scan iterates (same sequence, duplicates included): a required row that falls
    past the count is treated as opportunistic and ends the non-evaluating visit silently.

All clauses are decided on the inlined, alias-normalised form of the anchored functions (see the
note at the top of c03.py and the helpers in _h_A.py): skip / raise / return conditions by
path-sensitive reachability over atoms, never by the syntactic nesting of an `if`.
"""
import ast
from ..fn import World
from ..index import AnalysisError, dotted
from ..astutil import text, short, endswith, calls_in, walk_no_nested, names_loaded, enclosing_chain
from ..dataflow import DefUse
from .. import events as E
from .. import types as T
from ._h_A import canonicalise
from ._h_A import (FactReach, Facts, branch_succ, loop_breaks, nodes_of_stmts, nodes_for, kwarg,
                   is_const, stmts_in, never_returns, inliner, expander, bind_call, call_arg,
                   real_loops, Owners, followed, returns_of, value_at, strip_wrappers, atom_of,
                   reaching_defs, built_list, values_at, need, opaque_parts, opaque_calls,
                   same_or_opaque, opaque_tests, undissolved, is_frame_reset, typed_handler_noise,
                   reach_pruned)

EXPLANATION = (
  "Decides the structural legs of the out-of-order protocol that keeps a formula from ever being "
  "handed a stale value, whatever order the scheduler picks. R1: every record access funnels "
  "dirty nodes into _recompute, which inside an update loop visits the node with "
  "allow_evaluation=False; that visit scans ALL required rows (the rows counted as required are "
  "exactly the first sequence scanned; no break, no return on a required row, skips only for rows "
  "that are clean, absent or done) and raises OrderError for the first "
  "one that still needs evaluation, caching the error first so a formula that swallows it is still "
  "re-ordered. R2: _recompute_one_cell checks the cached error after the user code returns and "
  "before returning its result; in the error branch the order error wins over the user error and "
  "is reset when raised. R3: the update loop re-pushes the interrupted work item before pushing "
  "the dependency on a LIFO stack, so the dependency runs first, and the error carries the "
  "dependency cell / requiring cell in the fields the loop reads. R4: lookup nodes are scheduled "
  "first. R5: a cell enters the done set only after its evaluation completed normally and its "
  "value was stored. Not decided: termination, and equality of results under all permutations "
  "(a schedule quantifier); the total order on nodes (C30-R4).")

STEP = "engine.Engine._recompute_step"
LOOP = "engine.Engine._update_loop"
ONE = "engine.Engine._recompute_one_cell"
CRE = "self._cell_required_error"


def check(run, repo, tier):
  canonicalise(repo)
  w = World(repo)
  sc = Scan(w)
  r1_funnel(run, w)
  r1_scan(run, w, sc)
  r2_one_cell(run, w)
  r3_reorder(run, w, sc)
  r4_lookups_first(run, w)
  r5_done_after_store(run, w, sc)


# ------------------------------------------------------------------------------------------
def work_item_fields(w):
  d = w.repo.module("engine").assigns.get("WorkItem")
  fields = None
  if isinstance(d, ast.Call) and len(d.args) == 2 and isinstance(d.args[1], (ast.Tuple, ast.List)):
    fields = [x.value for x in d.args[1].elts if isinstance(x, ast.Constant)]
  if not fields or len(fields) != 3:
    raise AnalysisError("engine.WorkItem is no longer a three-field namedtuple")
  return fields


def work_item(w, e):
  """{field: expr} of a WorkItem(...) construction (positional or keyword arguments), else None.
  The field names are read from the namedtuple definition."""
  if not (isinstance(e, ast.Call) and endswith(dotted(e.func), "WorkItem")):
    return None
  d = w.repo.module("engine").assigns.get("WorkItem")
  fields = None
  if isinstance(d, ast.Call) and len(d.args) == 2 and isinstance(d.args[1], (ast.Tuple, ast.List)):
    fields = [x.value for x in d.args[1].elts if isinstance(x, ast.Constant)]
  if not fields or len(fields) != 3:
    raise AnalysisError("engine.WorkItem is no longer a three-field namedtuple")
  if len(e.args) > 3 or any(k.arg not in fields for k in e.keywords):
    return None
  out = dict(zip(fields, e.args))
  for k in e.keywords:
    out[k.arg] = k.value
  if len(out) != 3:
    return None
  return {"node": out[fields[0]], "row_ids": out[fields[1]], "locks": out[fields[2]]}


class Scan(object):
  """The roles inside Engine._recompute_step, found by what they do (not by name or position)."""
  def __init__(self, w):
    self.w = w
    fn = self.fn = inliner(w).fn(STEP)
    ex = self.ex = expander(fn)
    ps = fn.fi.params()
    if len(ps) < 2:
      raise AnalysisError("%s: node parameter vanished" % STEP)
    self.p_node = ps[1]
    allp = ps + [a.arg for a in fn.node.args.kwonlyargs]
    for need in ("allow_evaluation", "require_rows"):
      if need not in allp:
        raise AnalysisError("%s: parameter %s vanished" % (STEP, need))
    # the scan loop: for <i>, <row> in enumerate(itertools.chain(<required>, <dirty>))
    loops = []
    for s in real_loops(fn.node.body, ast.For):
      it = ex.expand(s.iter)
      idx = None
      if isinstance(it, ast.Call) and dotted(it.func) == "enumerate" and len(it.args) == 1 and \
          not it.keywords:
        it = it.args[0]
        if isinstance(s.target, ast.Tuple) and len(s.target.elts) == 2 and \
            all(isinstance(e, ast.Name) for e in s.target.elts):
          idx, row = s.target.elts[0].id, s.target.elts[1].id
        else:
          continue
      elif isinstance(s.target, ast.Name):
        row = s.target.id
      else:
        continue
      if isinstance(it, ast.Call) and endswith(dotted(it.func), "chain") and len(it.args) == 2 and \
          not it.keywords and isinstance(it.args[1], ast.Name):
        loops.append((s, idx, row, it.args[0], it.args[1].id))
    if len(loops) != 1:
      raise AnalysisError("%s: the scan loop over chain(required rows, dirty rows) was not found "
                          "(found %d candidates)" % (STEP, len(loops)))
    self.loop, self.idx, self.row, self.req_expr, self.dirty_var = loops[0]
    self.req_text = text(self.req_expr)
    self.req_var = self.req_expr.id if isinstance(self.req_expr, ast.Name) else None
    # the required-rows sequence derives from the require_rows parameter
    src = set(names_loaded(self.req_expr))
    if self.req_var is not None:
      defs = E.local_defs(fn.node, self.req_var)
      if self.req_var != "require_rows" and not defs:
        raise AnalysisError("%s: required-rows variable has no definition" % STEP)
      if not all("require_rows" in names_loaded(d) for d in defs):
        raise AnalysisError("%s: first chain() argument does not derive from require_rows" % STEP)
    elif "require_rows" not in src:
      raise AnalysisError("%s: first chain() argument does not derive from require_rows" % STEP)
    # the dirty-rows variable derives from self.recompute_map
    ddefs = E.local_defs(fn.node, self.dirty_var)
    def is_map_lookup(d):
      d = ex.expand(d)
      if isinstance(d, ast.Call) and endswith(dotted(d.func), "recompute_map.get"):
        return True
      return isinstance(d, ast.Subscript) and endswith(dotted(d.value), "recompute_map")
    if not any(is_map_lookup(d) for d in ddefs):
      raise AnalysisError("%s: second chain() argument is not the node's entry of recompute_map"
                          % STEP)
    # the `required` flag: the one name bound at the top level of the loop body from the index
    flags = []
    for s in self.loop.body:
      if isinstance(s, ast.Assign) and len(s.targets) == 1 and isinstance(s.targets[0], ast.Name) \
          and self.idx is not None and self.idx in names_loaded(ex.expand(s.value)):
        flags.append((s.targets[0].id, s))
    if len(flags) != 1:
      raise AnalysisError("%s: the per-row `required` flag was not found" % STEP)
    self.flag, self.flag_stmt = flags[0]
    # the done set: <name> = self._recompute_done_map[node]
    self.done_vars = set()
    for s in stmts_in(fn.node.body, ast.Assign):
      if len(s.targets) == 1 and isinstance(s.targets[0], ast.Name) and self.is_done_set(s.value):
        self.done_vars.add(s.targets[0].id)
    # the evaluation: <v> = self._recompute_one_cell(...)
    self.evals = [c for c in calls_in(self.loop.body)
                  if endswith(fn.name(c), "self._recompute_one_cell")]
    if len(self.evals) != 1:
      raise AnalysisError("%s: expected one _recompute_one_cell call in the scan loop" % STEP)
    self.eval = self.evals[0]

  def is_done_set(self, e):
    """Does e denote this node's set of rows already done: self._recompute_done_map[node]?"""
    if isinstance(e, ast.Name) and e.id in getattr(self, "done_vars", ()):
      return True
    e = self.ex.expand(e)
    if isinstance(e, ast.Call) and isinstance(e.func, ast.Attribute) and \
        e.func.attr in ("setdefault", "get") and \
        endswith(dotted(e.func.value), "_recompute_done_map") and e.args and \
        text(e.args[0]) == self.p_node:
      return True         # get-or-create spelling of the same entry
    return isinstance(e, ast.Subscript) and endswith(dotted(e.value), "_recompute_done_map") and \
        text(e.slice) == self.p_node

  def noise(self, cfg):
    """exceptional edges into the RequestingError / OrderError handlers around the evaluation that
    do not come from the evaluation itself"""
    evals = self.eval_nodes(cfg)
    out = set()
    for t in stmts_in(self.loop.body, ast.Try):
      if evals & nodes_of_stmts(cfg, t.body):
        out |= typed_handler_noise(cfg, t, evals)
    return out

  def eval_nodes(self, cfg):
    return {n.id for n in cfg.nodes if any(c is self.eval for c in calls_in(n.exprs))}

  def head(self, cfg):
    ids = nodes_for(cfg, self.loop)
    if len(ids) != 1:
      raise AnalysisError("%s: scan loop has %d CFG nodes" % (STEP, len(ids)))
    return next(iter(ids))

  def body_nodes(self, cfg):
    return nodes_of_stmts(cfg, self.loop.body)


def is_order_error_ctor(e, sc):
  """OrderError(<msg>, <node param>, <row var>)"""
  if not (isinstance(e, ast.Call) and endswith(dotted(e.func), "OrderError")):
    return False
  m = bind_call(e, sc.w.repo.func("engine.OrderError.__init__"))
  ips = sc.w.repo.func("engine.OrderError.__init__").params()
  return m is not None and len(ips) == 4 and sc.ex.norm(m[ips[2]]) == sc.p_node and \
      sc.ex.norm(m[ips[3]]) == sc.row


# ------------------------------------------------------------------------------------------
def _no_dirty_rows_atoms(p_node):
  """Spellings of "this node has no dirty rows" as (atom, truth value)."""
  m = "self.recompute_map"
  return {"%s.get(%s)" % (m, p_node): False, "%s.get(%s, None)" % (m, p_node): False,
          "%s in %s" % (p_node, m): False}


def _check_dispatch(run, w, R1, fn, p_node, p_rows, shortcuts):
  """The dispatch of a dirty read in function fn (Engine._recompute, or _use_node when the body was
  written in place): inside an update loop the non-evaluating visit of (node, rows), outside a loop
  of its own seeded with them. `shortcuts` ({atom: truth}) are the only other ways to the exit."""
  fex = expander(fn)
  cfg = fn.cfg
  flag = "self._in_update_loop"
  steps = [(n, c) for (n, c, nm) in fn.calls() if nm == "self._recompute_step"]
  loops = [(n, c) for (n, c, nm) in fn.calls() if nm == "self._update_loop"]
  if not steps or not loops:
    raise AnalysisError("%s: _recompute_step / _update_loop calls not found" % fn.qualname)
  stf = w.repo.func(STEP)
  good_steps = set()
  for (n, c) in steps:
    m = bind_call(c, stf) or {}
    ae, rr, nd = m.get("allow_evaluation"), m.get("require_rows"), m.get(stf.params()[1])
    need(m, "%s: cannot match the arguments of `%s`" % (fn.qualname, short(c)))
    ae_v = fex.expand(ae) if ae is not None else None
    need(isinstance(ae_v, ast.Constant), "%s: allow_evaluation is not a constant in `%s`"
         % (fn.qualname, short(c)))
    ok = is_const(ae_v, False) and same_or_opaque(w, fn, nd, p_node, "node of the nested visit") \
        and same_or_opaque(w, fn, rr, p_rows, "rows of the nested visit")
    if ok:
      good_steps.add(n.id)
    run.ob(R1, fn.qualname, "self._recompute_step(node, allow_evaluation=False, require_rows=row_ids)",
           "a nested visit never evaluates: allow_evaluation=False, with "
           "the caller's node and required rows", ok, fi=fn.fi, node=c)
  def leaks(seen):
    """arrivals at the exit that are not one of the accepted shortcuts"""
    return [f for f in seen.get(cfg.exit.id, [])
            if not any(f.get(k) is v for k, v in shortcuts.items())]
  fr = Facts(cfg, {flag} | set(shortcuts), ex=fex)
  seen = fr.run([(cfg.entry.id, {flag: True})], stop=good_steps)
  ok = not leaks(seen) and not ({n.id for (n, c) in loops} & set(seen))
  if not ok and good_steps:
    ot = opaque_tests(w, fn)
    need(not ot, "%s: a test that cannot be followed (`%s`) decides which visit is made"
         % (fn.qualname, short(ot[0].stmt.test) if ot else ""))
  run.ob(R1, fn.qualname, "if self._in_update_loop: self._recompute_step(..., allow_evaluation=False)",
         "inside an update loop every nested read goes through the non-evaluating visit (and never "
         "starts a nested loop)", ok, fi=fn.fi,
         witness=None if ok else "a path with _in_update_loop true avoids the non-evaluating visit")
  seen = fr.run([(cfg.entry.id, {flag: False})], stop={n.id for (n, c) in loops})
  ok = not leaks(seen) and not ({n.id for (n, c) in steps} & set(seen))
  run.ob(R1, fn.qualname, "else: self._update_loop([WorkItem(node, row_ids, [])], ...)",
         "outside an update loop a dirty read starts a loop of its own", ok, fi=fn.fi)
  ulf = w.repo.func(LOOP)
  for (n, c) in loops:
    a = call_arg(c, ulf, ulf.params()[1])
    a = fex.expand(a) if a is not None else None
    wi = work_item(w, fex.expand(a.elts[0])) if isinstance(a, (ast.List, ast.Tuple)) and \
        len(a.elts) == 1 else None
    need(wi is not None, "%s: cannot follow the work items the on-demand loop is seeded "
         "with (`%s`)" % (fn.qualname, short(a if a is not None else c)))
    ok = same_or_opaque(w, fn, wi["node"], p_node, "node of the seeded work item") and \
        same_or_opaque(w, fn, wi["row_ids"], p_rows, "rows of the seeded work item")
    run.ob(R1, fn.qualname, "self._update_loop([WorkItem(node, row_ids, [])], ...)", "the on-demand "
           "loop is seeded with the node and rows being read", ok, fi=fn.fi, node=c)


def r1_funnel(run, w):
  R1 = run.rule("C06-R1", "dirty reads funnel into _recompute; inside an update loop it visits the "
                "node with allow_evaluation=False; that visit scans every required row and raises "
                "OrderError (cached first) for one that needs evaluation", floor=15)
  inl = inliner(w)
  own = Owners(w)
  # (a) _use_node: every path that does not reach _recompute ends under one of the two shortcuts
  un = inl.fn("engine.Engine._use_node")
  uex = expander(un)
  ps = un.fi.params()
  cfg = un.cfg
  need(len(ps) >= 4, "_use_node: signature changed")
  rec = [(n, c) for (n, c, nm) in un.calls() if nm == "self._recompute"]
  direct = [(n, c) for (n, c, nm) in un.calls()
            if nm in ("self._recompute_step", "self._update_loop")]
  shortcuts = dict(_no_dirty_rows_atoms(ps[1]))
  shortcuts["self._peeking"] = True
  in_place = False
  if len(rec) == 1 and not direct:
    rn, rc = rec[0]
    rf = w.repo.func("engine.Engine._recompute")
    m = bind_call(rc, rf) or {}
    rps = rf.params()
    need(len(rps) == 3 and m, "_use_node / _recompute: signature changed")
    ok_args = same_or_opaque(w, un, m.get(rps[1]), ps[1], "node handed to _recompute") and \
        same_or_opaque(w, un, m.get(rps[2]), ps[3], "rows handed to _recompute")
    run.ob(R1, un.qualname, "self._recompute(node, row_ids)", "the node and rows being read are the "
           "ones brought up to date", ok_args, fi=un.fi, node=rc)
    fr = Facts(cfg, set(shortcuts), ex=uex)
    seen = fr.run([(cfg.entry.id, {})], stop={rn.id})
    bad = [f for f in seen.get(cfg.exit.id, [])
           if not any(f.get(k) is v for k, v in shortcuts.items())]
    if bad:
      ot = opaque_tests(w, un)
      need(not ot, "_use_node: a path ends without recomputing under a test that cannot be followed "
           "(`%s`)" % (short(ot[0].stmt.test) if ot else ""))
    run.ob(R1, un.qualname, "every path ends in a shortcut return or self._recompute(...)",
           "a read skips recomputation only while peeking or when the node has no dirty rows",
           not bad, fi=un.fi,
           witness=None if not bad else "a path reaches the end of _use_node without recomputing, "
           "knowing only %s" % (bad[0] or "nothing"))
  elif direct and not rec:
    # the body of _recompute written in place: the same dispatch is decided here, the shortcuts
    # being the only other ways out
    in_place = True
    _check_dispatch(run, w, R1, un, ps[1], ps[3], shortcuts)
  else:
    raise AnalysisError("_use_node: expected exactly one self._recompute call (or its body in "
                        "place)")

  # (b) _recompute: in an update loop -> _recompute_step(allow_evaluation=False); else own loop
  if w.repo.has_func("engine.Engine._recompute"):
    fn = inl.fn("engine.Engine._recompute")
    _check_dispatch(run, w, R1, fn, fn.fi.params()[1], fn.fi.params()[2], {})
  elif not in_place:
    raise AnalysisError("anchor function vanished: engine.Engine._recompute")
  stf = w.repo.func(STEP)

  # (c) who may call _recompute_step, and with what
  named = {LOOP, "engine.Engine._recompute"}
  if in_place:
    named.add("engine.Engine._use_node")      # decided by _check_dispatch above
  for fi in w.repo.all_functions():
    for c in calls_in(fi.node.body):
      if isinstance(c.func, ast.Attribute) and c.func.attr == "_recompute_step":
        owners = own.of(fi, named)
        ok = owners <= named
        if ok and owners == {LOOP}:
          m = bind_call(c, stf) or {}
          ae = m.get("allow_evaluation")
          ok = ae is not None and is_const(expander(w.fn_of(fi)).expand(ae), True)
        if ok:
          followed(inl, fi, owners)
        run.ob(R1, fi.qualname, short(c), "_recompute_step is entered only by the scheduler "
               "(evaluating) and by _recompute (non-evaluating)", ok, fi=fi, node=c,
               nontrivial=False)


# ------------------------------------------------------------------------------------------
def r1_scan(run, w, sc):
  R1 = "C06-R1"
  fn = sc.fn
  ex = sc.ex
  cfg = fn.xcfg
  du = DefUse(fn, cfg)
  head = sc.head(cfg)
  body = sc.body_nodes(cfg)
  # (c2) the rows treated as required are exactly the first sequence of the chain
  fv = ex.expand(sc.flag_stmt.value)
  if isinstance(fv, ast.IfExp) and is_const(fv.orelse, True):
    # <i> < N if N else True  ==  not N or <i> < N
    fv = ast.BoolOp(op=ast.Or(), values=[ast.UnaryOp(op=ast.Not(), operand=fv.test), fv.body])
  elif isinstance(fv, ast.IfExp) and is_const(fv.body, True):
    fv = ast.BoolOp(op=ast.Or(), values=[fv.test, fv.orelse])
  disj = fv.values if isinstance(fv, ast.BoolOp) and isinstance(fv.op, ast.Or) else [fv]
  counts, none_case = [], []
  for d in disj:
    if isinstance(d, ast.Compare) and len(d.ops) == 1:
      l, r, op = d.left, d.comparators[0], d.ops[0]
      if isinstance(op, ast.Lt) and text(l) == sc.idx:
        counts.append(r)
        continue
      if isinstance(op, ast.Gt) and text(r) == sc.idx:
        counts.append(l)
        continue
      if isinstance(op, ast.Eq) and is_const(r, 0):
        none_case.append(l)
        continue
      if isinstance(op, ast.Eq) and is_const(l, 0):
        none_case.append(r)
        continue
    if isinstance(d, ast.UnaryOp) and isinstance(d.op, ast.Not) and \
        isinstance(d.operand, ast.UnaryOp) and isinstance(d.operand.op, ast.Not):
      d = d.operand.operand
    if isinstance(d, ast.UnaryOp) and isinstance(d.op, ast.Not):
      none_case.append(d.operand)
      continue
    raise AnalysisError("%s: the `required` flag `%s` is not a recognised shape"
                        % (STEP, short(sc.flag_stmt.value)))
  if len(counts) != 1:
    raise AnalysisError("%s: the `required` flag does not compare the scan index with a count" % STEP)
  def count_of(e):
    """the sequence whose length e is (text), or the sequence itself for a truth test"""
    if isinstance(e, ast.Call) and dotted(e.func) == "len" and len(e.args) == 1:
      return text(e.args[0])
    return None
  cnt = count_of(counts[0])
  ok = cnt is not None and cnt == sc.req_text and \
      all(count_of(x) == sc.req_text or text(x) == sc.req_text for x in none_case)
  # the sequence is not rebound between the count and the scan
  if ok and sc.req_var is not None:
    reb = du.rebinders(sc.req_var)
    cdefs = set()
    raw = sc.flag_stmt.value
    for nm in names_loaded(raw):
      v = ex.value(nm)
      if v is not None and sc.req_var in names_loaded(ex.expand(v)):
        cdefs |= du.defs.get(nm, set())
    for d in cdefs:
      between = cfg.reach_after({d}, removed={head}) & cfg.reach({head}, removed={d}, forward=False)
      if between & reb:
        ok = False
    if reb & body:
      ok = False
  run.ob(R1, fn.qualname, "required = <index> < len(<required rows>) or there are none",
         "exactly the rows of the first chain() argument -- all of them, duplicates included -- are "
         "treated as required; a required row counted as opportunistic would end the "
         "non-evaluating visit silently", ok, fi=fn.fi, node=sc.flag_stmt,
         witness=None if ok else "the count compared with the scan index is `%s`, the sequence "
         "scanned first is `%s`" % (short(counts[0]), sc.req_text))
  # (d) the scan is exhaustive: nothing breaks out of it
  brk = loop_breaks(sc.loop)
  run.ob(R1, fn.qualname, "no `break` leaves the scan over chain(<required>, <dirty>)",
         "every required row is examined: a later required row that is still dirty is not skipped "
         "because an earlier one was clean", not brk, fi=fn.fi,
         node=brk[0] if brk else sc.loop,
         witness=None if not brk else "break at line %d ends the scan early" % brk[0].lineno)
  # (e) skips: a row leaves the iteration without being evaluated only for a reason it needs no
  #     evaluation (path-sensitive: any spelling of the guards)
  flag_nodes = nodes_for(cfg, sc.flag_stmt)
  starts = set()
  for f in flag_nodes:
    starts |= cfg.normal_succ(f)
  tbl = None
  for nm, tag in fn.env.items():
    if tag == T.TABLE:
      tbl = nm if tbl is None else tbl
  just = {"%s in %s" % (sc.row, sc.dirty_var): False}
  for dv in sc.done_vars:
    just["%s in %s" % (sc.row, dv)] = True
  just["%s in self._recompute_done_map[%s]" % (sc.row, sc.p_node)] = True
  for nm, tag in fn.env.items():
    if tag == T.TABLE:
      just["%s in %s.row_ids" % (sc.row, nm)] = False
  just["%s in self.tables[%s.table_id].row_ids" % (sc.row, sc.p_node)] = False
  evals = sc.eval_nodes(cfg)
  fr = Facts(cfg, set(just) | {sc.flag, "allow_evaluation"}, ex=ex,
             noreturn=lambda n: never_returns(w, fn, n))
  fr.ignore_edges = sc.noise(cfg)
  seen = fr.run([(s, {}) for s in starts], stop={head} | evals)
  arrivals = [f for f in seen.get(head, [])]
  # arrivals at the head by an exceptional edge do not exist (the head is a `for`); all are skips
  bad = [f for f in arrivals if not any(f.get(k) is v for k, v in just.items())]
  ot = opaque_tests(w, fn, cfg, within=body)
  if bad:
    need(not ot, "%s: a row can be passed over under a test that cannot be followed (`%s`)"
         % (STEP, short(ot[0].stmt.test) if ot else ""))
  run.ob(R1, fn.qualname, "a row is passed over only if not dirty / absent / done",
         "a row is skipped only when it is clean, absent or already done", not bad, fi=fn.fi,
         node=sc.loop, witness=None if not bad else "an iteration can end without evaluating the "
         "row, knowing only %s" % (bad[0] or "nothing"))
  # (f) path-sensitive: a required row never leaves the scan by `return`
  seen = fr.run([(s, {sc.flag: True}) for s in starts], stop={head})
  rets = [n for n in seen if cfg.nodes[n].kind == "return" and n in body]
  if rets:
    need(not ot, "%s: a return is reachable for a required row under a test that cannot be "
         "followed (`%s`)" % (STEP, short(ot[0].stmt.test) if ot else ""))
  run.ob(R1, fn.qualname, "no `return` is reachable while the row is required",
         "the scan is abandoned only on rows nobody asked for", not rets, fi=fn.fi,
         node=cfg.nodes[rets[0]].stmt if rets else sc.loop,
         witness=None if not rets else "return at line %d reachable for a required row"
         % cfg.nodes[rets[0]].lineno)
  # (g) required + not allowed to evaluate => OrderError for this cell, nothing else
  fr.noreturn_seen = set()
  seen = fr.run([(s, {sc.flag: True, "allow_evaluation": False}) for s in starts],
                stop={head})
  if fr.noreturn_seen:
    raise AnalysisError("%s: the OrderError is raised by a helper (`%s`); the protocol can no "
                        "longer be followed here" % (STEP, short(cfg.nodes[min(fr.noreturn_seen)].stmt)))
  back = [f for f in seen.get(head, []) if not any(f.get(k) is v for k, v in just.items())]
  raises = [n for n in seen if cfg.nodes[n].kind == "raise_stmt" and n in body]
  ok = not (set(seen) & evals) and not back and bool(raises) and \
      not [n for n in seen if cfg.nodes[n].kind == "return" and n in body]
  if not ok:
    need(not ot, "%s: what happens to a required row that cannot be evaluated depends on a test "
         "that cannot be followed (`%s`)" % (STEP, short(ot[0].stmt.test) if ot else ""))
  wit = None
  if set(seen) & evals:
    wit = "the cell is evaluated although allow_evaluation is false"
  elif back:
    wit = "the loop moves on past a required row that needs evaluation"
  elif not raises:
    wit = "no raise reachable"
  run.ob(R1, fn.qualname, "required and not allow_evaluation => raise OrderError",
         "a required row that needs evaluation ends the non-evaluating visit with an OrderError "
         "(never a silent return, never moving on)", ok, witness=wit, fi=fn.fi)
  # (h) cached first: on every path to the raise the cache is known to be non-empty
  def caches(s):
    if isinstance(s, ast.Assign) and len(s.targets) == 1 and text(s.targets[0]) == CRE:
      v = ex.expand(s.value)
      if is_order_error_ctor(v, sc):
        return {CRE: True}
      if isinstance(v, ast.BoolOp) and isinstance(v.op, ast.Or) and text(v.values[0]) == CRE and \
          is_order_error_ctor(v.values[-1], sc):
        return {CRE: True}
    return {}
  fc = Facts(cfg, {CRE}, ex=ex, on_assign=caches)
  seen_c = fc.run([(s, {}) for s in starts], stop={head})
  for n in raises:
    exc = cfg.nodes[n].stmt.exc
    vals = values_at(fn, cfg, du, n, exc) if exc is not None else []
    need(vals, "%s: a bare `raise` in the non-evaluating branch cannot be followed" % STEP)
    for v in vals:
      need(is_order_error_ctor(v, sc) or not opaque_parts(w, fn.fi, v),
           "%s: cannot follow what is raised for a required row (`%s`)" % (STEP, short(v)))
    run.ob(R1, fn.qualname, "raise OrderError(<msg>, node, row)",
           "the OrderError names this node and this row as the dependency",
           bool(vals) and all(is_order_error_ctor(v, sc) for v in vals), fi=fn.fi,
           node=cfg.nodes[n].stmt,
           witness=None if not vals else "raises `%s`" % short(vals[0]))
    ok = n in seen_c and all(f.get(CRE) is True for f in seen_c[n])
    run.ob(R1, fn.qualname, "if not self._cell_required_error: self._cell_required_error = "
           "OrderError(...) before the raise",
           "the error is cached before it is thrown, so a formula that swallows the exception is "
           "still re-ordered", ok, fi=fn.fi, node=cfg.nodes[n].stmt,
           witness=None if ok else "the raise is reachable without the cache having been filled")


# ------------------------------------------------------------------------------------------
def r2_one_cell(run, w):
  R2 = run.rule("C06-R2", "_recompute_one_cell: after the user code returns, the cached order error "
                "is checked before the result is returned; in the error branch the order error "
                "wins over the user error and is reset when raised", floor=8)
  inl = inliner(w)
  own = Owners(w)
  fn = inl.fn(ONE)
  ex = expander(fn)
  cfg = fn.xcfg
  du = DefUse(fn, cfg)
  methods = fn.nodes_calling(lambda c, nm, f: isinstance(c.func, ast.Attribute) and
                             c.func.attr == "method", cfg)
  if not methods:
    raise AnalysisError("%s: user-code call (col.method) not found" % ONE)
  tries = [s for s in stmts_in(fn.node.body, ast.Try)
           if any(h.type is None for h in s.handlers) and
           all(m in nodes_of_stmts(cfg, s.body) for m in methods)]
  if len(tries) != 1:
    raise AnalysisError("%s: user-code call is not inside exactly one try with a bare except" % ONE)
  tr = tries[0]
  bare = [h for h in tr.handlers if h.type is None]
  h = bare[0]
  hn = [n.id for n in cfg.nodes if n.kind == "handler" and n.stmt is h]
  hbody = nodes_of_stmts(cfg, h.body)
  allh = {n.id for n in cfg.nodes if n.kind == "handler"}
  # normal completion of the user code: every return reached knows the cache is empty, and the
  # cached error is raised when it is not
  fr = Facts(cfg, {CRE}, ex=ex)
  starts = set()
  for m in methods:
    starts |= cfg.normal_succ(m)
  seen = fr.run([(s, {}) for s in starts], stop=allh)
  rets = [n for n in seen if cfg.nodes[n].kind == "return"]
  if not rets:
    raise AnalysisError("%s: no return of the result after the user code" % ONE)
  bad = [n for n in rets if not all(f.get(CRE) is False for f in seen[n])]
  rz = [n for n in seen if cfg.nodes[n].kind == "raise_stmt" and cfg.nodes[n].stmt.exc is not None
        and ex.norm(cfg.nodes[n].stmt.exc) == CRE and all(f.get(CRE) is True for f in seen[n])]
  ok = not bad and bool(rz)
  if not ok:
    und = undissolved(w, fn, cfg, within=set(seen))
    need(not und, "%s: the code between the user-code call and the return calls `%s`, which "
         "cannot be followed" % (ONE, short(und[0]) if und else ""))
  run.ob(R2, fn.qualname, "col.method(...) ... if self._cell_required_error: raise ... return result",
         "a formula that swallowed the OrderError (and went on with a stale value) still has its "
         "cell re-ordered instead of its result stored", ok, fi=fn.fi,
         node=cfg.nodes[bad[0]].stmt if bad else cfg.nodes[sorted(methods)[0]].stmt,
         witness=None if ok else ("the result is returned at line %d without the cached order "
                                  "error having been checked" % cfg.nodes[bad[0]].lineno if bad
                                  else "the cached order error is never raised"))
  # the error branch: with an order error pending at the time the handler reads it, the handler
  # never returns a value, and raises that error
  reads = [n for n in cfg.nodes if n.id in hbody and n.kind == "stmt" and
           isinstance(n.stmt, ast.Assign) and len(n.stmt.targets) == 1 and
           isinstance(n.stmt.targets[0], ast.Name) and text(n.stmt.value) == CRE]
  if len({n.stmt.targets[0].id for n in reads}) != 1:
    raise AnalysisError("%s: error branch does not read self._cell_required_error into a local" % ONE)
  var = reads[0].stmt.targets[0].id
  read_nodes = {n.id for n in reads}
  if du.rebinders(var) - read_nodes:
    raise AnalysisError("%s: the pending-error local is bound more than once" % ONE)
  hrets = {n for n in hbody if cfg.nodes[n].kind == "return"}
  fr = Facts(cfg, {var})
  starts = set()
  for r in read_nodes:
    starts |= cfg.normal_succ(r)
  seen = fr.run([(s, {var: True}) for s in starts])
  bad = sorted(set(seen) & hrets)
  raised = [n for n in seen if n in hbody and cfg.nodes[n].kind == "raise_stmt" and
            cfg.nodes[n].stmt.exc is not None and text(cfg.nodes[n].stmt.exc) == var]
  ok = all(cfg.dominated_by(r, set(hn)) for r in read_nodes) and not bad and bool(raised) and \
      cfg.exit.id not in seen
  # every way into the rest of the handler passes the read
  first_h = set()
  for x in hn:
    first_h |= cfg.normal_succ(x)
  ok = ok and not (cfg.reach(first_h, removed=read_nodes) & (hrets | {cfg.exit.id}))
  if not ok:
    und = undissolved(w, fn, cfg, within=hbody)
    need(not und, "%s: the error branch calls `%s`, which cannot be followed"
         % (ONE, short(und[0]) if und else ""))
  run.ob(R2, fn.qualname, "except: <pending> = self._cell_required_error ... if <pending>: raise <pending>",
         "when the cell met a not-yet-evaluated dependency, the order error is re-raised; the "
         "user-level error (often caused by the stale read) is never stored instead", ok,
         witness=None if ok else ("error value returned at line %d with the order error pending"
                                  % cfg.nodes[bad[0]].lineno if bad else "order error not re-raised"),
         fi=fn.fi, node=h)
  for n in raised:
    resets = {x.id for x in cfg.nodes if x.id in hbody and x.kind == "stmt" and
              isinstance(x.stmt, ast.Assign) and
              any(text(t) == CRE for t in x.stmt.targets) and
              is_const(x.stmt.value, None)}
    ok = bool(resets) and not _reach_avoiding(cfg, hn, n, resets)
    run.ob(R2, fn.qualname, "self._cell_required_error = None before raise <pending>",
           "the cached error is consumed when raised, so the next cell evaluated is not "
           "re-ordered for an error that is not its own", ok, fi=fn.fi, node=cfg.nodes[n].stmt)
  # the cache is written only by the protocol
  owners = {STEP: "caches the OrderError", ONE: "consumes it",
            "engine.Engine._requesting": "RequestingError uses the same channel",
            "engine.Engine._pre_update": "frame reset", "engine.Engine.__init__": "initial value"}
  for fi in w.repo.all_functions():
    for x in walk_fn(fi):
      if isinstance(x, ast.Attribute) and x.attr == "_cell_required_error" and \
          isinstance(x.ctx, (ast.Store, ast.Del)):
        os_ = own.of(fi, set(owners))
        ok = os_ <= set(owners)
        if ok:
          followed(inl, fi, os_)
        elif isinstance(x.ctx, ast.Store) and is_frame_reset(w, fi, x):
          ok = True     # the frame reset (_pre_update) written in place at the start of a frame
        run.ob(R2, fi.qualname, "write of _cell_required_error", "the pending-order-error channel "
               "is written only by the protocol's own functions", ok, fi=fi,
               node=x, nontrivial=False)


def _reach_avoiding(cfg, starts, target, removed):
  """Is `target` reachable from `starts` without passing a node of `removed`?"""
  return target in cfg.reach(set(starts), removed=set(removed))


def walk_fn(fi):
  for s in fi.node.body:
    for n in walk_no_nested(s, into_lambda=True):
      yield n


# ------------------------------------------------------------------------------------------
class LoopRoles(object):
  """The roles inside Engine._update_loop: the pop of a work item and the variables holding its
  three components, the visit, the try around it and its OrderError handler."""
  def __init__(self, w):
    self.w = w
    fn = self.fn = inliner(w).fn(LOOP)
    ex = self.ex = expander(fn)
    cfg = self.cfg = fn.xcfg
    self.p_items = p_items = fn.fi.params()[1]
    def is_pop(v):
      return isinstance(v, ast.Call) and isinstance(v.func, ast.Attribute) and \
          v.func.attr in ("pop", "popleft") and ex.norm(v.func.value) == p_items
    pops = [n for n in cfg.nodes if n.kind == "stmt" and isinstance(n.stmt, ast.Assign) and
            is_pop(n.stmt.value)]
    if len(pops) != 1 or len(pops[0].stmt.targets) != 1:
      raise AnalysisError("%s: `node, row_ids, locks = work_items.pop()` not found" % LOOP)
    self.pop = pop = pops[0]
    self.pop_call = pop.stmt.value
    tgt = pop.stmt.targets[0]
    if isinstance(tgt, ast.Name):
      # item = work_items.pop(); node, row_ids, locks = item
      un = [s for s in stmts_in(fn.node.body, ast.Assign) if isinstance(s.value, ast.Name) and
            s.value.id == tgt.id and len(s.targets) == 1 and isinstance(s.targets[0], ast.Tuple)]
      if len(un) == 1:
        tgt = un[0].targets[0]
      else:
        # node = item[0] / item.node; row_ids = item[1] / item.row_ids; locks = item[2] / item.locks
        fields = work_item_fields(w)
        comp = {}
        for s_ in stmts_in(fn.node.body, ast.Assign):
          v = s_.value
          k = None
          if isinstance(v, ast.Subscript) and isinstance(v.value, ast.Name) and \
              v.value.id == tgt.id and isinstance(v.slice, ast.Constant) and \
              v.slice.value in (0, 1, 2):
            k = v.slice.value
          elif isinstance(v, ast.Attribute) and isinstance(v.value, ast.Name) and \
              v.value.id == tgt.id and v.attr in fields:
            k = fields.index(v.attr)
          if k is not None and len(s_.targets) == 1 and isinstance(s_.targets[0], ast.Name) and \
              k not in comp:
            comp[k] = s_.targets[0]
        if sorted(comp) != [0, 1, 2]:
          raise AnalysisError("%s: the popped work item is not unpacked into three locals" % LOOP)
        tgt = ast.Tuple(elts=[comp[0], comp[1], comp[2]], ctx=ast.Store())
    if not (isinstance(tgt, ast.Tuple) and len(tgt.elts) == 3 and
            all(isinstance(e, ast.Name) for e in tgt.elts)):
      raise AnalysisError("%s: `node, row_ids, locks = work_items.pop()` not found" % LOOP)
    self.v_node, self.v_rows, self.v_locks = [e.id for e in tgt.elts]
    steps = [(n, c) for (n, c, nm) in fn.calls(cfg) if nm == "self._recompute_step"]
    if len(steps) != 1:
      raise AnalysisError("%s: expected one _recompute_step call" % LOOP)
    self.sn, self.scall = steps[0]
    tries = []
    for s in stmts_in(fn.node.body, ast.Try):
      if self.sn.id in nodes_of_stmts(cfg, s.body):
        hs = [h for h in s.handlers if h.type is not None and
              endswith(dotted(h.type), "OrderError") and h.name]
        if hs:
          tries.append((s, hs))
    if len(tries) != 1 or len(tries[0][1]) != 1:
      raise AnalysisError("%s: `except OrderError as e` handler around the visit not found" % LOOP)
    self.tr, (self.h,) = tries[0]
    self.ev = self.h.name
    self.hn = {n.id for n in cfg.nodes if n.kind == "handler" and n.stmt is self.h}
    self.hbody = nodes_of_stmts(cfg, self.h.body)

  def is_var(self, e, var):
    """Does expression e denote the local `var` (directly or through single-assignment aliases)?"""
    return e is not None and self.ex.norm(e) == self.ex.norm(ast.Name(id=var, ctx=ast.Load()))

  def pushes(self):
    """[(cfg node, call, {node,row_ids,locks} or None)] for every push onto the work list made in
    the OrderError handler."""
    out = []
    for (n, c, nm) in self.fn.calls(self.cfg):
      if n.id in self.hbody and isinstance(c.func, ast.Attribute) and \
          self.ex.norm(c.func.value) == self.p_items and \
          c.func.attr in ("append", "insert", "appendleft", "extend"):
        wi = None
        if c.func.attr == "append" and len(c.args) == 1 and not c.keywords:
          wi = work_item(self.w, self.ex.expand(c.args[0]))
        out.append((n, c, wi))
    return out


def r3_reorder(run, w, sc):
  R3 = run.rule("C06-R3", "_update_loop: on OrderError the interrupted item is re-pushed before "
                "the dependency on a LIFO stack; the error's fields mean what the loop reads",
                floor=8)
  lr = LoopRoles(w)
  fn, cfg, ex = lr.fn, lr.cfg, lr.ex
  ev, hn, hbody, h = lr.ev, lr.hn, lr.hbody, lr.h
  pc = lr.pop_call
  run.ob(R3, fn.qualname, "<node>, <rows>, <locks> = work_items.pop()", "work items are taken from "
         "the end of the list (LIFO)",
         pc.func.attr == "pop" and not pc.args and not pc.keywords, fi=fn.fi, node=lr.pop.stmt)
  stf = w.repo.func(STEP)
  m = bind_call(lr.scall, stf) or {}
  rr, nd = m.get("require_rows"), m.get(stf.params()[1])
  need(m, "%s: cannot match the arguments of `%s`" % (LOOP, short(lr.scall)))
  def is_var_or_opaque(e, var, what):
    if lr.is_var(e, var):
      return True
    need(e is None or not opaque_parts(w, fn.fi, ex.expand(e)),
         "%s: cannot follow `%s` (%s)" % (LOOP, short(e) if e is not None else "?", what))
    return False
  run.ob(R3, fn.qualname, "self._recompute_step(<node>, require_rows=<rows>)", "the popped node is "
         "visited with the popped rows as the required rows",
         is_var_or_opaque(nd, lr.v_node, "node visited") and
         is_var_or_opaque(rr, lr.v_rows, "rows required"), fi=fn.fi, node=lr.scall)
  pushes = lr.pushes()
  cur = [(n, c, wi) for (n, c, wi) in pushes if wi is not None and lr.is_var(wi["node"], lr.v_node)]
  dep = [(n, c, wi) for (n, c, wi) in pushes if wi is not None and
         ex.norm(wi["node"]) == "%s.node" % ev]
  for (n_, c_, wi_) in pushes:
    need(wi_ is not None or c_.func.attr != "append", "%s: cannot follow what the OrderError "
         "handler pushes (`%s`)" % (LOOP, short(c_)))
  if not pushes:
    und = undissolved(w, fn, cfg, within=hbody)
    need(not und, "%s: the OrderError handler calls `%s`, which cannot be followed"
         % (LOOP, short(und[0]) if und else ""))
  ok_shape = len(pushes) == 2 and len(cur) == 1 and len(dep) == 1
  run.ob(R3, fn.qualname, "handler pushes exactly: the interrupted item and the dependency's item",
         "both pushes use append (the end the loop pops from)", ok_shape, fi=fn.fi, node=h)
  if ok_shape:
    (cn, cc, cwi), (dn, dc, dwi) = cur[0], dep[0]
    run.ob(R3, fn.qualname, "work_items.append(WorkItem(<node>, <rows>, <locks>))", "the "
           "interrupted item is re-pushed unchanged (same rows, same locks)",
           lr.is_var(cwi["row_ids"], lr.v_rows) and lr.is_var(cwi["locks"], lr.v_locks),
           fi=fn.fi, node=cc)
    ok = cfg.dominated_by(dn.id, {cn.id}) and cn.id not in cfg.reach_after({dn.id}, removed=hn | {lr.sn.id})
    run.ob(R3, fn.qualname, "re-push of the interrupted item precedes the push of the dependency",
           "LIFO: the dependency is evaluated before the cell that needs it is retried", ok,
           fi=fn.fi, node=dc,
           witness=None if ok else "dependency pushed first: the interrupted cell is retried before "
           "its dependency was evaluated")
    rws = ex.expand(dwi["row_ids"])
    ok = isinstance(rws, (ast.List, ast.Tuple)) and len(rws.elts) == 1 and \
        text(rws.elts[0]) == "%s.row_id" % ev
    run.ob(R3, fn.qualname, "work_items.append(WorkItem(e.node, [e.row_id], ...))", "the "
           "dependency's item requires exactly the cell that was missing", ok, fi=fn.fi, node=dc)
    # every handler path pushes both (normal completion of the handler)
    exits = {m_ for m_ in cfg.reach_after(hn) if m_ not in hbody and m_ not in hn
             and m_ != cfg.raise_exit.id}
    ok = not (cfg.reach(set(hn), removed={dn.id}) & exits)
    run.ob(R3, fn.qualname, "every normal path through the handler pushes the dependency",
           "an OrderError is never swallowed without scheduling what it asked for", ok, fi=fn.fi,
           node=h)
  # the error's fields: OrderError.__init__ stores (node, row_id) of the dependency
  init = w.fn("engine.OrderError.__init__")
  ips = init.fi.params()
  stored = {}
  def store(t, v):
    if isinstance(t, (ast.Tuple, ast.List)) and isinstance(v, (ast.Tuple, ast.List)) and \
        len(t.elts) == len(v.elts):
      for a, b in zip(t.elts, v.elts):
        store(a, b)
    elif isinstance(t, ast.Attribute) and isinstance(t.value, ast.Name) and t.value.id == ips[0]:
      stored[t.attr] = expander(init).norm(v)
  for s in stmts_in(init.node.body, ast.Assign):
    for t in s.targets:
      store(t, s.value)
  need(len(ips) == 4 and "node" in stored and "row_id" in stored, "engine.OrderError.__init__: "
       "the assignments of self.node / self.row_id were not found")
  ok = stored.get("node") == ips[2] and stored.get("row_id") == ips[3]
  run.ob(R3, init.qualname, "self.node, self.row_id = <2nd>, <3rd> constructor argument",
         "the fields the scheduler reads as the dependency are the cell named by the raiser", ok,
         fi=init.fi)
  # _recompute_step's own handler names the requiring cell before re-raising
  st = sc.fn
  sex = sc.ex
  scfg = st.xcfg
  srf = w.repo.funcs.get("engine.OrderError.set_requirer")
  for s in stmts_in(sc.loop.body, ast.Try):
    for hh in s.handlers:
      if hh.type is not None and endswith(dotted(hh.type), "OrderError") and hh.name:
        e2 = hh.name
        hb = nodes_of_stmts(scfg, hh.body)
        hnn = {n.id for n in scfg.nodes if n.kind == "handler" and n.stmt is hh}
        rs = [n for n in hb if scfg.nodes[n].kind == "raise_stmt"]
        if not rs:
          raise AnalysisError("%s: OrderError handler does not re-raise" % STEP)
        def setter(attr, val):
          out = set()
          def asg(t, v, nid):
            if isinstance(t, (ast.Tuple, ast.List)) and isinstance(v, (ast.Tuple, ast.List)) and \
                len(t.elts) == len(v.elts):
              for a, b in zip(t.elts, v.elts):
                asg(a, b, nid)
            elif text(t) == "%s.%s" % (e2, attr) and sex.norm(v) == val:
              out.add(nid)
          for x in scfg.nodes:
            if x.id in hb and x.kind == "stmt":
              if isinstance(x.stmt, ast.Assign):
                for t in x.stmt.targets:
                  asg(t, x.stmt.value, x.id)
              for c in calls_in(x.exprs):
                if text(c.func) == "%s.set_requirer" % e2 and srf is not None:
                  m2 = bind_call(c, srf) or {}
                  a_ = m2.get(srf.params()[1 if attr == "requiring_node" else 2])
                  if a_ is not None and sex.norm(a_) == val:
                    out.add(x.id)
          return out
        a = setter("requiring_node", sc.p_node)
        b = setter("requiring_row_id", sc.row)
        if not a or not b:
          # absent: a defect only if nothing in the handler could be recording it out of sight
          for x in scfg.nodes:
            if x.id in hb:
              for c in calls_in(x.exprs):
                hidden = (isinstance(c.func, ast.Attribute) and text(c.func.value) == e2 and
                          c.func.attr != "set_requirer") or \
                    any(isinstance(y, ast.Name) and y.id == e2
                        for y in list(c.args) + [k.value for k in c.keywords])
                need(not hidden, "%s: the OrderError handler hands the error to `%s`; whether the "
                     "requiring cell is recorded cannot be followed" % (STEP, short(c)))
          und = undissolved(w, st, scfg, within=hb)
          need(not und, "%s: the OrderError handler calls `%s`, which cannot be followed"
               % (STEP, short(und[0]) if und else ""))
        for r in rs:
          ok = bool(a) and bool(b) and not _reach_avoiding(scfg, hnn, r, a) and \
              not _reach_avoiding(scfg, hnn, r, b)
          run.ob(R3, st.qualname, "except OrderError as e: e.requiring_node/row_id = node, row; raise",
                 "the re-raised error tells the scheduler which cell to retry (and "
                 "lock) after the dependency", ok, fi=st.fi, node=scfg.nodes[r].stmt)
  # the set_requirer helper, when used, stores what it is given in the fields the loop reads
  if srf is not None:
    sps = srf.params()
    sst = {}
    for s in stmts_in(srf.node.body, ast.Assign):
      for t in s.targets:
        if isinstance(t, ast.Attribute) and isinstance(t.value, ast.Name) and t.value.id == sps[0]:
          sst[t.attr] = text(s.value)
    run.ob(R3, srf.qualname, "self.requiring_node, self.requiring_row_id = <1st>, <2nd> argument",
           "the helper stores the requiring cell in the fields the scheduler reads",
           len(sps) == 3 and sst.get("requiring_node") == sps[1] and
           sst.get("requiring_row_id") == sps[2], fi=srf, nontrivial=False)
  # the loop's lock / retry use the requiring fields, the push uses the dependency fields
  asserts = [n for n in cfg.nodes if n.id in hbody and n.kind == "assert"]
  run.note("C06-R3: handler asserts present: %d (not required by the rule)" % len(asserts))


# ------------------------------------------------------------------------------------------
def _key_function(fn, ex, key):
  """(parameter name, returned expression) of a sort key given as a lambda or as a local def
  consisting of one return."""
  if isinstance(key, ast.Lambda) and len(key.args.args) == 1:
    return key.args.args[0].arg, key.body
  def straight_line(s, pidx):
    """a def made of plain assignments followed by one return: (parameter, returned expression)"""
    if len(s.args.args) != pidx + 1:
      return None
    body = [b for b in s.body if not (isinstance(b, ast.Expr) and
                                     isinstance(b.value, ast.Constant))]
    if body and isinstance(body[-1], ast.Return) and body[-1].value is not None and \
        all(isinstance(b, ast.Assign) for b in body[:-1]):
      from ._h_A import Expander
      return s.args.args[pidx].arg, Expander(s).expand(body[-1].value)
    return None
  if isinstance(key, ast.Attribute) and isinstance(key.value, ast.Name) and key.value.id == "self" \
      and fn.fi.cls is not None:
    m = fn.world.repo.find_method(fn.fi.cls, key.attr)     # lambda turned into a method
    return straight_line(m.node, 1) if m is not None else None
  if isinstance(key, ast.Name):
    v = ex.value(key.id)
    if v is not None:
      return _key_function(fn, ex, v)
    cands = [s for s in ast.walk(fn.node)
             if isinstance(s, ast.FunctionDef) and s.name == key.id and s is not fn.node]
    if not cands and key.id in fn.fi.module.functions:
      cands = [fn.fi.module.functions[key.id].node]       # closure turned into a module function
    for s in cands:
      r = straight_line(s, 0)
      if r is not None:
        return r
  return None


def _lookups_last(fn, ex, s):
  """Does the sort `s` (a sorted(...) / <list>.sort(...) call) put the #lookup nodes at the END of
  the sequence -- the end the LIFO scheduler takes work from? Raises AnalysisError when the key
  cannot be followed."""
  key = kwarg(s, "key")
  rev = kwarg(s, "reverse")
  kf = _key_function(fn, ex, key) if key is not None else None
  if kf is None:
    raise AnalysisError("%s: sort key is not a one-argument function" % fn.qualname)
  kv, kbody = kf
  first = kbody.elts[0] if isinstance(kbody, ast.Tuple) and kbody.elts else kbody
  # first component: [not] <n>.col_id.startswith('#lookup')
  neg = False
  e = first
  while isinstance(e, ast.UnaryOp) and isinstance(e.op, ast.Not):
    neg, e = not neg, e.operand
  is_lookup_test = isinstance(e, ast.Call) and isinstance(e.func, ast.Attribute) and \
      e.func.attr == "startswith" and text(e.func.value) == "%s.col_id" % kv and \
      len(e.args) == 1 and isinstance(e.args[0], ast.Constant) and e.args[0].value == "#lookup"
  if not is_lookup_test:
    raise AnalysisError("%s: first key component is not a #lookup test" % fn.qualname)
  rev = ex.expand(rev) if rev is not None else None
  if rev is not None and not isinstance(rev, ast.Constant):
    raise AnalysisError("%s: reverse= is not a constant" % fn.qualname)
  reverse = bool(rev.value) if rev is not None else False
  # Items are popped from the END of the list. Ascending sort puts False before True.
  lookup_key = (not True) if neg else True          # key value of a lookup node
  return (lookup_key is True) != reverse            # ascending: True last; reversed: False last


def _work_items_in_place(w, f2, v):
  """A work list built in place -- [WorkItem(n, ...) for n in sorted(<nodes>, key=...)] -- instead
  of through _make_sorted_work_items: True / False: it does / does not put the #lookup nodes where
  the scheduler takes them first; None: not of that shape."""
  v = strip_wrappers(v, names=("list",))
  if not (isinstance(v, (ast.ListComp, ast.GeneratorExp)) and len(v.generators) == 1 and
          not v.generators[0].ifs and isinstance(v.generators[0].target, ast.Name)):
    return None
  wi = work_item(w, v.elt)
  it = v.generators[0].iter
  if wi is None or text(wi["node"]) != v.generators[0].target.id or \
      not (isinstance(it, ast.Call) and dotted(it.func) == "sorted"):
    return None
  return _lookups_last(f2, expander(f2), it)


def r4_lookups_first(run, w):
  R4 = run.rule("C06-R4", "_make_sorted_work_items schedules #lookup nodes before all others",
                floor=4)
  fn = inliner(w).fn("engine.Engine._make_sorted_work_items")
  ex = expander(fn)
  cfg = fn.cfg
  du = DefUse(fn, cfg)
  p = fn.fi.params()[1]
  sorts = [c for c in calls_in(fn.node.body) if dotted(c.func) == "sorted"]
  sort_stmts = [(n, c) for (n, c, nm) in fn.calls()
                if isinstance(c.func, ast.Attribute) and c.func.attr == "sort"]
  if len(sorts) + len(sort_stmts) != 1:
    raise AnalysisError("_make_sorted_work_items: expected one sorted(...) call (or one in-place "
                        "<list>.sort(...))")
  in_place = None
  if sort_stmts:
    # <l> = list(<nodes>); <l>.sort(key=..., reverse=...)
    sort_node, s = sort_stmts[0]
    if not (isinstance(s.func.value, ast.Name) and sort_node.kind == "stmt" and
            isinstance(sort_node.stmt, ast.Expr) and sort_node.stmt.value is s and not s.args):
      raise AnalysisError("_make_sorted_work_items: in-place sort of something other than a local")
    in_place = s.func.value.id
  else:
    s = sorts[0]
  lookups_last_in_list = _lookups_last(fn, ex, s)
  # the returned list preserves the sorted order
  def from_sorted(it, at):
    """Is iterable `it`, evaluated at node `at`, the sorted sequence (in its sorted order)?"""
    if in_place is not None:
      if not (isinstance(it, ast.Name) and it.id == in_place):
        return False
      reb = du.writers(in_place) - {sort_node.id}
      between = cfg.reach_after({sort_node.id}, removed={at}) & \
          cfg.reach({at}, removed={sort_node.id}, forward=False)
      return cfg.dominated_by(at, {sort_node.id}) and not (between & reb)
    if isinstance(it, ast.Name):
      rd = reaching_defs(cfg, du, at, it.id)
      return len(rd) == 1 and isinstance(cfg.nodes[next(iter(rd))].stmt, ast.Assign) and \
          cfg.nodes[next(iter(rd))].stmt.value is s
    return text(it) in (text(s), text(ex.expand(s)))
  built_in_order = None
  for (n, r, v) in returns_of(fn):
    if v is None:
      continue
    if isinstance(v, (ast.ListComp, ast.GeneratorExp)) or \
        (isinstance(v, ast.Call) and dotted(v.func) == "list" and len(v.args) == 1 and
         isinstance(v.args[0], (ast.ListComp, ast.GeneratorExp))):
      comp = v if isinstance(v, (ast.ListComp, ast.GeneratorExp)) else v.args[0]
      if len(comp.generators) == 1:
        g = comp.generators[0]
        built_in_order = from_sorted(g.iter, n.id) and not g.ifs
        continue
    bl = built_list(fn, cfg, du, n.id, r.value.id) if isinstance(r.value, ast.Name) else None
    if bl is not None:
      # <out> = []; for <n> in <sorted>: <out>.append(WorkItem(<n>, ...)); return <out>
      elt, tgt, it, lp = bl
      hd = next(iter(nodes_for(cfg, lp)))
      built_in_order = from_sorted(it, hd)
      continue
    raise AnalysisError("_make_sorted_work_items: cannot follow how the returned list is built "
                        "(`%s`)" % short(v))
  if built_in_order is None:
    raise AnalysisError("_make_sorted_work_items: nothing is returned")
  run.ob(R4, fn.qualname, "sorted(<nodes>, reverse=.., key=(not #lookup, node))", "with the "
         "scheduler popping from the end of the list, "
         "#lookup nodes come out first", built_in_order and lookups_last_in_list, fi=fn.fi, node=s,
         witness=None if lookups_last_in_list else "lookup nodes sort to the front of the list, "
         "which the LIFO scheduler reaches last")
  srt_in = s.args[0] if s.args else kwarg(s, "iterable")
  if in_place is not None:
    rd = reaching_defs(cfg, du, sort_node.id, in_place)
    srt_in = None
    if len(rd) == 1 and isinstance(cfg.nodes[next(iter(rd))].stmt, ast.Assign):
      srt_in = strip_wrappers(cfg.nodes[next(iter(rd))].stmt.value, names=("list",))
  run.ob(R4, fn.qualname, "sorted(<the nodes handed in>, ...)",
         "every node handed in is scheduled (no filtering)",
         srt_in is not None and same_or_opaque(w, fn, srt_in, p, "what is sorted"), fi=fn.fi,
         node=s, nontrivial=False)
  # both producers of the initial order go through this function
  ulf = w.repo.func(LOOP)
  for q in ("engine.Engine._bring_all_up_to_date", LOOP):
    f2 = inliner(w).fn(q)
    ex2 = expander(f2)
    cfg2 = f2.cfg
    du2 = DefUse(f2, cfg2)
    for (n, c, nm) in f2.calls():
      if nm == "self._update_loop":
        a = call_arg(c, ulf, ulf.params()[1])
        vs = values_at(f2, cfg2, du2, n.id, a) if a is not None else []
        need(vs and not any(isinstance(v, ast.Name) or
                            [x for x in opaque_parts(w, f2.fi, v, known=("_make_sorted_work_items",))
                             if isinstance(x, ast.Call)] for v in vs),
             "%s: cannot follow where the work items handed to _update_loop come from (`%s`)"
             % (q, short(a) if a is not None else "?"))
        ok = bool(vs) and all((isinstance(v, ast.Call) and
                               endswith(dotted(v.func), "self._make_sorted_work_items")) or
                              _work_items_in_place(w, f2, v) is True for v in vs)
        run.ob(R4, q, "self._update_loop(self._make_sorted_work_items(...))", "the "
               "full-recalculation loop starts from the lookups-first order",
               ok, fi=f2.fi, node=c)
    if q == LOOP:
      refill = [x for x in stmts_in(f2.node.body, ast.Assign)
                if any(text(t) == f2.fi.params()[1] for t in x.targets)]
      for x in refill:
        v = ex2.expand(x.value)
        need(not isinstance(v, ast.Name) and
             not [x for x in opaque_parts(w, f2.fi, v, known=("_make_sorted_work_items",))
                  if isinstance(x, ast.Call)],
             "%s: cannot follow what the work list is refilled with (`%s`)" % (q, short(v)))
        ok = (isinstance(v, ast.Call) and
              endswith(dotted(v.func), "self._make_sorted_work_items")) or \
            _work_items_in_place(w, f2, v) is True
        if not ok:
          need(_work_items_in_place(w, f2, v) is False or not opaque_parts(w, f2.fi, v),
               "%s: cannot tell whether the refilled work list orders #lookup nodes first (`%s`)"
               % (q, short(v)))
        run.ob(R4, q, "work_items = self._make_sorted_work_items(...)", "when the stack runs dry it "
               "is refilled in the lookups-first order", ok, fi=f2.fi, node=x)


# ------------------------------------------------------------------------------------------
def r5_done_after_store(run, w, sc):
  R5 = run.rule("C06-R5", "a cell enters the done set only after its evaluation completed normally "
                "and its value was stored", floor=4)
  fn = sc.fn
  cfg = fn.xcfg
  head = sc.head(cfg)
  body = sc.body_nodes(cfg)
  evals = sc.eval_nodes(cfg)
  adds = {}
  for (n, c, nm) in fn.calls(cfg):
    if n.id in body and isinstance(c.func, ast.Attribute) and c.func.attr == "add" and \
        sc.is_done_set(c.func.value):
      adds[n.id] = c
  if not adds:
    raise AnalysisError("%s: no <done set>.add(row) in the scan loop" % STEP)
  sets = {n.id for (n, c, nm) in fn.calls(cfg) if n.id in body and E.is_column_mutation(c, nm, fn)}
  if not sets:
    raise AnalysisError("%s: column write not found in the scan loop" % STEP)
  ohs = set()
  for s in stmts_in(sc.loop.body, ast.Try):
    for hh in s.handlers:
      if hh.type is not None and endswith(dotted(hh.type), "OrderError"):
        ohs |= {n.id for n in cfg.nodes if n.kind == "handler" and n.stmt is hh}
  if not ohs:
    raise AnalysisError("%s: OrderError handler around the evaluation not found" % STEP)
  for a in sorted(adds):
    c = adds[a]
    run.ob(R5, fn.qualname, "<done set>.add(<row>)", "the row marked done is the row just evaluated",
           len(c.args) == 1 and sc.ex.norm(c.args[0]) == sc.row, fi=fn.fi, node=c, nontrivial=False)
    # completed evaluation dominates the marking (within the iteration)
    noise = sc.noise(cfg)
    ok = a not in reach_pruned(cfg, {cfg.entry.id}, removed=evals, ignore_edges=noise) and \
        a in cfg.reach_after(evals, removed={head}, completed=True)
    run.ob(R5, fn.qualname, "<done set>.add(<row>) after self._recompute_one_cell(...)",
           "only an evaluated cell is marked done", ok, fi=fn.fi, node=c)
    # not reachable from an aborted evaluation (OrderError handler) within the iteration
    reach = cfg.reach(ohs, removed={head})
    ok = a not in reach and not (reach & sets)
    run.ob(R5, fn.qualname, "except OrderError: never reaches <done set>.add(<row>)",
           "a cell whose evaluation was interrupted by an OrderError is neither stored nor marked "
           "done", ok, fi=fn.fi, node=c,
           witness=None if ok else cfg.describe_path(cfg.path(sorted(ohs)[0], {a} | sets,
                                                              removed={head})))
    # the store precedes the marking
    ok = not (cfg.reach_after({a}, removed={head}) & sets)
    run.ob(R5, fn.qualname, "col.set(...) is not after <done set>.add(<row>)",
           "within one iteration the value is stored before the cell counts as done", ok,
           fi=fn.fi, node=c)


EN = "sandbox/grist/engine.py"
VARIANTS = [
  ("scan-break-on-clean-required-row", EN,
   """          # Nothing need be done for required rows that are already up to date.
          continue""",
   """          # Nothing need be done for required rows that are already up to date.
          break""", "C06-R1"),
  ("required-count-from-deduplicated-set", EN,
   "      require_count = len(require_rows)\n",
   "      require_count = len(set(require_rows))\n", "C06-R1"),
  ("required-count-off-by-one", EN,
   "        required = i < require_count or require_count == 0",
   "        required = i < require_count - 1 or require_count == 0", "C06-R1"),
  ("nested-visit-evaluates", EN,
   "      self._recompute_step(node, allow_evaluation=False, require_rows=row_ids)",
   "      self._recompute_step(node, require_rows=row_ids)", "C06-R1"),
  ("raise-only-when-not-cached", EN,
   """              self._cell_required_error = OrderError(msg, node, row_id)
            raise err""",
   """              self._cell_required_error = OrderError(msg, node, row_id)
              raise err""", "C06-R1"),
  ("order-error-not-cached", EN,
   """            if not self._cell_required_error:
              # Cache the exception in case user consumes it or modifies it in their formula.
              self._cell_required_error = OrderError(msg, node, row_id)
            raise err""",
   """            raise err""", "C06-R1"),
  ("skip-guard-polarity", EN,
   "        if row_id not in table.row_ids or row_id in exclude:",
   "        if row_id not in table.row_ids or row_id not in exclude:", "C06-R1"),
  ("use-node-skips-dirty", EN,
   "    if self.recompute_map.get(node) is None:\n      return\n",
   "    if self.recompute_map.get(node) is None or not row_ids:\n      return\n", "C06-R1"),
  ("required-row-returns", EN,
   """          if required:
            msg = 'Cell value not available yet'""",
   """          if required and row_id in require_rows:
            msg = 'Cell value not available yet'""", "C06-R1"),
  ("no-check-after-user-code", EN,
   """        if self._cell_required_error:
          raise self._cell_required_error  # pylint: disable=raising-bad-type
        self.formula_tracer(col, record)""",
   """        self.formula_tracer(col, record)""", "C06-R2"),
  ("user-error-wins", EN,
   """        if order_error:
          self._timing.mark("order_error")""",
   """        if order_error and col.is_formula():
          self._timing.mark("order_error")""", "C06-R2"),
  ("cached-error-not-reset", EN,
   """          self._timing.mark("order_error")
          self._cell_required_error = None
          raise order_error  # pylint: disable=raising-bad-type""",
   """          self._timing.mark("order_error")
          raise order_error  # pylint: disable=raising-bad-type""", "C06-R2"),
  ("dependency-pushed-first", EN,
   """          work_items.append(WorkItem(node, row_ids, locks))
          locks = []
          # Add a new work item for the cell we are following up, and lock
          # it to forbid circular dependencies
          lock = (node, e.requiring_row_id)
          work_items.append(WorkItem(e.node, [e.row_id], [lock]))""",
   """          lock = (node, e.requiring_row_id)
          work_items.append(WorkItem(e.node, [e.row_id], [lock]))
          work_items.append(WorkItem(node, row_ids, locks))
          locks = []""", "C06-R3"),
  ("fifo-pop", EN,
   "        node, row_ids, locks = work_items.pop()",
   "        node, row_ids, locks = work_items.pop(0)", "C06-R3"),
  ("requirer-not-recorded", EN,
   """          e.requiring_node = node
          e.requiring_row_id = row_id
          raise e""",
   """          e.requiring_node = node
          raise e""", "C06-R3"),
  ("lookups-last", EN,
   "    nodes = sorted(nodes, reverse=True, key=lambda n: (not n.col_id.startswith('#lookup'), n))",
   "    nodes = sorted(nodes, key=lambda n: (not n.col_id.startswith('#lookup'), n))", "C06-R4"),
  ("lookups-key-inverted", EN,
   "key=lambda n: (not n.col_id.startswith('#lookup'), n))",
   "key=lambda n: (n.col_id.startswith('#lookup'), n))", "C06-R4"),
  ("interrupted-cell-marked-done", EN,
   """            return
          # Keep track of why this cell was needed.
          e.requiring_node = node
          e.requiring_row_id = row_id
          raise e
""",
   """            pass
          else:
            # Keep track of why this cell was needed.
            e.requiring_node = node
            e.requiring_row_id = row_id
            raise e
""", "C06-R5"),
  ("done-before-store", EN,
   """        if save_value:
          # Convert the value, and if needed, set, and include into the returned action.""",
   """        exclude.add(row_id)
        if save_value:
          # Convert the value, and if needed, set, and include into the returned action.""", "C06-R5"),
]
