"""C06 Formula results do not depend on evaluation order -- the out-of-order (OrderError) protocol.

Design deviations (DESIGN.md section 4, C06):
  * R4 decides only "lookup nodes are scheduled first" (the one ordering the property itself
    exempts). That the sort key is a *total* order is a determinism clause (C30-R4), not a
    necessary condition of order independence, and is left to C30.
  * R1 additionally decides that the scan over the required rows is exhaustive (no `break`, no
    `return` on a required row, skips only for rows that need no evaluation): the design's "a
    required dirty cell raises OrderError" is only true if the scan reaches every required row.
"""
import ast
from ..fn import World
from ..index import AnalysisError, dotted
from ..astutil import text, short, endswith, calls_in, walk_no_nested, names_loaded, enclosing_chain
from .. import events as E
from .. import types as T
from ._h_A import (FactReach, branch_succ, loop_breaks, nodes_of_stmts, nodes_for, kwarg, is_const,
                   stmts_in, never_returns)

EXPLANATION = (
  "Decides the structural legs of the out-of-order protocol that keeps a formula from ever being "
  "handed a stale value, whatever order the scheduler picks. R1: every record access funnels "
  "dirty nodes into _recompute, which inside an update loop visits the node with "
  "allow_evaluation=False; that visit scans ALL required rows (no break, no return on a required "
  "row, skips only for rows that are clean, absent or done) and raises OrderError for the first "
  "one that still needs evaluation, caching the error first so a formula that swallows it is still "
  "re-ordered. R2: _recompute_one_cell checks the cached error after the user code returns and "
  "before returning its result; in the error branch the order error wins over the user error and "
  "is reset when raised. R3: the update loop re-pushes the interrupted work item before pushing "
  "the dependency on a LIFO stack, so the dependency runs first, and the error carries the "
  "dependency cell / requiring cell in the fields the loop reads. R4: lookup nodes are scheduled "
  "first. R5: a cell enters the done set only after its evaluation completed normally and its "
  "value was stored. Not decided: termination, and equality of results under all permutations "
  "(a schedule quantifier); the total order on nodes (C30-R4).")

STEP = "engine.Engine._recompute_step"
LOOP = "engine.Engine._update_loop"
ONE = "engine.Engine._recompute_one_cell"


def check(run, repo, tier):
  w = World(repo)
  sc = Scan(w)
  r1_funnel(run, w)
  r1_scan(run, w, sc)
  r2_one_cell(run, w)
  r3_reorder(run, w, sc)
  r4_lookups_first(run, w)
  r5_done_after_store(run, w, sc)


# ------------------------------------------------------------------------------------------
class Scan(object):
  """The roles inside Engine._recompute_step, found by what they do (not by name or position)."""
  def __init__(self, w):
    fn = self.fn = w.fn(STEP)
    ps = fn.fi.params()
    if len(ps) < 2:
      raise AnalysisError("%s: node parameter vanished" % STEP)
    self.p_node = ps[1]
    allp = ps + [a.arg for a in fn.node.args.kwonlyargs]
    for need in ("allow_evaluation", "require_rows"):
      if need not in allp:
        raise AnalysisError("%s: parameter %s vanished" % (STEP, need))
    # the scan loop: for <i>, <row> in enumerate(itertools.chain(<required>, <dirty>))
    loops = []
    for s in stmts_in(fn.node.body, ast.For):
      it = s.iter
      idx = None
      if isinstance(it, ast.Call) and dotted(it.func) == "enumerate" and len(it.args) == 1:
        it = it.args[0]
        if isinstance(s.target, ast.Tuple) and len(s.target.elts) == 2 and \
            all(isinstance(e, ast.Name) for e in s.target.elts):
          idx, row = s.target.elts[0].id, s.target.elts[1].id
        else:
          continue
      elif isinstance(s.target, ast.Name):
        row = s.target.id
      else:
        continue
      if isinstance(it, ast.Call) and endswith(dotted(it.func), "chain") and len(it.args) == 2 and \
          all(isinstance(a, ast.Name) for a in it.args):
        loops.append((s, idx, row, it.args[0].id, it.args[1].id))
    if len(loops) != 1:
      raise AnalysisError("%s: the scan loop over chain(required rows, dirty rows) was not found "
                          "(found %d candidates)" % (STEP, len(loops)))
    self.loop, self.idx, self.row, self.req_var, self.dirty_var = loops[0]
    # the required-rows variable derives from the require_rows parameter
    defs = E.local_defs(fn.node, self.req_var)
    if self.req_var != "require_rows" and not defs:
      raise AnalysisError("%s: required-rows variable has no definition" % STEP)
    if not all("require_rows" in names_loaded(d) for d in defs):
      raise AnalysisError("%s: first chain() argument does not derive from require_rows" % STEP)
    # the dirty-rows variable derives from self.recompute_map
    ddefs = E.local_defs(fn.node, self.dirty_var)
    if not any(isinstance(d, ast.Call) and endswith(fn.name(d), "recompute_map.get") for d in ddefs):
      raise AnalysisError("%s: second chain() argument is not the node's entry of recompute_map"
                          % STEP)
    # the `required` flag: the one name bound at the top level of the loop body from the index
    flags = []
    for s in self.loop.body:
      if isinstance(s, ast.Assign) and len(s.targets) == 1 and isinstance(s.targets[0], ast.Name) \
          and self.idx is not None and self.idx in names_loaded(s.value):
        flags.append((s.targets[0].id, s))
    if len(flags) != 1:
      raise AnalysisError("%s: the per-row `required` flag was not found" % STEP)
    self.flag, self.flag_stmt = flags[0]
    # the done set: <name> = self._recompute_done_map[node]
    self.done_vars = set()
    for s in stmts_in(fn.node.body, ast.Assign):
      if len(s.targets) == 1 and isinstance(s.targets[0], ast.Name) and \
          isinstance(s.value, ast.Subscript) and \
          endswith(fn.name(s.value.value), "_recompute_done_map") and \
          text(s.value.slice) == self.p_node:
        self.done_vars.add(s.targets[0].id)
    if not self.done_vars:
      raise AnalysisError("%s: done set (self._recompute_done_map[node]) not found" % STEP)
    # the evaluation: <v> = self._recompute_one_cell(...)
    self.evals = [c for c in calls_in(self.loop.body)
                  if endswith(fn.name(c), "self._recompute_one_cell")]
    if len(self.evals) != 1:
      raise AnalysisError("%s: expected one _recompute_one_cell call in the scan loop" % STEP)
    self.eval = self.evals[0]

  def eval_nodes(self, cfg):
    return {n.id for n in cfg.nodes if any(c is self.eval for c in calls_in(n.exprs))}

  def head(self, cfg):
    ids = nodes_for(cfg, self.loop)
    if len(ids) != 1:
      raise AnalysisError("%s: scan loop has %d CFG nodes" % (STEP, len(ids)))
    return next(iter(ids))

  def body_nodes(self, cfg):
    return nodes_of_stmts(cfg, self.loop.body)


def is_order_error_ctor(e, sc):
  """OrderError(<msg>, <node param>, <row var>)"""
  return isinstance(e, ast.Call) and dotted(e.func) == "OrderError" and len(e.args) == 3 and \
      text(e.args[1]) == sc.p_node and text(e.args[2]) == sc.row


# ------------------------------------------------------------------------------------------
def r1_funnel(run, w):
  R1 = run.rule("C06-R1", "dirty reads funnel into _recompute; inside an update loop it visits the "
                "node with allow_evaluation=False; that visit scans every required row and raises "
                "OrderError (cached first) for one that needs evaluation", floor=15)
  # (a) _use_node: every return before the _recompute call is one of the two accepted shortcuts
  un = w.fn("engine.Engine._use_node")
  ps = un.fi.params()
  cfg = un.cfg
  rec = [(n, c) for (n, c, nm) in un.calls() if nm == "self._recompute"]
  if len(rec) != 1:
    raise AnalysisError("_use_node: expected exactly one self._recompute call")
  rn, rc = rec[0]
  ok_args = len(rc.args) == 2 and text(rc.args[0]) == ps[1] and text(rc.args[1]) == ps[3]
  run.ob(R1, un.qualname, short(rc), "the node and rows being read are the ones brought up to date",
         ok_args, fi=un.fi, node=rc)
  for n in cfg.nodes:
    if n.kind != "return" or cfg.dominated_by(n.id, {rn.id}):
      continue
    chain = enclosing_chain(un.node, n.stmt)
    tests = [s.test for (s, fld) in chain if isinstance(s, ast.If) and fld == "body"]
    ok = len(chain) == 1 and len(tests) == 1 and _use_node_shortcut(tests[0], ps[1])
    run.ob(R1, un.qualname, "if %s: return" % (short(tests[0]) if tests else "?"),
           "a read skips recomputation only while peeking or when the node has no dirty rows",
           ok, fi=un.fi, node=n.stmt)
  ok = cfg.postdominated_by(cfg.entry.id, {rn.id} | {n.id for n in cfg.nodes if n.kind == "return"})
  run.ob(R1, un.qualname, "every path ends in a shortcut return or self._recompute(...)",
         "no path through _use_node reads a dirty node without recomputing it", ok, fi=un.fi)

  # (b) _recompute: in an update loop -> _recompute_step(allow_evaluation=False); else own loop
  fn = w.fn("engine.Engine._recompute")
  ps = fn.fi.params()
  cfg = fn.cfg
  flag = "self._in_update_loop"
  steps = [(n, c) for (n, c, nm) in fn.calls() if nm == "self._recompute_step"]
  loops = [(n, c) for (n, c, nm) in fn.calls() if nm == "self._update_loop"]
  if not steps or not loops:
    raise AnalysisError("_recompute: _recompute_step / _update_loop calls not found")
  good_steps = set()
  for (n, c) in steps:
    ae = kwarg(c, "allow_evaluation", 1)
    rr = kwarg(c, "require_rows", 2)
    ok = ae is not None and is_const(ae, False) and len(c.args) >= 1 and \
        text(c.args[0]) == ps[1] and rr is not None and text(rr) == ps[2]
    if ok:
      good_steps.add(n.id)
    run.ob(R1, fn.qualname, short(c), "a nested visit never evaluates: allow_evaluation=False, with "
           "the caller's node and required rows", ok, fi=fn.fi, node=c)
  fr = FactReach(cfg, {flag})
  seen = fr.run([(cfg.entry.id, {flag: True})], stop=good_steps)
  ok = cfg.exit.id not in seen and not ({n.id for (n, c) in loops} & set(seen))
  run.ob(R1, fn.qualname, "if self._in_update_loop: self._recompute_step(..., allow_evaluation=False)",
         "inside an update loop every nested read goes through the non-evaluating visit (and never "
         "starts a nested loop)", ok, fi=fn.fi,
         witness=None if ok else "a path with _in_update_loop true avoids the non-evaluating visit")
  seen = fr.run([(cfg.entry.id, {flag: False})], stop={n.id for (n, c) in loops})
  ok = cfg.exit.id not in seen and not ({n.id for (n, c) in steps} & set(seen))
  run.ob(R1, fn.qualname, "else: self._update_loop([WorkItem(node, row_ids, [])], ...)",
         "outside an update loop a dirty read starts a loop of its own", ok, fi=fn.fi)
  for (n, c) in loops:
    a = c.args[0] if c.args else None
    ok = isinstance(a, ast.List) and len(a.elts) == 1 and isinstance(a.elts[0], ast.Call) and \
        dotted(a.elts[0].func) == "WorkItem" and len(a.elts[0].args) == 3 and \
        text(a.elts[0].args[0]) == ps[1] and text(a.elts[0].args[1]) == ps[2]
    run.ob(R1, fn.qualname, short(c), "the on-demand loop is seeded with the node and rows being "
           "read", ok, fi=fn.fi, node=c)

  # (c) who may call _recompute_step, and with what
  for fi in w.repo.all_functions():
    f2 = w.fn_of(fi)
    for c in calls_in(fi.node.body):
      if isinstance(c.func, ast.Attribute) and c.func.attr == "_recompute_step":
        own = fi.qualname in (LOOP, "engine.Engine._recompute")
        ok = own
        if fi.qualname == LOOP:
          ok = kwarg(c, "allow_evaluation", 1) is None     # the scheduler's visit evaluates
        run.ob(R1, fi.qualname, short(c), "_recompute_step is entered only by the scheduler "
               "(evaluating) and by _recompute (non-evaluating)", ok, fi=fi, node=c,
               nontrivial=False)


def _use_node_shortcut(test, p_node):
  t = text(test)
  if t == "self._peeking":
    return True
  # self.recompute_map.get(node) is None
  if isinstance(test, ast.Compare) and len(test.ops) == 1 and isinstance(test.ops[0], ast.Is) and \
      is_const(test.comparators[0], None) and isinstance(test.left, ast.Call) and \
      endswith(dotted(test.left.func), "self.recompute_map.get") and \
      len(test.left.args) >= 1 and text(test.left.args[0]) == p_node and \
      (len(test.left.args) == 1 or is_const(test.left.args[1], None)):
    return True
  return False


# ------------------------------------------------------------------------------------------
def _classify_skip_atom(a, sc, fn):
  """'J' = the row needs no evaluation now; 'N' = recognised, not a justification;
  None = unknown shape."""
  if isinstance(a, ast.Name):
    return "N"
  if isinstance(a, ast.UnaryOp) and isinstance(a.op, ast.Not) and isinstance(a.operand, ast.Name):
    return "J" if a.operand.id == sc.flag else "N"
  if isinstance(a, ast.Compare) and len(a.ops) == 1 and isinstance(a.ops[0], (ast.In, ast.NotIn)) \
      and isinstance(a.left, ast.Name) and a.left.id == sc.row:
    neg = isinstance(a.ops[0], ast.NotIn)
    c = a.comparators[0]
    if isinstance(c, ast.Name) and c.id == sc.dirty_var:
      return "J" if neg else "N"          # not dirty (any more): already up to date
    if isinstance(c, ast.Name) and c.id in sc.done_vars:
      return "N" if neg else "J"          # already done in this round
    if isinstance(c, ast.Attribute) and c.attr == "row_ids" and fn.type_of(c.value) == T.TABLE:
      return "J" if neg else "N"          # the row no longer exists
    return None
  return None


def _justified(test, sc, fn):
  """True / False / None(unknown idiom) : does `test` being true justify skipping the row?"""
  if isinstance(test, ast.BoolOp):
    rs = [_justified(v, sc, fn) for v in test.values]
    if isinstance(test.op, ast.And):
      if any(r is True for r in rs):
        return True
      return None if any(r is None for r in rs) else False
    if any(r is None for r in rs):
      return None
    return all(rs)
  k = _classify_skip_atom(test, sc, fn)
  if k is None:
    return None
  return k == "J"


def r1_scan(run, w, sc):
  R1 = "C06-R1"
  fn = sc.fn
  cfg = fn.xcfg
  head = sc.head(cfg)
  body = sc.body_nodes(cfg)
  # (d) the scan is exhaustive: nothing breaks out of it
  brk = loop_breaks(sc.loop)
  run.ob(R1, fn.qualname, "no `break` leaves the scan over chain(%s, %s)" % (sc.req_var, sc.dirty_var),
         "every required row is examined: a later required row that is still dirty is not skipped "
         "because an earlier one was clean", not brk, fi=fn.fi,
         node=brk[0] if brk else sc.loop,
         witness=None if not brk else "break at line %d ends the scan early" % brk[0].lineno)
  # (e) skips: every `continue` is guarded by a reason the row needs no evaluation
  for s in stmts_in(sc.loop.body, ast.Continue):
    chain = _chain_in_loop(fn, sc.loop, s)
    if any(isinstance(x, (ast.For, ast.While)) for (x, fld) in chain):
      continue          # belongs to a loop nested in the scan
    tests = []
    for (x, fld) in chain:
      if isinstance(x, ast.If) and fld == "body":
        tests.append(x.test)
      elif isinstance(x, ast.If):
        raise AnalysisError("%s: `continue` in an else branch (unsupported shape)" % STEP)
    if not tests:
      ok = False
      desc = "unconditional continue"
    else:
      j = [_justified(t, sc, fn) for t in tests]
      if not any(r is True for r in j) and any(r is None for r in j):
        raise AnalysisError("%s: skip guard `%s` is not a recognised idiom"
                            % (STEP, " and ".join(text(t) for t in tests)))
      ok = any(r is True for r in j)
      desc = "if %s: continue" % " and ".join(short(t, 70) for t in tests)
    run.ob(R1, fn.qualname, desc, "a row is skipped only when it is clean, absent, already done or "
           "not required", ok, fi=fn.fi, node=s)
  # (f) path-sensitive: a required row never leaves the scan by `return`
  flag_nodes = nodes_for(cfg, sc.flag_stmt)
  starts = set()
  for f in flag_nodes:
    starts |= cfg.normal_succ(f)
  fr = FactReach(cfg, {sc.flag, "allow_evaluation"},
                 noreturn=lambda n: never_returns(w, fn, n))
  seen = fr.run([(s, {sc.flag: True}) for s in starts], stop={head})
  rets = [n for n in seen if cfg.nodes[n].kind == "return" and n in body]
  run.ob(R1, fn.qualname, "no `return` is reachable while %s is true" % sc.flag,
         "the scan is abandoned only on rows nobody asked for", not rets, fi=fn.fi,
         node=cfg.nodes[rets[0]].stmt if rets else sc.loop,
         witness=None if not rets else "return at line %d reachable for a required row"
         % cfg.nodes[rets[0]].lineno)
  # (g) required + not allowed to evaluate => OrderError for this cell, nothing else
  seen = fr.run([(s, {sc.flag: True, "allow_evaluation": False}) for s in starts], stop={head})
  if fr.noreturn_seen:
    raise AnalysisError("%s: the OrderError is raised by a helper (`%s`); the protocol can no "
                        "longer be followed here" % (STEP, short(cfg.nodes[min(fr.noreturn_seen)].stmt)))
  evals = sc.eval_nodes(cfg)
  back = {p for p in cfg.pred[head] if p in seen and p in body and cfg.nodes[p].kind != "continue"
          and (p, head) not in cfg.exc_edges}
  raises = [n for n in seen if cfg.nodes[n].kind == "raise_stmt" and n in body]
  ok = not (set(seen) & evals) and not back and bool(raises) and \
      not [n for n in seen if cfg.nodes[n].kind == "return" and n in body]
  wit = None
  if set(seen) & evals:
    wit = "the cell is evaluated although allow_evaluation is false"
  elif back:
    wit = "the loop moves on past a required row that needs evaluation (line %d)" \
        % cfg.nodes[sorted(back)[0]].lineno
  elif not raises:
    wit = "no raise reachable"
  run.ob(R1, fn.qualname, "required and not allow_evaluation => raise OrderError",
         "a required row that needs evaluation ends the non-evaluating visit with an OrderError "
         "(never a silent return, never moving on)", ok, witness=wit, fi=fn.fi)
  for n in raises:
    ex = cfg.nodes[n].stmt.exc
    val = ex
    if isinstance(ex, ast.Name):
      ds = E.local_defs(fn.node, ex.id)
      val = ds[0] if len(ds) == 1 else None
    run.ob(R1, fn.qualname, "raise %s" % short(val if val is not None else ex),
           "the OrderError names this node and this row as the dependency",
           val is not None and is_order_error_ctor(val, sc), fi=fn.fi, node=cfg.nodes[n].stmt)
    # (h) cached first: the raise is dominated by `if not self._cell_required_error: <cache it>`
    guards = []
    for g in cfg.nodes:
      if g.kind == "if" and text(g.stmt.test) == "not self._cell_required_error" and \
          not g.stmt.orelse:
        asg = [s for s in g.stmt.body if isinstance(s, ast.Assign) and
               text(s.targets[0]) == "self._cell_required_error" and
               is_order_error_ctor(s.value, sc)]
        if asg and len(g.stmt.body) == len(asg):
          guards.append(g.id)
    ok = bool(guards) and cfg.dominated_by(n, guards) and \
        all(n in cfg.reach_after({g}, removed={head}) for g in guards)
    wit = None if ok else cfg.describe_path(cfg.path(cfg.entry.id, {n}, removed=guards))
    run.ob(R1, fn.qualname, "if not self._cell_required_error: self._cell_required_error = "
           "OrderError(...) before the raise",
           "the error is cached before it is thrown, so a formula that swallows the exception is "
           "still re-ordered", ok, witness=wit, fi=fn.fi, node=cfg.nodes[n].stmt)


def _chain_in_loop(fn, loop, stmt):
  """Compound statements between `loop` (exclusive) and `stmt`, outermost first."""
  chain = enclosing_chain(fn.node, stmt)
  for i, (x, fld) in enumerate(chain):
    if x is loop:
      return chain[i + 1:]
  raise AnalysisError("statement is not inside the scan loop")


# ------------------------------------------------------------------------------------------
def r2_one_cell(run, w):
  R2 = run.rule("C06-R2", "_recompute_one_cell: after the user code returns, the cached order error "
                "is checked before the result is returned; in the error branch the order error "
                "wins over the user error and is reset when raised", floor=8)
  fn = w.fn(ONE)
  cfg = fn.xcfg
  methods = fn.nodes_calling(lambda c, nm, f: isinstance(c.func, ast.Attribute) and
                             c.func.attr == "method", cfg)
  if not methods:
    raise AnalysisError("%s: user-code call (col.method) not found" % ONE)
  tries = [s for s in stmts_in(fn.node.body, ast.Try)
           if any(cfg.nodes[m].stmt in [x for b in s.body for x in ast.walk(b)] for m in methods)]
  if len(tries) != 1:
    raise AnalysisError("%s: user-code call is not inside exactly one try" % ONE)
  tr = tries[0]
  body_nodes = nodes_of_stmts(cfg, tr.body)
  rets = {n for n in body_nodes if cfg.nodes[n].kind == "return"}
  if not rets:
    raise AnalysisError("%s: no return of the result in the try body" % ONE)
  checks = set()
  for n in cfg.nodes:
    if n.id in body_nodes and n.kind == "if" and text(n.stmt.test) == "self._cell_required_error" \
        and n.stmt.body and isinstance(n.stmt.body[0], ast.Raise) and \
        n.stmt.body[0].exc is not None and text(n.stmt.body[0].exc) == "self._cell_required_error":
      checks.add(n.id)
  for m in sorted(methods):
    ok = bool(checks) and cfg.postdominated_by(m, checks, exits=rets, completed=True)
    wit = None if ok else cfg.describe_path(cfg.path(m, rets, removed=checks, after=True,
                                                     completed=True))
    run.ob(R2, fn.qualname, "%s ... if self._cell_required_error: raise ... return result"
           % short(cfg.nodes[m].stmt, 50),
           "a formula that swallowed the OrderError (and went on with a stale value) still has its "
           "cell re-ordered instead of its result stored", ok, witness=wit, fi=fn.fi,
           node=cfg.nodes[m].stmt)
  # the error branch
  bare = [h for h in tr.handlers if h.type is None]
  if len(bare) != 1:
    raise AnalysisError("%s: bare except around the user code not found" % ONE)
  h = bare[0]
  hn = [n.id for n in cfg.nodes if n.kind == "handler" and n.stmt is h]
  hbody = nodes_of_stmts(cfg, h.body)
  reads = [s for s in h.body if isinstance(s, ast.Assign) and len(s.targets) == 1 and
           isinstance(s.targets[0], ast.Name) and text(s.value) == "self._cell_required_error"]
  if len(reads) != 1:
    raise AnalysisError("%s: error branch does not read self._cell_required_error into a local" % ONE)
  var = reads[0].targets[0].id
  read_nodes = nodes_for(cfg, reads[0])
  hrets = {n for n in hbody if cfg.nodes[n].kind == "return"}
  fr = FactReach(cfg, {var})
  starts = set()
  for r in read_nodes:
    starts |= cfg.normal_succ(r)
  seen = fr.run([(s, {var: True}) for s in starts])
  bad = sorted(set(seen) & hrets)
  raised = [n for n in seen if n in hbody and cfg.nodes[n].kind == "raise_stmt" and
            cfg.nodes[n].stmt.exc is not None and text(cfg.nodes[n].stmt.exc) == var]
  ok = all(cfg.dominated_by(r, set(hn)) for r in read_nodes) and not bad and bool(raised) and \
      cfg.exit.id not in seen
  run.ob(R2, fn.qualname, "except: %s = self._cell_required_error ... if %s: raise %s" % (var, var, var),
         "when the cell met a not-yet-evaluated dependency, the order error is re-raised; the "
         "user-level error (often caused by the stale read) is never stored instead", ok,
         witness=None if ok else ("error value returned at line %d with the order error pending"
                                  % cfg.nodes[bad[0]].lineno if bad else "order error not re-raised"),
         fi=fn.fi, node=h)
  for n in raised:
    resets = {x.id for x in cfg.nodes if x.id in hbody and x.kind == "stmt" and
              isinstance(x.stmt, ast.Assign) and
              text(x.stmt.targets[0]) == "self._cell_required_error" and
              is_const(x.stmt.value, None)}
    ok = bool(resets) and not _reach_avoiding(cfg, hn, n, resets)
    run.ob(R2, fn.qualname, "self._cell_required_error = None before raise %s" % var,
           "the cached error is consumed when raised, so the next cell evaluated is not "
           "re-ordered for an error that is not its own", ok, fi=fn.fi, node=cfg.nodes[n].stmt)
  # the cache is written only by the protocol
  owners = {STEP: "caches the OrderError", ONE: "consumes it",
            "engine.Engine._requesting": "RequestingError uses the same channel",
            "engine.Engine._pre_update": "frame reset", "engine.Engine.__init__": "initial value"}
  for fi in w.repo.all_functions():
    for x in walk_fn(fi):
      if isinstance(x, ast.Attribute) and x.attr == "_cell_required_error" and \
          isinstance(x.ctx, (ast.Store, ast.Del)):
        run.ob(R2, fi.qualname, "write of _cell_required_error", "the pending-order-error channel "
               "is written only by the protocol's own functions", fi.qualname in owners, fi=fi,
               node=x, nontrivial=False)


def _reach_avoiding(cfg, starts, target, removed):
  """Is `target` reachable from `starts` without passing a node of `removed`?"""
  return target in cfg.reach(set(starts), removed=set(removed))


def walk_fn(fi):
  for s in fi.node.body:
    for n in walk_no_nested(s, into_lambda=True):
      yield n


# ------------------------------------------------------------------------------------------
def r3_reorder(run, w, sc):
  R3 = run.rule("C06-R3", "_update_loop: on OrderError the interrupted item is re-pushed before "
                "the dependency on a LIFO stack; the error's fields mean what the loop reads",
                floor=8)
  fn = w.fn(LOOP)
  cfg = fn.xcfg
  p_items = fn.fi.params()[1]
  # pop site: <node>, <rows>, <locks> = work_items.pop()
  pops = [n for n in cfg.nodes if n.kind == "stmt" and isinstance(n.stmt, ast.Assign) and
          isinstance(n.stmt.value, ast.Call) and isinstance(n.stmt.value.func, ast.Attribute) and
          n.stmt.value.func.attr in ("pop", "popleft") and
          text(n.stmt.value.func.value) == p_items]
  if len(pops) != 1 or not isinstance(pops[0].stmt.targets[0], ast.Tuple) or \
      len(pops[0].stmt.targets[0].elts) != 3:
    raise AnalysisError("%s: `node, row_ids, locks = work_items.pop()` not found" % LOOP)
  pop = pops[0]
  v_node, v_rows, v_locks = [text(e) for e in pop.stmt.targets[0].elts]
  pc = pop.stmt.value
  run.ob(R3, fn.qualname, short(pop.stmt), "work items are taken from the end of the list (LIFO)",
         pc.func.attr == "pop" and not pc.args and not pc.keywords, fi=fn.fi, node=pop.stmt)
  steps = [(n, c) for (n, c, nm) in fn.calls(cfg) if nm == "self._recompute_step"]
  if len(steps) != 1:
    raise AnalysisError("%s: expected one _recompute_step call" % LOOP)
  sn, scall = steps[0]
  rr = kwarg(scall, "require_rows", 2)
  run.ob(R3, fn.qualname, short(scall), "the popped node is visited with the popped rows as the "
         "required rows", len(scall.args) >= 1 and text(scall.args[0]) == v_node and
         rr is not None and text(rr) == v_rows, fi=fn.fi, node=scall)
  tries = [s for s in stmts_in(fn.node.body, ast.Try) if any(sn.stmt is x for x in s.body)]
  if len(tries) != 1:
    raise AnalysisError("%s: _recompute_step call is not directly inside one try" % LOOP)
  hs = [h for h in tries[0].handlers if h.type is not None and dotted(h.type) == "OrderError"
        and h.name]
  if len(hs) != 1:
    raise AnalysisError("%s: `except OrderError as e` handler not found" % LOOP)
  h = hs[0]
  ev = h.name
  hn = {n.id for n in cfg.nodes if n.kind == "handler" and n.stmt is h}
  hbody = nodes_of_stmts(cfg, h.body)
  pushes = []
  for (n, c, nm) in fn.calls(cfg):
    if n.id in hbody and isinstance(c.func, ast.Attribute) and text(c.func.value) == p_items and \
        c.func.attr in ("append", "insert", "appendleft", "extend"):
      pushes.append((n, c))
  cur = [(n, c) for (n, c) in pushes if c.func.attr == "append" and len(c.args) == 1 and
         isinstance(c.args[0], ast.Call) and dotted(c.args[0].func) == "WorkItem" and
         len(c.args[0].args) == 3 and text(c.args[0].args[0]) == v_node]
  dep = [(n, c) for (n, c) in pushes if c.func.attr == "append" and len(c.args) == 1 and
         isinstance(c.args[0], ast.Call) and dotted(c.args[0].func) == "WorkItem" and
         len(c.args[0].args) == 3 and text(c.args[0].args[0]) == "%s.node" % ev]
  ok_shape = len(pushes) == 2 and len(cur) == 1 and len(dep) == 1
  run.ob(R3, fn.qualname, "handler pushes exactly: the interrupted item and the dependency's item",
         "both pushes use append (the end the loop pops from)", ok_shape, fi=fn.fi, node=h)
  if ok_shape:
    (cn, cc), (dn, dc) = cur[0], dep[0]
    wi = cc.args[0]
    run.ob(R3, fn.qualname, short(cc), "the interrupted item is re-pushed unchanged (same rows, "
           "same locks)", text(wi.args[1]) == v_rows and text(wi.args[2]) == v_locks,
           fi=fn.fi, node=cc)
    ok = cfg.dominated_by(dn.id, {cn.id}) and cn.id not in cfg.reach_after({dn.id}, removed=hn | {sn.id})
    run.ob(R3, fn.qualname, "re-push of the interrupted item precedes the push of the dependency",
           "LIFO: the dependency is evaluated before the cell that needs it is retried", ok,
           fi=fn.fi, node=dc,
           witness=None if ok else "dependency pushed first: the interrupted cell is retried before "
           "its dependency was evaluated")
    di = dc.args[0]
    ok = isinstance(di.args[1], ast.List) and len(di.args[1].elts) == 1 and \
        text(di.args[1].elts[0]) == "%s.row_id" % ev
    run.ob(R3, fn.qualname, short(dc), "the dependency's item requires exactly the cell that was "
           "missing", ok, fi=fn.fi, node=dc)
    # every handler path pushes both (normal completion of the handler)
    exits = {m for m in cfg.reach_after(hn) if m not in hbody and m not in hn
             and m != cfg.raise_exit.id}
    ok = not (cfg.reach(set(hn), removed={dn.id}) & exits)
    run.ob(R3, fn.qualname, "every normal path through the handler pushes the dependency",
           "an OrderError is never swallowed without scheduling what it asked for", ok, fi=fn.fi,
           node=h)
  # the error's fields: OrderError.__init__ stores (node, row_id) of the dependency
  init = w.fn("engine.OrderError.__init__")
  ips = init.fi.params()
  stored = {}
  for s in stmts_in(init.node.body, ast.Assign):
    t = s.targets[0]
    if isinstance(t, ast.Attribute) and isinstance(t.value, ast.Name) and t.value.id == ips[0]:
      stored[t.attr] = text(s.value)
  ok = len(ips) == 4 and stored.get("node") == ips[2] and stored.get("row_id") == ips[3]
  run.ob(R3, init.qualname, "self.node, self.row_id = <2nd>, <3rd> constructor argument",
         "the fields the scheduler reads as the dependency are the cell named by the raiser", ok,
         fi=init.fi)
  # _recompute_step's own handler names the requiring cell before re-raising
  st = sc.fn
  scfg = st.xcfg
  for s in stmts_in(sc.loop.body, ast.Try):
    for hh in s.handlers:
      if hh.type is not None and dotted(hh.type) == "OrderError" and hh.name:
        e2 = hh.name
        hb = nodes_of_stmts(scfg, hh.body)
        hnn = {n.id for n in scfg.nodes if n.kind == "handler" and n.stmt is hh}
        rs = [n for n in hb if scfg.nodes[n].kind == "raise_stmt"]
        if not rs:
          raise AnalysisError("%s: OrderError handler does not re-raise" % STEP)
        def setter(attr, val):
          out = set()
          for x in scfg.nodes:
            if x.id in hb and x.kind == "stmt":
              if isinstance(x.stmt, ast.Assign) and text(x.stmt.targets[0]) == "%s.%s" % (e2, attr) \
                  and text(x.stmt.value) == val:
                out.add(x.id)
              for c in calls_in(x.exprs):
                if text(c.func) == "%s.set_requirer" % e2 and len(c.args) == 2 and \
                    text(c.args[0 if attr == "requiring_node" else 1]) == val:
                  out.add(x.id)
          return out
        a = setter("requiring_node", sc.p_node)
        b = setter("requiring_row_id", sc.row)
        for r in rs:
          ok = bool(a) and bool(b) and not _reach_avoiding(scfg, hnn, r, a) and \
              not _reach_avoiding(scfg, hnn, r, b)
          run.ob(R3, st.qualname, "except OrderError as %s: %s.requiring_node/row_id = node, row; raise"
                 % (e2, e2), "the re-raised error tells the scheduler which cell to retry (and "
                 "lock) after the dependency", ok, fi=st.fi, node=scfg.nodes[r].stmt)
  # the loop's lock / retry use the requiring fields, the push uses the dependency fields
  asserts = [n for n in cfg.nodes if n.id in hbody and n.kind == "assert"]
  run.note("C06-R3: handler asserts present: %d (not required by the rule)" % len(asserts))


# ------------------------------------------------------------------------------------------
def r4_lookups_first(run, w):
  R4 = run.rule("C06-R4", "_make_sorted_work_items schedules #lookup nodes before all others",
                floor=4)
  fn = w.fn("engine.Engine._make_sorted_work_items")
  p = fn.fi.params()[1]
  sorts = [c for c in calls_in(fn.node.body) if dotted(c.func) == "sorted"]
  if len(sorts) != 1:
    raise AnalysisError("_make_sorted_work_items: expected one sorted(...) call")
  s = sorts[0]
  key = kwarg(s, "key")
  rev = kwarg(s, "reverse")
  if not isinstance(key, ast.Lambda) or len(key.args.args) != 1:
    raise AnalysisError("_make_sorted_work_items: sort key is not a one-argument lambda")
  kv = key.args.args[0].arg
  first = key.body.elts[0] if isinstance(key.body, ast.Tuple) and key.body.elts else key.body
  # first component: [not] <n>.col_id.startswith('#lookup')
  neg = False
  e = first
  if isinstance(e, ast.UnaryOp) and isinstance(e.op, ast.Not):
    neg, e = True, e.operand
  is_lookup_test = isinstance(e, ast.Call) and isinstance(e.func, ast.Attribute) and \
      e.func.attr == "startswith" and text(e.func.value) == "%s.col_id" % kv and \
      len(e.args) == 1 and isinstance(e.args[0], ast.Constant) and e.args[0].value == "#lookup"
  if not is_lookup_test:
    raise AnalysisError("_make_sorted_work_items: first key component is not a #lookup test")
  if rev is not None and not isinstance(rev, ast.Constant):
    raise AnalysisError("_make_sorted_work_items: reverse= is not a constant")
  reverse = bool(rev.value) if rev is not None else False
  # Items are popped from the END of the returned list. Ascending sort puts False before True.
  # lookups carry key `not neg` ... position of lookups in the list:
  lookup_key = (not True) if neg else True          # key value of a lookup node
  lookups_last_in_list = (lookup_key is True) != reverse   # ascending: True last; reversed: False last
  # the returned list preserves the sorted order
  rets = [x for x in stmts_in(fn.node.body, ast.Return)]
  built_in_order = False
  consumed_from_end = True
  for r in rets:
    v = r.value
    if isinstance(v, ast.ListComp) and len(v.generators) == 1 and not v.generators[0].ifs:
      it = v.generators[0].iter
      src = it
      if isinstance(it, ast.Name):
        ds = E.local_defs(fn.node, it.id)
        src = ds[-1] if ds else None
      built_in_order = src is s
  run.ob(R4, fn.qualname, short(s, 100), "with the scheduler popping from the end of the list, "
         "#lookup nodes come out first", built_in_order and lookups_last_in_list, fi=fn.fi, node=s,
         witness=None if lookups_last_in_list else "lookup nodes sort to the front of the list, "
         "which the LIFO scheduler reaches last")
  srt_in = s.args[0] if s.args else None
  run.ob(R4, fn.qualname, "sorted(%s, ...)" % (text(srt_in) if srt_in is not None else "?"),
         "every node handed in is scheduled (no filtering)",
         isinstance(srt_in, ast.Name) and srt_in.id == p, fi=fn.fi, node=s, nontrivial=False)
  # both producers of the initial order go through this function
  for q in ("engine.Engine._bring_all_up_to_date", LOOP):
    f2 = w.fn(q)
    for (n, c, nm) in f2.calls():
      if nm == "self._update_loop" and c.args:
        a = c.args[0]
        ok = isinstance(a, ast.Name) and any(
          isinstance(d, ast.Call) and f2.name(d) == "self._make_sorted_work_items"
          for d in E.local_defs(f2.node, a.id))
        run.ob(R4, q, short(c), "the full-recalculation loop starts from the lookups-first order",
               ok, fi=f2.fi, node=c)
    if q == LOOP:
      refill = [x for x in stmts_in(f2.node.body, ast.Assign)
                if text(x.targets[0]) == f2.fi.params()[1]]
      for x in refill:
        ok = isinstance(x.value, ast.Call) and f2.name(x.value) == "self._make_sorted_work_items"
        run.ob(R4, q, short(x), "when the stack runs dry it is refilled in the lookups-first order",
               ok, fi=f2.fi, node=x)


# ------------------------------------------------------------------------------------------
def r5_done_after_store(run, w, sc):
  R5 = run.rule("C06-R5", "a cell enters the done set only after its evaluation completed normally "
                "and its value was stored", floor=4)
  fn = sc.fn
  cfg = fn.xcfg
  head = sc.head(cfg)
  body = sc.body_nodes(cfg)
  evals = sc.eval_nodes(cfg)
  adds = set()
  for (n, c, nm) in fn.calls(cfg):
    if n.id in body and isinstance(c.func, ast.Attribute) and c.func.attr == "add" and \
        isinstance(c.func.value, ast.Name) and c.func.value.id in sc.done_vars:
      adds.add(n.id)
  if not adds:
    raise AnalysisError("%s: no <done set>.add(row) in the scan loop" % STEP)
  sets = {n.id for (n, c, nm) in fn.calls(cfg) if n.id in body and E.is_column_mutation(c, nm, fn)}
  if not sets:
    raise AnalysisError("%s: column write not found in the scan loop" % STEP)
  for a in sorted(adds):
    c = [c for c in calls_in(cfg.nodes[a].exprs) if isinstance(c.func, ast.Attribute) and
         c.func.attr == "add"][0]
    run.ob(R5, fn.qualname, short(c), "the row marked done is the row just evaluated",
           len(c.args) == 1 and text(c.args[0]) == sc.row, fi=fn.fi, node=c, nontrivial=False)
    # completed evaluation dominates the marking (within the iteration)
    ok = cfg.dominated_by(a, evals) and \
        a in cfg.reach_after(evals, removed={head}, completed=True)
    run.ob(R5, fn.qualname, "%s after %s" % (short(c), short(sc.eval, 40)),
           "only an evaluated cell is marked done", ok, fi=fn.fi, node=c)
    # not reachable from an aborted evaluation (OrderError handler) within the iteration
    ohs = set()
    for s in stmts_in(sc.loop.body, ast.Try):
      for hh in s.handlers:
        if hh.type is not None and dotted(hh.type) == "OrderError":
          ohs |= {n.id for n in cfg.nodes if n.kind == "handler" and n.stmt is hh}
    if not ohs:
      raise AnalysisError("%s: OrderError handler around the evaluation not found" % STEP)
    reach = cfg.reach(ohs, removed={head})
    ok = a not in reach and not (reach & sets)
    run.ob(R5, fn.qualname, "except OrderError: never reaches %s" % short(c),
           "a cell whose evaluation was interrupted by an OrderError is neither stored nor marked "
           "done", ok, fi=fn.fi, node=c,
           witness=None if ok else cfg.describe_path(cfg.path(sorted(ohs)[0], {a} | sets,
                                                              removed={head})))
    # the store precedes the marking
    ok = not (cfg.reach_after({a}, removed={head}) & sets)
    run.ob(R5, fn.qualname, "col.set(...) is not after %s" % short(c),
           "within one iteration the value is stored before the cell counts as done", ok,
           fi=fn.fi, node=c)


EN = "sandbox/grist/engine.py"
VARIANTS = [
  ("scan-break-on-clean-required-row", EN,
   """          # Nothing need be done for required rows that are already up to date.
          continue""",
   """          # Nothing need be done for required rows that are already up to date.
          break""", "C06-R1"),
  ("nested-visit-evaluates", EN,
   "      self._recompute_step(node, allow_evaluation=False, require_rows=row_ids)",
   "      self._recompute_step(node, require_rows=row_ids)", "C06-R1"),
  ("raise-only-when-not-cached", EN,
   """              self._cell_required_error = OrderError(msg, node, row_id)
            raise err""",
   """              self._cell_required_error = OrderError(msg, node, row_id)
              raise err""", "C06-R1"),
  ("order-error-not-cached", EN,
   """            if not self._cell_required_error:
              # Cache the exception in case user consumes it or modifies it in their formula.
              self._cell_required_error = OrderError(msg, node, row_id)
            raise err""",
   """            raise err""", "C06-R1"),
  ("skip-guard-polarity", EN,
   "        if row_id not in table.row_ids or row_id in exclude:",
   "        if row_id not in table.row_ids or row_id not in exclude:", "C06-R1"),
  ("use-node-skips-dirty", EN,
   "    if self.recompute_map.get(node) is None:\n      return\n",
   "    if self.recompute_map.get(node) is None or not row_ids:\n      return\n", "C06-R1"),
  ("required-row-returns", EN,
   """          if required:
            msg = 'Cell value not available yet'""",
   """          if required and row_id in require_rows:
            msg = 'Cell value not available yet'""", "C06-R1"),
  ("no-check-after-user-code", EN,
   """        if self._cell_required_error:
          raise self._cell_required_error  # pylint: disable=raising-bad-type
        self.formula_tracer(col, record)""",
   """        self.formula_tracer(col, record)""", "C06-R2"),
  ("user-error-wins", EN,
   """        if order_error:
          self._timing.mark("order_error")""",
   """        if order_error and col.is_formula():
          self._timing.mark("order_error")""", "C06-R2"),
  ("cached-error-not-reset", EN,
   """          self._timing.mark("order_error")
          self._cell_required_error = None
          raise order_error  # pylint: disable=raising-bad-type""",
   """          self._timing.mark("order_error")
          raise order_error  # pylint: disable=raising-bad-type""", "C06-R2"),
  ("dependency-pushed-first", EN,
   """          work_items.append(WorkItem(node, row_ids, locks))
          locks = []
          # Add a new work item for the cell we are following up, and lock
          # it to forbid circular dependencies
          lock = (node, e.requiring_row_id)
          work_items.append(WorkItem(e.node, [e.row_id], [lock]))""",
   """          lock = (node, e.requiring_row_id)
          work_items.append(WorkItem(e.node, [e.row_id], [lock]))
          work_items.append(WorkItem(node, row_ids, locks))
          locks = []""", "C06-R3"),
  ("fifo-pop", EN,
   "        node, row_ids, locks = work_items.pop()",
   "        node, row_ids, locks = work_items.pop(0)", "C06-R3"),
  ("requirer-not-recorded", EN,
   """          e.requiring_node = node
          e.requiring_row_id = row_id
          raise e""",
   """          e.requiring_node = node
          raise e""", "C06-R3"),
  ("lookups-last", EN,
   "    nodes = sorted(nodes, reverse=True, key=lambda n: (not n.col_id.startswith('#lookup'), n))",
   "    nodes = sorted(nodes, key=lambda n: (not n.col_id.startswith('#lookup'), n))", "C06-R4"),
  ("lookups-key-inverted", EN,
   "key=lambda n: (not n.col_id.startswith('#lookup'), n))",
   "key=lambda n: (n.col_id.startswith('#lookup'), n))", "C06-R4"),
  ("interrupted-cell-marked-done", EN,
   """            return
          # Keep track of why this cell was needed.
          e.requiring_node = node
          e.requiring_row_id = row_id
          raise e
""",
   """            pass
          else:
            # Keep track of why this cell was needed.
            e.requiring_node = node
            e.requiring_row_id = row_id
            raise e
""", "C06-R5"),
  ("done-before-store", EN,
   """        if save_value:
          # Convert the value, and if needed, set, and include into the returned action.""",
   """        exclude.add(row_id)
        if save_value:
          # Convert the value, and if needed, set, and include into the returned action.""", "C06-R5"),
]
