"""C22-R3: idempotence of do_convert(), decided by classes of results.

convert(convert(v)) == convert(v) for all v. A return that hands back the *unchanged argument*
is a fixpoint for free (the function is deterministic: the same input takes the same path). So
only *constructed* results matter: None, True/False, float(..), int(..), str(..), a tuple, a list,
a RecordList. For each constructed result class k of a type's do_convert() the rule feeds k back
through the same function -- a three-valued walk of its CFG in which isinstance tests, truthiness,
`is None` and membership in a literal tuple are evaluated on the class, refining "maybe empty"
into empty / non-empty where a branch decides it -- and looks at every return it can reach:

  * the unchanged argument, the same constant, or a constructor that is the identity on k
    (float on a number, int / int(float()) on a short int, str on a str, tuple(str(i) for i in v) on
    a tuple of strings, a list of per-element Id conversions on a list of ids, RecordList -> list of
    ids [equal under list ==])                                              -> fixpoint, fine;
  * None where k is a container known to be empty on that path (or the reverse)
                                                                             -> VIOLATION: a value
    exists (the empty tuple / list / RecordList) whose second conversion differs from the first;
  * anything else                                                            -> cannot decide
                                                                                (AnalysisError).
Only definite differences are reported; what the small theory cannot prove equal is not guessed.
"""
import ast
from ..index import AnalysisError, dotted
from ..astutil import text, short, walk_no_nested
from ..dataflow import DefUse

CONTAINERS = ("tuple", "list", "RecordList")
NUM = ("int", "float")


class K(object):
  """A class of constructed values: outer type tag, emptiness, element tag, constant."""
  def __init__(self, tag, empt=None, elem=None, const=None, short=False):
    self.tag, self.empt, self.elem, self.const, self.short = tag, empt, elem, const, short
  def key(self):
    return (self.tag, self.empt, self.elem, repr(self.const), self.short)
  def __repr__(self):
    s = self.tag
    if self.tag in CONTAINERS:
      s += "[%s]" % (self.elem or "?") + {"empty": " (empty)", "nonempty": " (non-empty)",
                                          "maybe": " (possibly empty)"}.get(self.empt, "")
    if self.const is not None:
      s += "=%r" % (self.const,)
    return s
  def with_empt(self, e):
    return K(self.tag, e, self.elem, self.const, self.short)


def _module_tuple(mod, name):
  v = mod.assigns.get(name)
  if isinstance(v, ast.Tuple):
    return [text(e) for e in v.elts]
  if isinstance(v, ast.Call) and text(v) == "type(None)":
    return ["NoneType"]
  return None


def _isinstance_names(mod, arg):
  """Type names an isinstance() second argument stands for."""
  if isinstance(arg, ast.Tuple):
    out = []
    for e in arg.elts:
      out += _isinstance_names(mod, e)
    return out
  t = text(arg)
  tup = _module_tuple(mod, t) if isinstance(arg, ast.Name) else None
  if tup is not None:
    out = []
    for x in tup:
      out += _isinstance_names(mod, ast.parse(x, mode="eval").body)
    return out
  return [t.split(".")[-1] if t.startswith(("objtypes.", "datetime.")) else t]


# exact python type of each tag, and the names an isinstance() test may use that it satisfies
SATISFIES = {
  "none": {"NoneType"},
  "bool": {"bool", "int"},
  "int": {"int"},
  "float": {"float"},
  "str": {"str"},
  "tuple": {"tuple"},
  "list": {"list"},
  "RecordList": {"RecordList", "list"},
}


class Idem(object):
  def __init__(self, run, rule, w, ci, fi):
    self.run, self.R, self.w, self.ci, self.fi = run, rule, w, ci, fi
    self.fn = w.fn_of(fi)
    self.mod = fi.module
    ps = fi.params()
    self.p = ps[-1]
    self.du = DefUse(self.fn)
    self.cfg = self.fn.cfg
    # the argument is "unchanged" at a node when no rebinding of it can reach the node
    self.rebinds = {d for d in self.du.defs.get(self.p, ())}

  # ---------------------------------------------------------------- result classes
  def unchanged_at(self, nid):
    if not self.rebinds:
      return True
    back = self.cfg.reach({nid}, forward=False)
    return not (back & self.rebinds)

  def classify(self, e, depth=3):
    """List of K for a constructed expression, or None when it is not understood."""
    if isinstance(e, ast.Constant):
      if e.value is None:
        return [K("none")]
      if isinstance(e.value, bool):
        return [K("bool", const=e.value)]
      if isinstance(e.value, int):
        return [K("int", const=e.value)]
      if isinstance(e.value, float):
        return [K("float")]
      if isinstance(e.value, str):
        return [K("str")]
      return None
    if isinstance(e, ast.IfExp):
      a, b = self.classify(e.body, depth), self.classify(e.orelse, depth)
      return None if a is None or b is None else a + b
    if isinstance(e, ast.BoolOp) and isinstance(e.op, ast.Or) and len(e.values) == 2:
      a, b = self.classify(e.values[0], depth), self.classify(e.values[1], depth)
      if a is None or b is None:
        return None
      out = []
      for k in a:
        if k.tag in CONTAINERS:
          if k.empt != "empty":
            out.append(k.with_empt("nonempty"))
          if k.empt != "nonempty":
            out += b
        elif k.tag == "none":
          out += b
        else:
          return None
      return out
    if isinstance(e, ast.BinOp) and isinstance(e.op, ast.Mod) and \
        isinstance(e.left, ast.Constant) and isinstance(e.left.value, str):
      return [K("str")]
    if isinstance(e, (ast.List, ast.ListComp)):
      elem = None
      if isinstance(e, ast.ListComp):
        elem = self._elem(e.elt)
      return [K("list", "maybe" if isinstance(e, ast.ListComp) or not e.elts else "nonempty", elem)]
    if isinstance(e, ast.Call):
      f = dotted(e.func) or ""
      tail = f.split(".")[-1]
      if f == "float":
        return [K("float")]
      if f == "int":
        return [K("int")]
      if f == "str" or tail == "decode":
        return [K("str")]
      if f == "bool":
        return [K("bool")]
      if f in ("tuple", "list") and len(e.args) == 1:
        elem = self._elem(e.args[0].elt) if isinstance(e.args[0], (ast.GeneratorExp, ast.ListComp)) \
            else None
        if elem is None and isinstance(e.args[0], ast.Call) and text(e.args[0].func).endswith(".keys"):
          elem = "id"      # OrderedDict((el, None) for el in ids).keys()
        return [K(f, "maybe", elem)]
      if tail == "RecordList":
        return [K("RecordList", "maybe", "id")]
      # helpers of the repository: the classes of their own returns
      if depth > 0:
        from ..callgraph import CallGraph
        cg = getattr(self.w, "_idem_cg", None) or CallGraph(self.w)
        self.w._idem_cg = cg
        tg = cg.resolve(self.fn, e)
        if tg and all(t.qualname.startswith("moment.") for t in tg):
          return [K("float")]       # timestamps: numbers (C22-R2 decides the outer tag)
      return None
    if isinstance(e, ast.Name) and depth > 0:
      vals = self.du.values_of(e.id)
      if vals:
        out = []
        for v in vals:
          c = self.classify(v, depth - 1)
          if c is None:
            return None
          out += c
        return out
    return None

  def _elem(self, elt):
    if isinstance(elt, ast.Call):
      f = dotted(elt.func) or ""
      if f == "str":
        return "str"
      if f.endswith(".do_convert") and f.split(".")[0] in ("Reference", "Id"):
        return "id"
    if isinstance(elt, ast.Attribute) and elt.attr in ("id", "_row_id"):
      return "id"
    return None

  # ---------------------------------------------------------------- three-valued tests on a class
  def atom(self, e, k):
    """(value, refinement-if-true, refinement-if-false); value True/False/None."""
    p = self.p
    if isinstance(e, ast.Name) and e.id == p:
      return self._truthy(k)
    if isinstance(e, ast.Call) and dotted(e.func) == "isinstance" and len(e.args) == 2 and \
        text(e.args[0]) == p:
      names = set(_isinstance_names(self.mod, e.args[1]))
      return (bool(SATISFIES[k.tag] & names), k, k)
    if isinstance(e, ast.Compare) and len(e.ops) == 1 and text(e.left) == p:
      op, c = e.ops[0], e.comparators[0]
      if isinstance(op, ast.Is) and isinstance(c, ast.Constant) and c.value is None:
        return (k.tag == "none", k, k)
      if isinstance(op, ast.In) and isinstance(c, (ast.Tuple, ast.List)) and \
          all(isinstance(x, ast.Constant) for x in c.elts):
        consts = [x.value for x in c.elts]
        if k.tag == "none":
          return (None in consts, k, k)
        if k.tag == "str":
          return (None if "" in consts else False, k, k)
        if k.tag in NUM or k.tag == "bool":
          nums = [x for x in consts if isinstance(x, (int, float)) and not isinstance(x, bool)]
          return (None if nums else False, k, k)
        return (False, k, k)         # a container never equals "" or None
    if isinstance(e, ast.Call) and dotted(e.func) == "all" and len(e.args) == 1 and \
        isinstance(e.args[0], (ast.GeneratorExp, ast.ListComp)) and \
        len(e.args[0].generators) == 1 and text(e.args[0].generators[0].iter) == p and \
        isinstance(e.args[0].generators[0].target, ast.Name) and k.tag in CONTAINERS:
      if k.empt == "empty":
        return (True, k, k)
      tv = e.args[0].generators[0].target.id
      elem_tag = {"id": "int", "str": "str"}.get(k.elem)
      if k.empt == "nonempty" and elem_tag is not None:
        conj = e.args[0].elt.values if (isinstance(e.args[0].elt, ast.BoolOp) and
                                        isinstance(e.args[0].elt.op, ast.And)) else [e.args[0].elt]
        for c in conj:
          if isinstance(c, ast.Call) and dotted(c.func) == "isinstance" and len(c.args) == 2 and \
              text(c.args[0]) == tv:
            if not (SATISFIES[elem_tag] & set(_isinstance_names(self.mod, c.args[1]))):
              return (False, k, k)
      return (None, k, k)
    if isinstance(e, ast.Call) and (dotted(e.func) or "").split(".")[-1] == "is_int_short" and \
        len(e.args) == 1 and self._is_int_of_arg(e.args[0]):
      return ((True if (k.tag == "int" and k.short) else None), k, k)
    return (None, k, k)

  def _norm(self, x):
    """Text of x with single-assignment locals inlined (the argument itself is kept)."""
    return text(self.du.inline(x, stop=(self.p,))).replace(" ", "")

  def _is_int_of_arg(self, x):
    """x is the argument itself or int(arg) / int(float(arg)), possibly through locals."""
    forms = (self.p, "int(%s)" % self.p, "int(float(%s))" % self.p)
    return self._norm(x) in forms

  def _truthy(self, k):
    if k.tag == "none":
      return (False, k, k)
    if k.tag == "bool" and k.const is not None:
      return (bool(k.const), k, k)
    if k.tag in CONTAINERS:
      if k.empt == "empty":
        return (False, k, k)
      if k.empt == "nonempty":
        return (True, k, k)
      return (None, k.with_empt("nonempty"), k.with_empt("empty"))
    if k.tag == "int":
      if k.const is not None:
        return (bool(k.const), k, k)
      if k.empt == "nonzero":
        return (True, k, k)
      # a falsy int is 0
      return (None, K("int", "nonzero", None, None, k.short), K("int", None, None, 0, True))
    return (None, k, k)

  def ev(self, e, k):
    """Evaluate a test; returns list of (truth value, refined class)."""
    if isinstance(e, ast.UnaryOp) and isinstance(e.op, ast.Not):
      return [((None if v is None else not v), kk) for (v, kk) in self.ev(e.operand, k)]
    if isinstance(e, ast.Compare) and len(e.ops) == 1 and isinstance(e.ops[0], (ast.NotIn, ast.IsNot)):
      pos = ast.Compare(left=e.left, ops=[ast.In() if isinstance(e.ops[0], ast.NotIn) else ast.Is()],
                        comparators=e.comparators)
      return [((None if v is None else not v), kk) for (v, kk) in self.ev(pos, k)]
    if isinstance(e, ast.BoolOp):
      # evaluate left to right, carrying refinements
      states = [(None, k, True)]   # (value so far, class, still undecided)
      outs = []
      cur = [k]
      is_and = isinstance(e.op, ast.And)
      pend = [(k, False)]          # (class, any_unknown)
      for sub in e.values:
        nxt = []
        for (kk, unk) in pend:
          for (v, k2) in self.ev(sub, kk):
            if v is None:
              # both outcomes possible: short-circuit one, continue the other
              outs.append((None, k2))
              nxt.append((k2, True))
            elif v == (not is_and):
              outs.append(((None if unk else v), k2))     # short-circuits with this value
            else:
              nxt.append((k2, unk))
        pend = nxt
      for (kk, unk) in pend:
        outs.append(((None if unk else is_and), kk))
      return outs
    v, kt, kf = self.atom(e, k)
    if v is None:
      return [(True, kt), (False, kf)] if (kt.key() != kf.key()) else [(None, k)]
    return [(v, kt if v else kf)]

  # ---------------------------------------------------------------- re-entry
  def reenter(self, k):
    """[(return node, class at that node)] reachable when the argument is of class k; raises
    AnalysisError when the argument is rebound on a path taken."""
    from ..guards import branch_successors
    cfg = self.cfg
    out = []
    seen = set()
    todo = [(cfg.entry.id, k)]
    raised = []
    while todo:
      nid, kk = todo.pop()
      if (nid, kk.key()) in seen:
        continue
      seen.add((nid, kk.key()))
      n = cfg.nodes[nid]
      if nid == cfg.raise_exit.id:
        raised.append(kk)
        continue
      if n.kind == "return":
        out.append((n, kk))
        continue
      if nid in self.rebinds:
        raise AnalysisError("%s: the argument is rebound on a path a converted %r takes (line %d)"
                            % (self.fi.qualname, kk, n.lineno))
      if n.kind == "if" and nid in cfg.if_true:
        t, f = branch_successors(cfg, nid)
        for (v, k2) in self.ev(n.stmt.test, kk):
          if v is not False:
            todo += [(s, k2) for s in t]
          if v is not True:
            todo += [(s, k2) for s in f]
        continue
      todo += [(s, kk) for s in cfg.succ[nid]]
    return out, raised

  def fixpoint(self, rn, k):
    """'same' | 'differs' | 'unknown' for the value returned at rn when the argument is of class k."""
    return self._fix_expr(rn, rn.stmt.value, k)

  def _resolve(self, rn, e):
    """A returned local that is not the argument stands for the value(s) assigned to it that
    reach the return."""
    if isinstance(e, ast.Name) and e.id != self.p:
      vals = self.du.reaching_values(rn.id, e.id)
      if vals and len(vals) == 1:
        return vals[0]
    return e

  def _fix_expr(self, rn, e, k):
    e = self._resolve(rn, e)
    if e is None:
      return "same" if k.tag == "none" else "unknown"
    if isinstance(e, ast.IfExp):
      vs = set()
      for (v, k2) in self.ev(e.test, k):
        if v is not False:
          vs.add(self._fix_expr(rn, e.body, k2))
        if v is not True:
          vs.add(self._fix_expr(rn, e.orelse, k2))
      return "same" if vs == {"same"} else ("differs" if "differs" in vs else "unknown")
    if isinstance(e, ast.Name) and e.id == self.p and self.unchanged_at(rn.id):
      return "same"
    if isinstance(e, ast.BoolOp) and isinstance(e.op, ast.Or) and len(e.values) == 2 and \
        isinstance(e.values[1], ast.Constant) and e.values[1].value is None:
      # `A or None`: when A is the identity on k, the result is k itself if k is truthy, else None
      va = self._fix_expr(rn, e.values[0], k)
      if va == "same":
        tv, _, _ = self._truthy(k)
        if tv is True:
          return "same"
        if tv is False:
          return "same" if k.tag == "none" else "differs"
      return "unknown" if va != "differs" else "differs"
    cls = self.classify(e)
    if cls is None:
      return "unknown"
    verdicts = set()
    for r in cls:
      verdicts.add(self._same(e, r, k))
    if verdicts == {"same"}:
      return "same"
    if "differs" in verdicts:
      return "differs"
    return "unknown"

  def _same(self, e, r, k):
    # constants
    if r.tag == "none":
      if k.tag == "none":
        return "same"
      if k.tag in CONTAINERS or k.tag in ("str",):
        return "differs" if (k.tag in CONTAINERS) else "unknown"
      return "unknown"
    if k.tag == "none":
      return "differs" if r.tag in CONTAINERS else "unknown"
    if r.tag == "bool" and r.const is not None:
      return "same" if (k.tag == "bool" and k.const == r.const) else "unknown"
    if r.tag == "int" and r.const is not None:
      return "same" if (k.tag == "int" and k.const == r.const) else "unknown"
    # constructors that are the identity on k
    src = self._ctor_arg(e)
    on_arg = src is not None and text(src) == self.p
    if r.tag == "float" and k.tag in NUM and on_arg:
      return "same"
    if r.tag == "int" and k.tag == "int" and self._norm(e) in ("int(%s)" % self.p,
                                                                "int(float(%s))" % self.p):
      return "same"
    if r.tag == "str" and k.tag == "str" and on_arg:
      return "same"
    if r.tag in ("tuple", "list") and k.tag in CONTAINERS and r.elem is not None and \
        r.elem == k.elem and self._maps_over_arg(e):
      # per-element conversion that is the identity on elements of that kind, over the argument;
      # emptiness is preserved, the outer types compare equal (list == RecordList) or are the same
      if r.tag == "tuple" and k.tag != "tuple":
        return "unknown"
      if r.tag == "list" and k.tag == "tuple":
        return "unknown"
      return "same"
    return "unknown"

  def _head(self, e):
    """Layout-independent name of what builds a result (for finding keys)."""
    if e is None:
      return "None"
    if isinstance(e, ast.BoolOp):
      return " or ".join(self._head(v) for v in e.values)
    if isinstance(e, ast.IfExp):
      return "%s | %s" % (self._head(e.body), self._head(e.orelse))
    if isinstance(e, ast.Call):
      return "%s(...)" % (dotted(e.func) or "call")
    if isinstance(e, ast.ListComp):
      return "[... for ... in %s]" % short(e.generators[0].iter, 30)
    if isinstance(e, ast.Name):
      vals = self.du.values_of(e.id)
      if vals and len(vals) == 1 and e.id != self.p:
        return self._head(vals[0])
    return short(e, 40)

  def _parts(self, e):
    if isinstance(e, ast.IfExp):
      return self._parts(e.body) + self._parts(e.orelse)
    return [e]

  def _ctor_arg(self, e):
    if isinstance(e, ast.Call) and len(e.args) == 1 and not e.keywords:
      return e.args[0]
    return None

  def _maps_over_arg(self, e):
    if isinstance(e, ast.BoolOp) and isinstance(e.op, ast.Or):
      e = e.values[0]
    comp = None
    if isinstance(e, ast.ListComp):
      comp = e
    elif isinstance(e, ast.Call) and e.args and isinstance(e.args[0], (ast.GeneratorExp, ast.ListComp)):
      comp = e.args[0]
    return comp is not None and len(comp.generators) == 1 and not comp.generators[0].ifs and \
        text(comp.generators[0].iter) == self.p

  # ---------------------------------------------------------------- the rule for one function
  def decide(self):
    cfg = self.cfg
    n_ob = 0
    for rn in [n for n in cfg.nodes if n.kind == "return"]:
      e = self._resolve(rn, rn.stmt.value)
      cls = []
      for part in self._parts(e):
        if part is None:
          cls.append(K("none"))
        elif isinstance(part, ast.Name) and part.id == self.p and self.unchanged_at(rn.id):
          continue                        # the unchanged argument: a fixpoint by determinism
        else:
          c = self.classify(part)
          if c is None:
            raise AnalysisError("%s: result %s is not of a class the idempotence rule understands"
                                % (self.fi.qualname, short(part)))
          cls += c
      # an int result returned only after is_int_short(result) held is a short int
      from ..guards import guarded_by
      def short_test(x):
        return isinstance(x, ast.Call) and (dotted(x.func) or "").split(".")[-1] == "is_int_short" \
            and len(x.args) == 1 and e is not None and \
            text(x.args[0]) in (text(e), text(rn.stmt.value))
      if any(k.tag == "int" for k in cls) and guarded_by(cfg, rn.id, short_test, True):
        cls = [K(k.tag, k.empt, k.elem, k.const, True) if k.tag == "int" else k for k in cls]
      seen = set()
      for k in cls:
        if k.key() in seen:
          continue
        seen.add(k.key())
        rets, raised = self.reenter(k)
        bad, unknown = [], []
        for (r2, k2) in rets:
          v = self.fixpoint(r2, k2)
          if v == "differs":
            bad.append("a converted %r converts again to `%s` (line %d)"
                       % (k2, short(r2.stmt.value), r2.lineno))
          elif v == "unknown":
            unknown.append("%r -> `%s` (line %d)" % (k2, short(r2.stmt.value), r2.lineno))
        # a raise on re-entry turns the value into alt-text: differs unless it is a str already
        for k2 in raised:
          if k2.tag != "str":
            unknown.append("%r -> raises" % (k2,))
        if unknown and not bad:
          raise AnalysisError("%s: cannot decide whether re-converting %s is the identity"
                              % (self.fi.qualname, "; ".join(sorted(set(unknown)))))
        self.run.ob(self.R, "%s (do_convert of %s)" % (self.ci.qualname, self.fi.qualname),
                    "result %s of class %r" % (self._head(e), k),
                    "converting this result again gives the same value", not bad,
                    witness="; ".join(sorted(set(bad))) or None, fi=self.fi, node=rn.stmt)
        n_ob += 1
    return n_ob


def r3_idempotence(run, w, types):
  R3 = run.rule("C22-R3", "re-converting any constructed result of do_convert() takes a path that "
                "returns an equal value (results that are the unchanged argument are fixpoints by "
                "determinism)", floor=12)
  done = set()
  for ci in types:
    fi = w.repo.find_method(ci, "do_convert")
    if fi is None or fi.qualname in done:
      continue
    done.add(fi.qualname)
    if fi.cls is not None and fi.cls.qualname.endswith("BaseColumnType"):
      continue                      # the abstract default: returns its argument
    Idem(run, R3, w, ci, fi).decide()


U = "sandbox/grist/usertypes.py"
# the code as it was before fix F17 (natural variants): each must be reported again
VARIANTS = [
  ("idem-choicelist-json-empty", U, "          return tuple(str(item) for item in json.loads(value)) or None",
   "          return tuple(str(item) for item in json.loads(value))", "C22-R3"),
  ("idem-choicelist-iterable-empty", U, "      return tuple(str(item) for item in value) or None",
   "      return tuple(str(item) for item in value)", "C22-R3"),
  ("idem-reflist-flatten-empty", U, "      return row_ids_unique_list or None",
   "      return row_ids_unique_list", "C22-R3"),
  ("idem-reflist-elements-empty", U, "    return [Reference.do_convert(val) for val in value] or None",
   "    return [Reference.do_convert(val) for val in value]", "C22-R3"),
]
