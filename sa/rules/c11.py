"""C11 Two-way references stay symmetric -- structural clauses.

Deviations from DESIGN.md section 4: R6 re-evaluates C05-R5 (exactness of the reference relation)
under this property, because every reverse value is read from that relation; and a fifth rule
(R5, container ownership) is added. Reading
reverse_references.get_reverse_adjustments showed that it edits the container it receives from
relation.get_affected_rows in place; symmetry after a *rejected* edit therefore also needs that
container to be the caller's own copy and never the relation's live index entry.

Reading the code: every rule function is evaluated through H.guarded_views -- on the source as
written and on behaviour-preserving normal forms of it (see _h_C.py / _h_C_norm.py) -- and slots
are filled by role (flow origins, guard atoms, return cases, conditions as boolean formulas),
not by statement shape or local names.
"""
import ast
import copy
from ..fn import World
from ..index import AnalysisError, dotted
from ..astutil import text, short, endswith, calls_in, walk_no_nested
from ..absdom import IntSet, cond_set, INF
from ..dataflow import MUTATING_METHODS
from .. import events as E
from . import _h_C as H

EXPLANATION = (
  "Decides the structural conditions two-way references need to stay symmetric: record actions "
  "with cell values reach the gateway only as descendants of Engine.convert_action_values (which "
  "runs prepare_new_values on every written column and returns the adjustments, all of which the "
  "two callers apply) or from the enumerated raw sources (R1); "
  "BaseReferenceColumn.prepare_new_values reads the stored values of the same rows, hands old and "
  "new values to get_reverse_adjustments and emits one update per registered reverse column, the "
  "registry being filled in __init__ and emptied in destroy under the same key (R2); every value "
  "written to a reverse column passes that column's _list_to_value, and ReferenceColumn's raises "
  "UniqueReferenceError (an Exception, so the bundle is rolled back) for exactly the lists with "
  "two or more targets, before any return (R3); a type change re-emits the reverse column from "
  "the new column object after the schema action, AddReverseColumn fills the new column after "
  "linking, and the rebuild covers every target row (R4); the containers "
  "get_reverse_adjustments mutates are its own -- locally built, or returned by "
  "ReferenceRelation.get_affected_rows, which in turn returns only the ALL_ROWS marker or a "
  "container built in the call and never stored (R5); that relation -- the source of every "
  "reverse value -- is updated from the stored values read before and after every write "
  "(R6 = C05-R5). Not decided: that the adjusted values are "
  "the symmetric ones (value level).")

BUILTIN_EXCEPTIONS = {"Exception", "ValueError", "TypeError", "KeyError", "LookupError",
                      "RuntimeError", "ArithmeticError", "AssertionError", "AttributeError",
                      "IndexError", "NotImplementedError"}


def check(run, repo, tier):
  V = H.guarded_views
  V(run, repo, r1_who_may_emit, "C11-R1")
  V(run, repo, r2_prepare)
  V(run, repo, r3_unique)
  V(run, repo, r4_rebuild)
  V(run, repo, r5_ownership)
  V(run, repo, r6_reference_index)
  H.finish_views(run, repo)


def r6_reference_index(run, w):
  # R6 = C05-R5: the reverse values are read from the column's own relation (see
  # get_reverse_adjustments / recalc_from_reverse_values), so symmetry needs that index exact.
  from . import c05
  c05.r5_reference_index(H.RuleAlias(run, {"C05-R5": "C11-R6"}), w)


# --------------------------------------------------------------------------------------- R1

def r1_who_may_emit(run, w, RID, with_adds=False, extras_rule=None):
  run.rule(RID, "record actions with values reach the gateway only through "
           "convert_action_values / enumerated raw sources; convert_action_values runs "
           "prepare_new_values for every written column and its adjustments are all applied",
           floor=18)
  errs = []
  for part in (lambda: H.who_may_emit(run, w, RID, "a write that skips prepare_new_values skips "
                                      "the reverse-column and position adjustments"),
               lambda: convert_calls_prepare(run, w, RID, with_adds),
               lambda: extras_applied(run, w, extras_rule or RID)):
    try:
      part()
    except AnalysisError as e:
      errs.append(e)        # the other parts still report what they see
  if errs:
    raise errs[0]


def _action_field(r, p_action, i, fields):
  """Root r is field i of the action parameter (by position or by field name)."""
  return r.kind == "param" and r.node == p_action and \
      r.path in ((("idx", i),), (("attr", fields[i]),))


def _same_object(flow, e1, n1, e2, n2):
  """Both expressions have one origin, and it is the same one."""
  def origins(e, n):
    out = {}
    for r in flow.roots(e, n):
      out[(id(r.node) if not isinstance(r.node, str) else r.node, r.path)] = r
    return out
  r1, r2 = origins(e1, n1), origins(e2, n2)
  return len(r1) == 1 and set(r1) == set(r2) and \
      not isinstance(next(iter(r1.values())).node, str)


def convert_calls_prepare(run, w, RID, with_adds):
  fn = w.fn("engine.Engine.convert_action_values")
  flow = H.Flow(fn)
  cfg = fn.cfg
  p_action = fn.fi.params()[1]
  fields = w.action_types().get("BulkUpdateRecord")
  if not fields or len(fields) != 3:
    raise AnalysisError("actions.BulkUpdateRecord: unexpected fields")
  rets = [n for n in cfg.nodes if n.kind == "return"]
  if len(rets) != 1:
    raise AnalysisError("convert_action_values: expected a single return")
  rn = rets[0]
  rv = H.resolve(flow, rn.stmt.value, rn.id)
  if not isinstance(rv, ast.Tuple) or len(rv.elts) != 2:
    raise AnalysisError("convert_action_values: expected `return (action, extras)`")
  r_action, r_extra = H.resolve(flow, rv.elts[0], rn.id), rv.elts[1]
  if not isinstance(r_action, ast.Call) or len(r_action.args) != 3:
    raise AnalysisError("convert_action_values: unrecognised return shape %s" % short(rn.stmt))
  r_nv = r_action.args[2]
  an = flow.node_of(r_action)
  ok = text(r_action.func) in ("type(%s)" % p_action, "%s.__class__" % p_action)
  for i in (0, 1):
    rs = flow.roots(r_action.args[i], an)
    ok = ok and bool(rs) and all(_action_field(r, p_action, i, fields) for r in rs)
  run.ob(RID, fn.qualname, short(rv), "the converted action has the type, table and row "
         "ids of the action passed in", ok, fi=fn.fi, node=rn.stmt)
  preps = [(n, c) for (n, c, nm) in fn.calls() if isinstance(c.func, ast.Attribute) and
           c.func.attr == "prepare_new_values"]
  if len(preps) < 2:
    raise AnalysisError("convert_action_values: prepare_new_values call sites not found")
  loops = {n.id: n for n in cfg.nodes if n.kind == "for"}
  seen_explicit = False
  for (n, c) in preps:
    loop = _innermost_loop(fn.node, c)
    if loop is None:
      raise AnalysisError("convert_action_values: prepare_new_values outside a column loop")
    lid = [i for i, ln in loops.items() if ln.stmt is loop][0]
    # the adjustments (element 1 of the result) are appended to the returned list in the same
    # iteration, on every path
    ext = set()
    def from_prepare(e, nid):
      rs = flow.roots(e, nid)
      return bool(rs) and all(r.kind == "call" and r.node is c and r.path == (("idx", 1),)
                              for r in rs)
    for (m, c2, nm2) in fn.calls():
      if isinstance(c2.func, ast.Attribute) and c2.func.attr == "extend" and len(c2.args) == 1 \
          and _same_object(flow, c2.func.value, m.id, r_extra, rn.id) and \
          from_prepare(c2.args[0], m.id):
        ext.add(m.id)
    for m in cfg.nodes:
      # `extras += adjustments` extends the same list in place
      if m.kind == "stmt" and isinstance(m.stmt, ast.AugAssign) and \
          isinstance(m.stmt.op, ast.Add) and isinstance(m.stmt.target, ast.Name) and \
          from_prepare(m.stmt.value, m.id):
        before = flow._roots_of_name(m.stmt.target.id, m.stmt.target, m.id, set(), 0)
        want = flow.roots(r_extra, rn.id)
        if before and all(any(x.node is y.node for y in want) for x in before):
          ext.add(m.id)
    ok = bool(ext) and cfg.postdominated_by(n.id, ext, exits={lid, cfg.exit.id})
    wit = None
    if ext and not ok:
      wit = cfg.describe_path(cfg.path(n.id, {lid, cfg.exit.id}, removed=ext, after=True))
    if not ext:
      # never added here: dropped (a violation), or handed to code this rule does not read?
      adj_uses = H.uses_of(fn, flow, lambda r: r.kind == "call" and r.node is c and
                           r.path[:1] == (("idx", 1),))
      via = H.handed_to_unknown(fn, flow, adj_uses)
      if via:
        raise AnalysisError("convert_action_values: cannot follow the adjustments of %s "
                            "through %s" % (short(c, 50), via))
    run.ob(RID, fn.qualname, short(c), "the adjustments returned by prepare_new_values are added "
           "to the returned extra actions in the same iteration on every path", ok, witness=wit,
           fi=fn.fi, node=c)
    # row ids handed to the column are the action's row ids
    rs = flow.roots(c.args[0], n.id) if c.args else []
    ok = bool(rs) and all(_action_field(r, p_action, 1, fields) for r in rs)
    if not ok and any(r.kind in ("call", "unknown", "global") for r in rs):
      raise AnalysisError("convert_action_values: cannot tell which rows %s receives"
                          % short(c, 60))
    run.ob(RID, fn.qualname, "%s(<row ids>)" % short(c.func), "prepare_new_values receives the "
           "row ids of the action", ok, fi=fn.fi, node=c)
    it_roots = flow.roots(loop.iter, lid)
    def recv_is_columns(r):
      if not isinstance(r.node.func, ast.Attribute):
        return False
      xs = flow.roots(r.node.func.value, r.nid)
      return bool(xs) and all(_action_field(x, p_action, 2, fields) for x in xs)
    explicit = bool(it_roots) and all(
      r.kind == "call" and endswith(dotted(r.node.func) or "", "items") and recv_is_columns(r)
      for r in it_roots)
    if explicit:
      seen_explicit = True
      g = H.guards_of(fn.node, _stmt_of(fn.node, c))
      run.ob(RID, fn.qualname, "for col_id, values in column_values.items(): prepare_new_values",
             "every column mentioned in the action is prepared, unconditionally", not g,
             witness="; ".join(short(t) for (t, _) in g) or None, fi=fn.fi, node=loop)
      # its new values replace the column's values in the converted action
      okv = False
      for m in cfg.nodes:
        s = m.stmt
        if m.kind == "stmt" and isinstance(s, ast.Assign) and \
            isinstance(s.targets[0], ast.Subscript) and \
            any(x is s for b in loop.body for x in ast.walk(b)) and \
            _same_object(flow, s.targets[0].value, m.id, r_nv, an):
          rs = flow.roots(s.value, m.id)
          okv = okv or (bool(rs) and all(r.kind == "call" and r.node is c and
                                         r.path == (("idx", 0),) for r in rs))
      if not okv:
        val_uses = H.uses_of(fn, flow, lambda r: r.kind == "call" and r.node is c and
                             r.path[:1] == (("idx", 0),))
        via = H.handed_to_unknown(fn, flow, val_uses)
        if via:
          raise AnalysisError("convert_action_values: cannot follow the prepared values of %s "
                              "through %s" % (short(c, 50), via))
      run.ob(RID, fn.qualname, "new_values[col_id] = <values returned by prepare_new_values>",
             "the converted action carries the prepared values", okv, fi=fn.fi, node=loop)
    elif with_adds:
      # the loop over all columns for added rows: skipped columns are the enumerated ones only
      g = H.guard_atoms(fn.node, _stmt_of(fn.node, c))
      ok = True
      for (t, pol) in g:
        if pol is True and isinstance(t, ast.Call) and dotted(t.func) == "isinstance" and \
            text(t.args[0]) == p_action:
          kinds = {dotted(e).split(".")[-1] for e in
                   (t.args[1].elts if isinstance(t.args[1], ast.Tuple) else [t.args[1]])}
          ok = ok and {"BulkAddRecord", "ReplaceTableData"} <= kinds
          continue
        tv = text(t)
        if pol is False and (isinstance(t, ast.Compare) and isinstance(t.ops[0], ast.In) or
                             tv.endswith(".is_formula()") or "is_virtual_column(" in tv):
          continue
        ok = False
      it_ok = endswith(fn.name(H.strip_passthrough(loop.iter)), "all_columns.items")
      run.ob(RID, fn.qualname, "for col_id, col_obj in table.all_columns.items(): "
             "prepare_new_values(defaults)", "when rows are added every stored column not "
             "mentioned (formula and virtual columns excepted) is prepared with its default, so "
             "position columns allocate distinct positions", ok and it_ok,
             witness="; ".join(short(t) for (t, _) in g), fi=fn.fi, node=loop)
  if not seen_explicit:
    raise AnalysisError("convert_action_values: loop over the action's own columns not found")


def _recv_is(flow, r, want):
  """The receiver of call root r (a method call) has the single origin `want`."""
  if not isinstance(r.node.func, ast.Attribute):
    return False
  rs = flow.roots(r.node.func.value, r.nid)
  return bool(rs) and all((x.kind, x.node if isinstance(x.node, str) else None, x.path) == want
                          for x in rs)


def _innermost_loop(fnode, target):
  best = None
  for s in walk_no_nested(fnode):
    if isinstance(s, ast.For) and any(x is target for b in s.body for x in ast.walk(b)):
      if best is None or any(x is s for x in ast.walk(best)):
        best = s
  return best


def _stmt_of(fnode, target):
  best = None
  for s in walk_no_nested(fnode):
    if isinstance(s, ast.stmt) and s is not fnode and any(x is target for x in ast.walk(s)):
      if best is None or any(x is s for x in ast.walk(best)):
        best = s
  if best is None:
    raise AnalysisError("statement of %s not found" % short(target))
  return best


def extras_applied(run, w, RID):
  for q in ("useractions.UserActions.doBulkAddOrReplace",
            "useractions.UserActions.doBulkUpdateRecord"):
    fn = w.fn(q)
    flow = H.Flow(fn)
    cfg = fn.cfg
    main = set()
    for (n, c, nm) in fn.calls():
      if E.is_strict_gateway_call(c, nm, fn) and len(c.args) == 1:
        rs = flow.roots(c.args[0], n.id)
        if any(r.kind == "call" and (H._is_convert(r.node, flow.call_name(r.node)) or
                                     endswith(flow.call_name(r.node), "trim_update_action"))
               for r in rs):
          main.add(n.id)
    if not main:
      raise AnalysisError("%s: emission of the converted action not found" % q)
    loops = set()
    for n in cfg.nodes:
      if n.kind != "for" or not isinstance(n.stmt.target, ast.Name):
        continue
      rs = flow.roots(n.stmt.iter, n.id)
      if not (rs and all(r.kind == "call" and H._is_convert(r.node, flow.call_name(r.node)) and
                         r.path == (("idx", 1),) for r in rs)):
        continue
      lv = n.stmt.target.id
      body_calls = [c for c in calls_in(n.stmt.body)
                    if endswith(fn.name(c), "_do_extra_doc_action") and len(c.args) == 1 and
                    isinstance(c.args[0], ast.Name) and c.args[0].id == lv]
      if body_calls and not [g for c in body_calls
                             for g in H.guards_of(fn.node, _stmt_of(fn.node, c))
                             if any(x is g[0] for x in ast.walk(n.stmt))]:
        loops.add(n.id)
    ok = bool(loops) and all(cfg.dominated_by(m, loops) for m in main) and \
        not (cfg.reach_after(main) & loops)
    wit = None
    if not loops:
      # not applied by a loop here: dropped (a violation), or handed to code we do not read /
      # applied in a form we do not recognise?
      def is_extra(r):
        return r.kind == "call" and H._is_convert(r.node, flow.call_name(r.node)) and \
            r.path[:1] == (("idx", 1),)
      ex_uses = H.uses_of(fn, flow, is_extra)
      via = H.handed_to_unknown(fn, flow, ex_uses, known=lambda call: endswith(
        fn.name(call), "_do_extra_doc_action", "_do_doc_action"))
      if via:
        raise AnalysisError("%s: cannot follow the adjustment actions through %s" % (q, via))
    if loops and not ok:
      for m in main:
        p = cfg.path(cfg.entry.id, {m}, removed=loops)
        if p:
          wit = cfg.describe_path(p)
    run.ob(RID, q, "for a in extra_actions: self._do_extra_doc_action(a)  ->  "
           "self._do_doc_action(action)", "every adjustment returned by convert_action_values is "
           "applied, each one unconditionally, on every path before the action it belongs to",
           ok, witness=wit, fi=fn.fi)


# --------------------------------------------------------------------------------------- R2

def _single(lst, what):
  if len(lst) != 1:
    raise AnalysisError("%s: expected exactly one, found %d" % (what, len(lst)))
  return lst[0]


def _xname(fn, e):
  """Dotted name of an expression with local aliases expanded, or its text."""
  return fn.name(e) or text(e)


def _parents(root):
  out = {}
  for n in ast.walk(root):
    for ch in ast.iter_child_nodes(n):
      out[id(ch)] = n
  return out


def _is_root_call(flow, expr, nid, call):
  """Every origin of expr is the result of `call`, taken whole."""
  try:
    rs = flow.roots(expr, nid)
  except AnalysisError:
    return False
  return bool(rs) and all(r.kind == "call" and r.node is call and not r.path for r in rs)


def r2_prepare(run, w):
  _set_ltv(w)
  R2 = run.rule("C11-R2", "BaseReferenceColumn.prepare_new_values: stored values of the same "
                "rows are the old values, one update per registered reverse column; registry "
                "add/remove pairing", floor=9)
  fn = w.fn("column.BaseReferenceColumn.prepare_new_values")
  flow = H.Flow(fn)
  ps = fn.fi.params()
  p_rows, p_vals = ps[1], ps[2]
  # registry lookup
  look = []
  for (n, c, nm) in fn.calls():
    parts = (nm or "").split(".")
    if len(parts) >= 3 and parts[-1] == "get" and parts[-2].startswith("_reverse_cols"):
      look.append((n, c, parts))
  (ln, lc, lparts) = _single(look, "prepare_new_values: reverse-column registry lookup")
  reg_attr = lparts[-2]
  init = w.fn("column.BaseReferenceColumn.__init__")
  dest = w.fn("column.BaseReferenceColumn.destroy")
  adds = [c for (n, c, nm) in init.calls() if H.calls_anchor(w, init, c, "column._multimap_add")]
  rems = [c for (n, c, nm) in dest.calls() if H.calls_anchor(w, dest, c, "column._multimap_remove")]
  add = _single(adds, "BaseReferenceColumn.__init__: _multimap_add")
  ma = w.fn("column._multimap_add")
  mr = w.fn("column._multimap_remove")
  pa = H._np(ma.fi)
  if len(pa) != 3 or len(H._np(mr.fi)) != 3:
    raise AnalysisError("_multimap_add/_multimap_remove: parameter list changed")
  ab = H.bind_args(add, ma.fi)
  a_map, a_key, a_val = [ab.get(x) for x in pa]
  ok = None not in (a_map, a_key, a_val) and \
      _xname(init, a_map) == "self._table." + reg_attr and _xname(init, a_val) == "self" and \
      ".".join(lparts[:-2]) == "self._target_table" and lc.args and \
      _xname(fn, lc.args[0]) == "self.node"
  # the registration key is the type's reverse source node
  key_ok = False
  if ok and H.is_self_attr(a_key):
    src = [s for s in walk_no_nested(init.node) if isinstance(s, ast.Assign) and
           text(s.targets[0]) == text(a_key)]
    key_ok = len(src) == 1 and isinstance(src[0].value, ast.Call) and \
        endswith(_xname(init, src[0].value.func), "type_obj.reverse_source_node")
  elif ok:
    v = H.resolve(H.Flow(init), a_key)
    key_ok = isinstance(v, ast.Call) and endswith(_xname(init, v.func),
                                                  "type_obj.reverse_source_node")
  run.ob(R2, fn.qualname, "self._target_table.%s.get(self.node)  <->  _multimap_add(self._table.%s, "
         "<reverse source node>, self)" % (reg_attr, reg_attr),
         "the column looks for its reverse columns in the target table's registry under its own "
         "node; a reverse column registers itself in its own table under the node it reverses",
         ok and key_ok, fi=fn.fi, node=lc)
  ok = len(rems) == 1
  if ok:
    rb = H.bind_args(rems[0], mr.fi)
    ok = [_xname(dest, rb.get(x)) if rb.get(x) is not None else None for x in H._np(mr.fi)] == \
        [_xname(init, x) for x in (a_map, a_key, a_val)]
  if ok:
    ga = H.atom_texts(H.guard_atoms(init.node, _stmt_of(init.node, add)))
    gr = H.atom_texts(H.guard_atoms(dest.node, _stmt_of(dest.node, rems[0])))
    ok = ga == gr
  run.ob(R2, dest.qualname, "_multimap_remove(<same registry>, <same key>, self)",
         "a destroyed column leaves the registry under the same condition and key it entered",
         ok, fi=dest.fi)
  ok = False
  for c in calls_in(ma.node):
    if isinstance(c.func, ast.Attribute) and c.func.attr == "append" and len(c.args) == 1 and \
        text(c.args[0]) == pa[2]:
      recv = H.resolve(H.Flow(ma), c.func.value) if isinstance(c.func.value, ast.Name) \
          else c.func.value
      ok = ok or (isinstance(recv, ast.Call) and text(recv.func) == pa[0] + ".setdefault" and
                  bool(recv.args) and text(recv.args[0]) == pa[1])
  run.ob(R2, ma.qualname, "mapping.setdefault(key, []).append(value)",
         "registration keeps every reverse column of a node", ok, fi=ma.fi)
  # the adjustment computation
  gra = [(n, c) for (n, c, nm) in H.calls(fn) if endswith(nm, "get_reverse_adjustments")]
  (gn, gc) = _single(gra, "prepare_new_values: get_reverse_adjustments call")
  callee = w.fn("reverse_references.get_reverse_adjustments")
  b = H.bind_args(gc, callee.fi, skip_self=False)
  cp = callee.fi.params()
  if len(cp) != 5 or any(x not in b for x in cp):
    raise AnalysisError("get_reverse_adjustments: parameter list changed")
  def is_rows(rs):
    return bool(rs) and all(r.kind == "param" and r.node == p_rows and not r.path for r in rs)
  run.ob(R2, fn.qualname, "get_reverse_adjustments(%s, ...)" % p_rows,
         "adjustments are computed for the rows being written",
         is_rows(flow.roots(b[cp[0]], gn.id)), fi=fn.fi, node=gc)
  els = H.elements(fn, flow, b[cp[1]], gn.id)
  if els is None and any(r.kind in ("call", "unknown", "global")
                         for r in flow.roots(b[cp[1]], gn.id)):
    raise AnalysisError("prepare_new_values: cannot follow how the old values %s are read"
                        % short(b[cp[1]]))
  ok = bool(els)
  for el in els or []:
    okr = len(el.gens) == 1 and not el.conds and isinstance(el.gens[0][0], ast.Name) and \
        is_rows(flow.roots(el.gens[0][1], el.nid)) and isinstance(el.elt, ast.Call) and \
        _xname(fn, el.elt.func) in ("self.raw_get", "self.safe_get") and \
        [text(a) for a in el.elt.args] == [el.gens[0][0].id] and not el.elt.keywords
    ok = ok and okr
  run.ob(R2, fn.qualname, "old_values = [self.raw_get(r) for r in %s]" % p_rows,
         "the old values are the values stored for exactly the rows being written, read before "
         "the write", ok, fi=fn.fi, node=gc)
  newv = b[cp[2]]
  du = flow.du
  from_param = du.flows_from(lambda x: isinstance(x, ast.Name) and x.id == p_vals and
                             isinstance(x.ctx, ast.Load), newv)
  def reads_store(e):
    return any(isinstance(x, ast.Call) and _xname(fn, x.func) in ("self.raw_get", "self.safe_get")
               for x in ast.walk(e))
  from_store = any(isinstance(r.node, ast.AST) and reads_store(r.node)
                   for r in flow.roots(newv, gn.id))
  same = _same_object(flow, newv, gn.id, b[cp[1]], gn.id)
  run.ob(R2, fn.qualname, "get_reverse_adjustments(..., <new values>, ...)",
         "the new values are the values being written (not stored ones)",
         from_param and not from_store and not same, fi=fn.fi, node=gc)
  run.ob(R2, fn.qualname, "value_iterator=%s, relation=%s" % (text(b[cp[3]]), text(b[cp[4]])),
         "targets are enumerated with this column's own iterator and looked up in this column's "
         "own relation", _xname(fn, b[cp[3]]) == "self._value_iterable" and
         _xname(fn, b[cp[4]]) == "self._relation", fi=fn.fi, node=gc)
  # what stands for "the registered reverse columns" / "the computed adjustments"
  def is_rc(e, nid):
    return _is_root_call(flow, e, nid, lc)
  def is_ra(e, nid):
    return _is_root_call(flow, e, nid, gc)
  def classify(atoms, nid):
    """(known atoms as ('RC'|'RA', polarity), other atoms)"""
    known, other = [], []
    for (t, p) in atoms:
      try:
        tn = flow.node_of(t)
      except AnalysisError:
        tn = nid
      if is_rc(t, tn):
        known.append(("RC", p))
      elif is_ra(t, tn):
        known.append(("RA", p))
      else:
        other.append((t, p))
    return known, other
  gstmt = _stmt_of(fn.node, gc)
  known, other = classify(H.guard_atoms(fn.node, gstmt), gn.id)
  run.ob(R2, fn.qualname, "if <reverse cols>: ... get_reverse_adjustments",
         "adjustments are computed whenever a reverse column is registered",
         not other and all(k == ("RC", True) for k in known),
         witness="; ".join("%s=%s" % (short(t), p) for (t, p) in other) or None, fi=fn.fi,
         node=gc)
  # emission: one action per registered reverse column
  a2as = [c for c in calls_in(fn.node) if H.calls_anchor(w, fn, c, "column._adjustments_to_action")]
  a2a = _single(a2as, "prepare_new_values: _adjustments_to_action call")
  an = flow.node_of(a2a)
  ab2 = H.bind_args(a2a, w.fn("column._adjustments_to_action").fi)
  a_node, a_pairs = [ab2.get(x) for x in H._np(w.fn("column._adjustments_to_action").fi)[:2]]
  par = _parents(fn.node)
  # the generator that supplies the reverse column: innermost enclosing comprehension / for loop
  lv = a_node.value.id if isinstance(a_node, ast.Attribute) and a_node.attr == "node" and \
      isinstance(a_node.value, ast.Name) else None
  driver = None
  extra_atoms = []
  cur = a2a
  while id(cur) in par and lv is not None:
    up = par[id(cur)]
    if isinstance(up, (ast.ListComp, ast.SetComp, ast.GeneratorExp)):
      for g in up.generators:
        extra_atoms += [x for t in g.ifs for x in H.split_guard(t, True)]
        if driver is None and isinstance(g.target, ast.Name) and g.target.id == lv:
          driver = (g.iter, an)
    elif isinstance(up, ast.IfExp):
      if cur is up.body:
        extra_atoms += H.split_guard(up.test, True)
      elif cur is up.orelse:
        extra_atoms += H.split_guard(up.test, False)
    elif isinstance(up, ast.For) and driver is None and isinstance(up.target, ast.Name) and \
        up.target.id == lv and any(x is cur for x in up.body):
      driver = (up.iter, [m.id for m in fn.cfg.nodes if m.stmt is up][0])
    if isinstance(up, (ast.FunctionDef, ast.AsyncFunctionDef, ast.Lambda)):
      break
    cur = up
  wit = None
  if lv is None or driver is None:
    raise AnalysisError("prepare_new_values: cannot tell for which reverse columns %s is built"
                        % short(a2a, 60))
  emit_ok = driver is not None and is_rc(driver[0], driver[1])
  if driver is not None and not emit_ok:
    wit = "loop iterates %s, not every registered reverse column" % short(driver[0])
  pit = _pairs_through_list_to_value(H.resolve(flow, a_pairs, an), lv, strict=True) if lv \
      else None
  if emit_ok:
    emit_ok = pit not in (None, False) and is_ra(pit, an)
    if not emit_ok:
      wit = "pairs %s" % short(a_pairs)
  if emit_ok:
    known, other = classify(H.guard_atoms(fn.node, _stmt_of(fn.node, a2a)) + extra_atoms, an)
    emit_ok = not other and all(p is True for (k, p) in known)
    if not emit_ok:
      wit = "guards %s" % "; ".join("%s=%s" % (short(t), p) for (t, p) in other)
  # delivery: the actions are in the list every return hands back (unless nothing is registered
  # or nothing changed)
  deliv_ok = True
  recv = None
  up = par.get(id(a2a))
  if isinstance(up, ast.Call) and isinstance(up.func, ast.Attribute) and up.func.attr == "append" \
      and any(a is a2a for a in up.args):
    recv = up.func.value
  for case in H.return_cases(fn.node):
    rn = [m.id for m in fn.cfg.nodes if m.stmt is case.stmt][0]
    v = H.resolve(flow, case.value, rn) if case.value is not None else None
    known, other = classify(case.atoms, rn)
    if any(p is False for (k, p) in known):
      continue
    got = False
    if isinstance(v, ast.Tuple) and len(v.elts) == 2:
      for r in flow.roots(v.elts[1], rn):
        if isinstance(r.node, ast.AST) and any(x is a2a for x in ast.walk(r.node)):
          got = True
      if recv is not None and _same_object(flow, recv, an, v.elts[1], rn):
        got = True
    if not got:
      if not (isinstance(v, ast.Tuple) and len(v.elts) == 2) or \
          any(r.kind in ("call", "unknown", "param", "global")
              for r in flow.roots(v.elts[1], rn)):
        raise AnalysisError("prepare_new_values: cannot follow what return %s hands back"
                            % short(case.value))
      deliv_ok = False
      wit = wit or "return %s does not hand back the reverse-column updates" % short(case.value)
  run.ob(R2, fn.qualname, "for reverse_col in <reverse cols>: adjustments.append("
         "_adjustments_to_action(reverse_col.node, ...))", "one update action per registered "
         "reverse column, covering every adjusted target row, returned to the caller",
         emit_ok and deliv_ok, witness=wit, fi=fn.fi)
  # overrides delegate to the base implementation for the same rows
  base = w.repo.cls("column.BaseReferenceColumn")
  for ci in w.repo.subclasses(base, strict=True):
    m = ci.methods.get("prepare_new_values")
    if m is None:
      continue
    mfn = w.fn_of(m)
    mflow = H.Flow(mfn)
    mps = m.params()
    rets = [x for x in mfn.cfg.nodes if x.kind == "return"]
    ok = bool(rets)
    for rn in rets:
      okr = False
      for case in H.value_cases(mfn, mflow, rn.stmt.value, rn.id) if rn.stmt.value is not None \
          else []:
        v = H.resolve(mflow, case.value, rn.id)
        okr = isinstance(v, ast.Call) and isinstance(v.func, ast.Attribute) and \
            v.func.attr == "prepare_new_values" and isinstance(v.func.value, ast.Call) and \
            dotted(v.func.value.func) == "super"
        if not okr and isinstance(v, (ast.Call, ast.Name)):
          raise AnalysisError("%s: cannot follow what %s returns" % (m.qualname, short(v)))
        if okr:
          bb = H.bind_args(v, fn.fi)
          okr = ps[1] in bb and ps[2] in bb and text(bb[ps[1]]) == mps[1] and \
              mflow.du.flows_from(lambda x: isinstance(x, ast.Name) and x.id == mps[2], bb[ps[2]])
        if not okr:
          break
      ok = ok and okr
    run.ob(R2, m.qualname, "return super().prepare_new_values(%s, <values>, ...)" % mps[1],
           "every override ends in the base implementation for the same rows (the only place "
           "reverse adjustments are made)", ok, fi=m)


LTV = ["_list_to_value"]      # current name of the conversion method (set per run, see r2/r3/r4)


def _set_ltv(w):
  fi = H.resolve_anchor(w.repo, "column.ReferenceColumn._list_to_value")
  LTV[0] = fi.name if fi is not None else "_list_to_value"


def _pairs_through_list_to_value(pairs, colvar, strict=False):
  """For `[(row_id, <colvar>._list_to_value(value)) for (row_id, value) in <src>]` the <src>
  expression. Anything else: None -- or, with strict=True, False when it is positively a
  comprehension of (row_id, <something else>) pairs, and AnalysisError when the construction is
  not one this reader understands."""
  def unknown(why):
    if strict:
      raise AnalysisError("cannot read how the (row, value) pairs are built: %s" % why)
    return None
  if not (isinstance(pairs, ast.ListComp) and len(pairs.generators) == 1):
    return unknown(short(pairs) if pairs is not None else "no pairs")
  g = pairs.generators[0]
  if not (isinstance(g.target, ast.Tuple) and len(g.target.elts) == 2 and
          all(isinstance(e, ast.Name) for e in g.target.elts)):
    return unknown(short(pairs))
  rid, val = [e.id for e in g.target.elts]
  e = pairs.elt
  if not (isinstance(e, ast.Tuple) and len(e.elts) == 2 and text(e.elts[0]) == rid):
    return unknown(short(pairs))
  if g.ifs:
    return False if strict else None
  if isinstance(e.elts[1], ast.Call) and text(e.elts[1].func) == colvar + "." + LTV[0] and \
      [text(a) for a in e.elts[1].args] == [val] and not e.elts[1].keywords:
    return g.iter
  return False if strict else None


# --------------------------------------------------------------------------------------- R3

class _LenSubst(ast.NodeTransformer):
  """len(<param>) and the bare parameter (its truth value) both stand for the list's length."""
  def __init__(self, param):
    self.param = param
    self.other = False

  def visit_Call(self, node):
    if dotted(node.func) == "len" and len(node.args) == 1 and \
        isinstance(node.args[0], ast.Name) and node.args[0].id == self.param:
      return ast.copy_location(ast.Name(id="__len__", ctx=ast.Load()), node)
    self.other = True
    return node

  def visit_Name(self, node):
    if node.id == self.param:
      return ast.copy_location(ast.Name(id="__len__", ctx=ast.Load()), node)
    return node


def _len_set(flow, atoms, param):
  """(lengths of `param` compatible with all the atoms, atoms that are not about its length)."""
  s = IntSet([(0, INF)])
  unknown = []
  for (t, pol) in atoms:
    sub = _LenSubst(param)
    e = sub.visit(H.inline(flow, t, stop=(param,)))
    if sub.other:
      unknown.append(t)
      continue
    try:
      cs = cond_set(e, "__len__")
    except AnalysisError:
      unknown.append(t)
      continue
    cs = IntSet(cs.iv)
    if not pol:
      cs = IntSet(cs.complement().iv)
    s = s.intersect(cs)
  return IntSet(s.iv), unknown


def r3_unique(run, w):
  _set_ltv(w)
  R3 = run.rule("C11-R3", "ReferenceColumn._list_to_value raises UniqueReferenceError exactly for "
                "lists of two or more targets, before any return; the error is an Exception; "
                "every reverse-column write passes _list_to_value", floor=4)
  fn = w.fn("column.ReferenceColumn._list_to_value")
  flow = H.Flow(fn)
  cfg = fn.cfg
  p = fn.fi.params()[1]
  err = w.repo.cls("column.UniqueReferenceError")
  two_plus = IntSet([(2, INF)])
  raises = []
  for s in walk_no_nested(fn.node):
    if not isinstance(s, ast.Raise) or s.exc is None:
      continue
    exc = H.resolve(flow, s.exc) if isinstance(s.exc, ast.Name) else s.exc
    cname = dotted(exc.func) if isinstance(exc, ast.Call) else dotted(exc)
    if w.repo.resolve_class_name(fn.fi.module, cname) is err:
      raises.append(s)
  if not raises:
    run.ob(R3, fn.qualname, "if len(%s) > 1: raise UniqueReferenceError" % p,
           "a single-valued reference side is never given two targets", False, fi=fn.fi)
  else:
    # lengths under which a rejection can be reached: never a list with fewer than two targets
    tot = IntSet()
    ok = True
    for s in raises:
      ls, unknown = _len_set(flow, H.guard_atoms(fn.node, s), p)
      tot = tot.union(ls)
      if not ls.subset_of(two_plus):
        if unknown:
          raise AnalysisError("_list_to_value: rejecting test is not a pure length test: %s"
                              % short(unknown[0]))
        ok = False
    # lengths under which a value can be returned: never a list with two or more targets
    wit = None
    for case in H.return_cases(fn.node):
      ls, unknown = _len_set(flow, case.atoms, p)
      if not ls.intersect(two_plus).empty():
        ok = False
        wit = "%s is reached for lengths %r" % (short(case.stmt), ls)
    run.ob(R3, fn.qualname, "rejected lengths = %r" % tot,
           "exactly the lists with two or more targets are rejected (none accepted, and a single "
           "target is never refused)", ok, witness=wit, fi=fn.fi)
    rets = [n.id for n in cfg.nodes if n.kind == "return"]
    rnodes = {n.id for n in cfg.nodes if n.stmt is not None and any(n.stmt is s for s in raises)}
    # the test is made before a value is produced: no return node lies on a path to a rejection
    ok = bool(rets) and not any(cfg.reach_after({r}) & rnodes for r in rets)
    run.ob(R3, fn.qualname, "length test precedes every return",
           "no value is produced for the Ref cell before the uniqueness test", ok, fi=fn.fi)
  bases = set()
  for c in w.repo.mro(err):
    bases |= {b for b in c.base_names if b}
  run.ob(R3, err.qualname, "class UniqueReferenceError(%s)" % ", ".join(err.base_names),
         "the rejection is an Exception, so apply_user_actions' catch-all rolls the bundle back",
         bool(bases & BUILTIN_EXCEPTIONS), nontrivial=False)
  # every action built for a reverse column converts each value with that column's _list_to_value
  n_sites = 0
  a2a_fi = w.fn("column._adjustments_to_action").fi
  for q in ("column.BaseReferenceColumn.prepare_new_values",
            "column.BaseReferenceColumn.recalc_from_reverse_values"):
    f2 = w.fn(q)
    fl2 = H.Flow(f2)
    for c in calls_in(f2.node):
      if H.calls_anchor(w, f2, c, "column._adjustments_to_action"):
        n_sites += 1
        b = H.bind_args(c, a2a_fi)
        a0, a1 = [b.get(x) for x in H._np(a2a_fi)[:2]]
        colvar = text(a0.value) if isinstance(a0, ast.Attribute) and a0.attr == "node" else None
        pairs = H.resolve(fl2, a1, fl2.node_of(c)) if a1 is not None else None
        if colvar is None:
          raise AnalysisError("%s: cannot tell which column %s writes" % (q, short(c, 60)))
        ok = _pairs_through_list_to_value(pairs, colvar, strict=True) is not False
        run.ob(R3, q, short(c), "every value written to the reverse column is produced by that "
               "same column's _list_to_value (where the uniqueness test lives)", ok, fi=f2.fi,
               node=c)
  if n_sites < 2:
    raise AnalysisError("reverse-column emission sites (_adjustments_to_action) not found")


# --------------------------------------------------------------------------------------- R4

def r4_rebuild(run, w):
  _set_ltv(w)
  R4 = run.rule("C11-R4", "reverse column is rebuilt after a type change (from the new column "
                "object, after the schema action) and filled after linking; the rebuild covers "
                "every target row", floor=6)
  names = set(w.doc_action_names())
  # doModifyColumn
  fn = w.fn("useractions.UserActions.doModifyColumn")
  flow = H.Flow(fn)
  cfg = fn.cfg
  p_info = fn.fi.params()[3]
  mod = set()
  for (n, c, nm) in fn.calls():
    if E.is_strict_gateway_call(c, nm, fn) and c.args:
      k = E.action_ctor(c.args[0], names)
      if k and k[0] == "ModifyColumn":
        mod.add(n.id)
  rec = [(n, c) for (n, c, nm) in H.calls(fn) if endswith(nm, "recalc_from_reverse_values")]
  if not mod:
    raise AnalysisError("doModifyColumn: ModifyColumn emission not found")
  def is_type_test(t):
    return isinstance(t, ast.Compare) and len(t.ops) == 1 and isinstance(t.ops[0], ast.In) and \
        isinstance(t.left, ast.Constant) and t.left.value == "type" and \
        text(t.comparators[0]) == p_info
  def mentions_type(t):
    return "type" in [c.value for c in ast.walk(t) if isinstance(c, ast.Constant)]
  def value_dependent(t):
    # a predicate on the *value* of the new type (prefix test, equality, membership)
    for x in ast.walk(t):
      if isinstance(x, ast.Call) and isinstance(x.func, ast.Attribute) and \
          x.func.attr in ("startswith", "endswith") and mentions_type(x.func.value):
        return True
      if isinstance(x, ast.Compare) and isinstance(x.ops[0], (ast.Eq, ast.NotEq)) and \
          mentions_type(x):
        return True
    return False
  ok = False
  wit = None
  R4_ANCHORS = ("useractions.UserActions.doModifyColumn", "useractions.UserActions.AddReverseColumn",
                "column.BaseReferenceColumn.recalc_from_reverse_values")
  if not rec:
    moved = H.called_elsewhere(w, "recalc_from_reverse_values", R4_ANCHORS)
    if moved:
      raise AnalysisError("doModifyColumn: the reverse-column rebuild is not called here but in "
                          "%s; cannot follow" % ", ".join(moved))
  if rec:
    (rn, rc) = rec[0]
    # the conditions, tested after the schema action, under which the rebuild runs
    after = []
    for (t, p) in H.guard_atoms(fn.node, _stmt_of(fn.node, rc)):
      ifn = [n for n in cfg.nodes if n.kind == "if" and H._synth_within(t, n.stmt.test)]
      if ifn and all(cfg.dominated_by(ifn[0].id, {m}) for m in mod):
        after.append((t, p, ifn[0]))
    tests = [(t, p, n) for (t, p, n) in after if is_type_test(t) and p is True]
    rest = [(t, p, n) for (t, p, n) in after if not (is_type_test(t) and p is True)]
    if not rest:
      gate = {n.id for (t, p, n) in tests} | {rn.id}
      ok = all(cfg.postdominated_by(m, gate) for m in mod)
      if not ok:
        for m in mod:
          pth = cfg.path(m, {cfg.exit.id}, removed=gate, after=True)
          if pth:
            wit = cfg.describe_path(pth)
    else:
      valdep = [t for (t, p, n) in rest if value_dependent(t)]
      over = [t for (t, p, n) in rest if not mentions_type(t)]
      if over:
        wit = "also guarded by: " + "; ".join(short(t) for t in over)
      elif valdep:
        wit = "rebuild depends on the value of the new type: " + \
            "; ".join(short(t) for t in valdep)
      else:
        raise AnalysisError("doModifyColumn: cannot interpret the guard of the reverse-column "
                            "rebuild: %s" % "; ".join(short(t) for (t, p, n) in rest))
  run.ob(R4, fn.qualname, "ModifyColumn -> if 'type' in %s: recalc_from_reverse_values()" % p_info,
         "whenever the type of a column changed, every normal path after the schema action "
         "reaches the rebuild of its reverse column, guarded by nothing else", ok, witness=wit,
         fi=fn.fi)
  for (rn, rc) in rec:
    rs = flow.roots(rc.func.value, rn.id)
    ok = bool(rs) and all(r.kind == "call" and isinstance(r.node.func, ast.Attribute) and
                          r.node.func.attr == "get_column" and
                          not r.path and all(cfg.dominated_by(r.nid, {m}) for m in mod)
                          for r in rs)
    run.ob(R4, fn.qualname, short(rc), "the rebuild is asked of the column object created by the "
           "schema action (fetched after it), not of the destroyed one", ok, fi=fn.fi, node=rc)
    _result_emitted(run, R4, fn, flow, rn, rc)
  # AddReverseColumn
  fn = w.fn("useractions.UserActions.AddReverseColumn")
  flow = H.Flow(fn)
  cfg = fn.cfg
  link = {n.id for (n, c, nm) in fn.calls() if endswith(nm, "_docmodel.update") and
          any(k.arg == "reverseCol" for k in c.keywords)}
  rec = [(n, c) for (n, c, nm) in H.calls(fn) if endswith(nm, "recalc_from_reverse_values")]
  if not link:
    raise AnalysisError("AddReverseColumn: linking update (reverseCol=...) not found")
  if not rec:
    moved = H.called_elsewhere(w, "recalc_from_reverse_values", R4_ANCHORS)
    if moved:
      raise AnalysisError("AddReverseColumn: the fill of the new column is not called here but "
                          "in %s; cannot follow" % ", ".join(moved))
  ok = bool(rec) and all(cfg.dominated_by(n.id, link) for (n, c) in rec) and \
      all(cfg.postdominated_by(l, {n.id for (n, c) in rec}) for l in link)
  run.ob(R4, fn.qualname, "update(reverseCol=...) -> recalc_from_reverse_values()",
         "after the two columns are linked the new column is filled from the existing one on "
         "every path", ok, fi=fn.fi)
  p_col = fn.fi.params()[2]
  for (rn, rc) in rec:
    rs = flow.roots(rc.func.value, rn.id)
    ok = bool(rs) and all(r.kind == "call" and isinstance(r.node.func, ast.Attribute) and
                          r.node.func.attr == "get_column" and not r.path and
                          [text(a) for a in r.node.args] == [p_col] for r in rs)
    run.ob(R4, fn.qualname, short(rc), "the fill is computed from the existing (source) column",
           ok, fi=fn.fi, node=rc)
    _result_emitted(run, R4, fn, flow, rn, rc)
  # the rebuild itself
  fn = w.fn("column.BaseReferenceColumn.recalc_from_reverse_values")
  flow = H.Flow(fn)
  a2a_fi = w.fn("column._adjustments_to_action").fi
  a2a = [c for c in calls_in(fn.node) if H.calls_anchor(w, fn, c, "column._adjustments_to_action")]
  ok = False
  ok_col = False
  wit = None
  if len(a2a) == 1:
    an = flow.node_of(a2a[0])
    b = H.bind_args(a2a[0], a2a_fi)
    a0, a1 = [b.get(x) for x in H._np(a2a_fi)[:2]]
    # the (target row, referring rows) pairs: one per row of the target table, unconditionally
    src = None
    if isinstance(a0, ast.Attribute) and a0.attr == "node" and a1 is not None:
      src = _pairs_through_list_to_value(H.resolve(flow, a1, an), text(a0.value), strict=True)
    if src is None:
      raise AnalysisError("recalc_from_reverse_values: cannot read the rebuilt action %s"
                          % short(a2a[0], 70))
    els = H.elements(fn, flow, src, an) if src is not False else []
    if els is None:
      raise AnalysisError("recalc_from_reverse_values: cannot follow how %s is filled"
                          % short(src))
    ok = bool(els)
    for el in els or []:
      okr = len(el.gens) == 1 and isinstance(el.gens[0][0], ast.Name) and not el.conds and \
          _xname(fn, H.strip_passthrough(el.gens[0][1])) == "self._target_table.row_ids" and \
          isinstance(el.elt, ast.Tuple) and len(el.elt.elts) == 2
      if okr:
        lv = el.gens[0][0].id
        okr = text(el.elt.elts[0]) == lv
        val = H.inline(flow, el.elt.elts[1], stop=(lv,))
        reads = [c for c in ast.walk(val) if isinstance(c, ast.Call) and
                 _xname(fn, c.func) == "self._relation.get_affected_rows" and len(c.args) == 1 and
                 isinstance(c.args[0], ast.Tuple) and [text(e) for e in c.args[0].elts] == [lv]]
        okr = okr and bool(reads)
      if el.conds:
        wit = "only when %s" % "; ".join(short(t) for (t, p) in el.conds)
      ok = ok and okr
    if isinstance(a0, ast.Attribute):
      rs = flow.roots(a0.value, an)
      ok_col = bool(rs)
      for r in rs:
        okr = r.kind == "call" and _xname(fn, r.node.func) == "self._target_table.get_column" and \
            len(r.node.args) == 1 and not r.path
        if not okr and r.kind in ("call", "unknown", "param", "global"):
          raise AnalysisError("recalc_from_reverse_values: cannot tell which column %s is"
                              % short(a0.value))
        if okr:
          ks = flow.roots(r.node.args[0], r.nid)
          nf = H.namedtuple_fields(w, "depend.Node")
          okr = bool(ks) and all(k.kind == "param" and k.node == "self" and len(k.path) == 2 and
                                 k.path[0] == ("attr", "_reverse_source_node") and
                                 H.field_step(k.path[1], nf) == ("idx", nf.index("col_id"))
                                 for k in ks)
        ok_col = ok_col and okr
  if len(a2a) != 1:
    raise AnalysisError("recalc_from_reverse_values: expected one _adjustments_to_action call, "
                        "found %d" % len(a2a))
  run.ob(R4, fn.qualname, "for target_row_id in self._target_table.row_ids: "
         "get_affected_rows((target_row_id,))", "the rebuild recomputes the reverse cell of every "
         "row of the target table from this column's relation", ok, witness=wit, fi=fn.fi)
  run.ob(R4, fn.qualname, "reverse_col = self._target_table.get_column(<col id of "
         "self._reverse_source_node>)", "the rebuilt column is the registered reverse column in "
         "the target table", ok_col, fi=fn.fi)


def _result_emitted(run, R4, fn, flow, rn, rc):
  cfg = fn.cfg
  emits = set()
  for (n, c, nm) in fn.calls():
    if E.is_strict_gateway_call(c, nm, fn) and len(c.args) == 1:
      rs = flow.roots(c.args[0], n.id)
      if rs and all(r.kind == "call" and r.node is rc and not r.path for r in rs):
        emits.add(n.id)
  ok = bool(emits) and (rn.id in emits or cfg.postdominated_by(rn.id, emits))
  run.ob(R4, fn.qualname, "self._do_doc_action(<%s>)" % short(rc),
         "the rebuilt values are emitted through the gateway on every path", ok, fi=fn.fi,
         node=rc)


# --------------------------------------------------------------------------------------- R5

FRESH_CALLS = ("set", "list", "dict", "sorted", "frozenset", "tuple", "defaultdict",
               "collections.defaultdict", "OrderedDict", "collections.OrderedDict", "SortedSet")
FRESH_METHODS = ("copy", "union", "difference", "intersection", "symmetric_difference")
PROJECTING_METHODS = ("items", "values", "keys", "get", "setdefault", "pop")


def _owner(flow, r, module, depth=0):
  """Classify one origin of a mutated/returned container: ('fresh'|'sentinel'|'immutable'|
  'state'|'param'|'callee'|'unknown', detail)."""
  if depth > 8:
    return ("unknown", r)
  if r.kind in ("lit", "comp"):
    if isinstance(r.node, ast.Tuple) and not r.path:
      return ("immutable", r)
    return ("fresh", r)
  if r.kind == "const":
    return ("immutable", r)
  if r.kind == "global":
    if r.path and r.path[-1] == ("attr", "ALL_ROWS"):
      return ("sentinel", r)
    return ("unknown", r)
  if r.kind == "param":
    if r.node == "self":
      return ("state", r)
    return ("param", r)
  if r.kind == "call":
    f = r.node.func
    d = dotted(f)
    if d in FRESH_CALLS:
      return ("fresh", r)
    if d is not None and "." not in d and d in module.classes:
      return ("fresh", r)       # instance of a class of this module built here
    if isinstance(f, ast.Attribute):
      if f.attr in FRESH_METHODS and not r.path:
        return ("fresh", r)
      if f.attr in PROJECTING_METHODS:
        kinds = [_owner(flow, x, module, depth + 1) for x in flow.roots(f.value, r.nid)]
        # .get(key, default) / .setdefault(key, default) may also hand back the default
        if f.attr in ("get", "setdefault", "pop") and len(r.node.args) > 1:
          kinds += [_owner(flow, x, module, depth + 1)
                    for x in flow.roots(r.node.args[1], r.nid)]
        order = ["state", "param", "callee", "unknown", "fresh", "immutable", "sentinel"]
        kinds.sort(key=lambda k: order.index(k[0]))
        return kinds[0] if kinds else ("unknown", r)
      return ("callee", r)
    return ("unknown", r)
  return ("unknown", r)


def r5_ownership(run, w):
  R5 = run.rule("C11-R5", "get_reverse_adjustments mutates only containers it owns; "
                "ReferenceRelation.get_affected_rows hands out the ALL_ROWS marker or a container "
                "built in the call, never one stored in the relation", floor=5)
  fn = w.fn("reverse_references.get_reverse_adjustments")
  flow = H.Flow(fn, passthrough=False)     # list(x)/sorted(x) are copies here, not aliases
  mod = fn.fi.module
  callee_sites = []
  sites = []
  for (n, c, nm) in fn.calls():
    if isinstance(c.func, ast.Attribute) and c.func.attr in MUTATING_METHODS:
      sites.append((n, c, c.func.value))
  for n in fn.cfg.nodes:
    if n.kind == "stmt" and isinstance(n.stmt, (ast.Assign, ast.AugAssign, ast.Delete)):
      tg = n.stmt.targets if not isinstance(n.stmt, ast.AugAssign) else [n.stmt.target]
      for t in tg:
        if isinstance(t, (ast.Subscript, ast.Attribute)):
          sites.append((n, t, t.value))
  if not sites:
    raise AnalysisError("get_reverse_adjustments: no container mutation found")
  for (n, c, recv) in sites:
    kinds = [_owner(flow, r, mod) for r in flow.roots(recv, n.id)]
    bad = [k for k in kinds if k[0] in ("state", "param", "sentinel", "immutable")]
    unk = [k for k in kinds if k[0] == "unknown"]
    if unk and not bad:
      raise AnalysisError("get_reverse_adjustments: cannot tell who owns %s (%r)"
                          % (short(recv), unk[0][1]))
    for k in kinds:
      if k[0] == "callee":
        callee_sites.append((n, c, k[1]))
    run.ob(R5, fn.qualname, short(c), "the container edited in place was built in this call or "
           "handed over as a fresh copy -- never a parameter or another object's state",
           not bad and bool(kinds), witness="; ".join("%s: %r" % k for k in bad) or None,
           fi=fn.fi, node=c)
  # containers obtained from a callee: the callee must guarantee freshness
  p_rel = fn.fi.params()[4]
  need = []
  for (n, c, r) in callee_sites:
    f = r.node.func
    recv = flow.roots(f.value, r.nid)
    if not (recv and all(x.kind == "param" and x.node == p_rel and not x.path for x in recv)):
      raise AnalysisError("get_reverse_adjustments: mutated container comes from unrecognised "
                          "call %s" % short(r.node))
    need.append(f.attr)
  for meth in sorted(set(need)):
    classes = _relation_classes(w, fn, p_rel)
    for ci in classes:
      m = w.repo.find_method(ci, meth)
      if m is None:
        raise AnalysisError("%s has no method %s" % (ci.qualname, meth))
      _fresh_returns(run, R5, w, m)


def _relation_classes(w, callee, pname):
  """Classes of the objects passed as `pname` at the call sites of `callee` (who-may-call)."""
  out = {}
  short_name = callee.fi.name
  for fi in w.repo.all_functions():
    fn = w.fn_of(fi)
    for (n, c, nm) in fn.calls():
      if nm is not None and (nm == short_name or nm.endswith("." + short_name)):
        b = H.bind_args(c, callee.fi, skip_self=False)
        if pname not in b:
          raise AnalysisError("%s: call %s does not pass %s" % (fi.qualname, short(c), pname))
        t = fn.type_of(b[pname])
        ci = w.repo.classes.get(t) if t else None
        if ci is None:
          raise AnalysisError("%s: cannot type %s passed as %s" % (fi.qualname,
                                                                   short(b[pname]), pname))
        out[ci.qualname] = ci
        for sub in w.repo.subclasses(ci, strict=True):
          out[sub.qualname] = sub
  if not out:
    raise AnalysisError("no call site of %s found" % callee.qualname)
  return [out[k] for k in sorted(out)]


def _fresh_returns(run, R5, w, m):
  fn = w.fn_of(m)
  flow = H.Flow(fn, passthrough=False)
  cfg = fn.cfg
  rets = [n for n in cfg.nodes if n.kind == "return"]
  if not rets:
    raise AnalysisError("%s: no return" % m.qualname)
  for n in rets:
    v = n.stmt.value
    if v is None:
      run.ob(R5, m.qualname, "return", "returns a container", False, fi=m, node=n.stmt)
      continue
    kinds = [_owner(flow, r, m.module) for r in flow.roots(v, n.id)]
    unk = [k for k in kinds if k[0] in ("unknown", "callee")]
    bad = [k for k in kinds if k[0] in ("state", "param")]
    if unk and not bad:
      raise AnalysisError("%s: cannot decide whether %s is a fresh container (%r)"
                          % (m.qualname, short(v), unk[0][1]))
    stored = None
    if isinstance(v, ast.Name):
      stored = _stored_into_state(fn, v.id)
    ok = bool(kinds) and not bad and stored is None
    wit = "; ".join("%s: %r" % k for k in bad) or stored
    run.ob(R5, m.qualname, short(n.stmt), "the value handed to callers (who edit it in place) is "
           "the ALL_ROWS marker or a container built in this call -- not an entry of "
           "self.inverse_map, not the caller's argument, and not kept by the relation", ok,
           witness=wit, fi=m, node=n.stmt)


def _stored_into_state(fn, name):
  """Text of a statement that stores local `name` into something reachable from self."""
  for s in walk_no_nested(fn.node):
    if isinstance(s, ast.Assign) and isinstance(s.value, ast.Name) and s.value.id == name:
      for t in s.targets:
        root = t
        while isinstance(root, (ast.Attribute, ast.Subscript)):
          root = root.value
        if isinstance(t, (ast.Attribute, ast.Subscript)) and isinstance(root, ast.Name) and \
            root.id == "self":
          return short(s)
    if isinstance(s, ast.Call) and isinstance(s.func, ast.Attribute) and \
        s.func.attr in ("setdefault", "append", "add", "insert", "update", "__setitem__") and \
        any(isinstance(a, ast.Name) and a.id == name for a in s.args):
      root = s.func.value
      while isinstance(root, (ast.Attribute, ast.Subscript, ast.Call)):
        root = root.func if isinstance(root, ast.Call) else root.value
      if isinstance(root, ast.Name) and root.id == "self":
        return short(s)
  return None


U = "sandbox/grist/useractions.py"
CO = "sandbox/grist/column.py"
RL = "sandbox/grist/relation.py"
RR = "sandbox/grist/reverse_references.py"
EN = "sandbox/grist/engine.py"
VARIANTS = [
  # known realistic breakage (seeded): single-row fast path hands out the live index entry
  ("affected-rows-live-set", RL,
   """    if input_rows == depend.ALL_ROWS:
      return depend.ALL_ROWS
    affected_rows = set()
    for target_row_id in input_rows:
      affected_rows.update(self.inverse_map.get(target_row_id, ()))""",
   """    if input_rows == depend.ALL_ROWS:
      return depend.ALL_ROWS
    if len(input_rows) == 1:
      # The overwhelmingly common case is a single changed row; there is nothing to union then.
      (target_row_id,) = input_rows
      return self.inverse_map.get(target_row_id) or set()
    affected_rows = set()
    for target_row_id in input_rows:
      affected_rows.update(self.inverse_map.get(target_row_id, ()))""", "C11-R5"),
  ("affected-rows-cached", RL,
   "      affected_rows.update(self.inverse_map.get(target_row_id, ()))\n    return affected_rows",
   "      affected_rows.update(self.inverse_map.get(target_row_id, ()))\n"
   "    self._last_affected = affected_rows\n    return affected_rows", "C11-R5"),
  ("adjustments-edit-live-index", RR,
   "    reverse_value = relation.get_affected_rows((target_row_id,))",
   "    reverse_value = relation.inverse_map.setdefault(target_row_id, set())", "C11-R5"),
  ("update-skips-conversion", U,
   """    action, extra_actions = self._engine.convert_action_values(
      actions.BulkUpdateRecord(table_id, row_ids, columns))
    action = [""",
   """    action, extra_actions = actions.BulkUpdateRecord(table_id, row_ids, columns), []
    action = [""", "C11-R1"),
  ("update-drops-extra-actions", U,
   """    for a in extra_actions:
      self._do_extra_doc_action(a)

    # Finally, update the record""",
   """    # Finally, update the record""", "C11-R1"),
  ("convert-drops-adjustments", EN,
   """      extra_actions.extend(adjustments)

      new_values[col_id] = nvalues""",
   """      new_values[col_id] = nvalues""", "C11-R1"),
  ("convert-adjusts-only-refs", EN,
   """      nvalues, adjustments = col_obj.prepare_new_values(row_ids, values,
          action_summary=self.out_actions.summary)
      extra_actions.extend(adjustments)

      new_values[col_id] = nvalues""",
   """      nvalues, adjustments = col_obj.prepare_new_values(row_ids, values,
          action_summary=self.out_actions.summary)
      if nvalues != values:
        extra_actions.extend(adjustments)

      new_values[col_id] = nvalues""", "C11-R1"),
  ("raw-update-from-pairs", U,
   "    return self.doBulkUpdateRecord(table_id, row_ids, make_bulk_values_dict(record_values_pairs))",
   "    return self._do_doc_action(actions.BulkUpdateRecord(\n"
   "      table_id, row_ids, make_bulk_values_dict(record_values_pairs)))", "C11-R1"),
  ("old-values-from-new", CO,
   "      old_values = [self.raw_get(r) for r in row_ids]",
   "      old_values = list(values)", "C11-R2"),
  ("first-reverse-col-only", CO,
   "        for reverse_col in reverse_cols:",
   "        for reverse_col in reverse_cols[:1]:", "C11-R2"),
  ("destroy-keeps-registration", CO,
   """    if self._reverse_source_node:
      _multimap_remove(self._table._reverse_cols_by_source_node, self._reverse_source_node, self)

""", "", "C11-R2"),
  ("reflist-override-skips-base", CO,
   """      self._reject_unresolved_temp_ids(values)
    return super(ReferenceListColumn, self).prepare_new_values(
        row_ids, values, ignore_data=ignore_data, action_summary=action_summary)""",
   """      self._reject_unresolved_temp_ids(values)
    if ignore_data:
      return values, []
    return super(ReferenceListColumn, self).prepare_new_values(
        row_ids, values, ignore_data=ignore_data, action_summary=action_summary)""", "C11-R2"),
  ("unique-threshold-off", CO,
   "    if len(value_as_list) > 1:\n      raise UniqueReferenceError",
   "    if len(value_as_list) > 2:\n      raise UniqueReferenceError", "C11-R3"),
  ("unique-keeps-first", CO,
   """    if len(value_as_list) > 1:
      raise UniqueReferenceError("UNIQUE reference constraint violated")
    return value_as_list[0] if value_as_list else 0""",
   """    return value_as_list[0] if value_as_list else 0""", "C11-R3"),
  ("rebuild-bypasses-list-to-value", CO,
   """    return _adjustments_to_action(reverse_col.node,
        [(row_id, reverse_col._list_to_value(value)) for (row_id, value) in reverse_adjustments])""",
   """    return _adjustments_to_action(reverse_col.node,
        [(row_id, value or None) for (row_id, value) in reverse_adjustments])""", "C11-R3"),
  ("type-change-rebuild-only-for-data", U,
   "    if 'type' in col_info:\n      update_action = new_column.recalc_from_reverse_values()",
   "    if 'type' in col_info and not to_formula:\n      update_action = new_column.recalc_from_reverse_values()",
   "C11-R4"),
  ("add-reverse-not-filled", U,
   """    update_action = col_obj.recalc_from_reverse_values()
    self._do_doc_action(update_action)

    return ret""",
   """    update_action = col_obj.recalc_from_reverse_values()

    return ret""", "C11-R4"),
  ("ref-index-from-raw-value", CO,
   """    new = self.safe_get(row_id)
    self._update_references(row_id, old, new)""",
   """    new = value
    self._update_references(row_id, old, new)""", "C11-R6"),
  ("copy-keeps-stale-index", CO,
   "    self._relation.clear()\n", "", "C11-R6"),
  ("rebuild-skips-empty-targets", CO,
   """      reverse_value = self._relation.get_affected_rows((target_row_id,))
      reverse_adjustments.append((target_row_id, sorted(reverse_value)))""",
   """      reverse_value = self._relation.get_affected_rows((target_row_id,))
      if reverse_value:
        reverse_adjustments.append((target_row_id, sorted(reverse_value)))""", "C11-R4"),
]
