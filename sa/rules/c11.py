"""C11 Two-way references stay symmetric -- structural clauses.

Deviations from DESIGN.md section 4: R6 re-evaluates C05-R5 (exactness of the reference relation)
under this property, because every reverse value is read from that relation; and a fifth rule
(R5, container ownership) is added. Reading
reverse_references.get_reverse_adjustments showed that it edits the container it receives from
relation.get_affected_rows in place; symmetry after a *rejected* edit therefore also needs that
container to be the caller's own copy and never the relation's live index entry.
"""
import ast
import copy
from ..fn import World
from ..index import AnalysisError, dotted
from ..astutil import text, short, endswith, calls_in, walk_no_nested
from ..absdom import IntSet, cond_set, INF
from ..dataflow import MUTATING_METHODS
from .. import events as E
from . import _h_C as H

EXPLANATION = (
  "Decides the structural conditions two-way references need to stay symmetric: record actions "
  "with cell values reach the gateway only as descendants of Engine.convert_action_values (which "
  "runs prepare_new_values on every written column and returns the adjustments, all of which the "
  "two callers apply) or from the enumerated raw sources (R1); "
  "BaseReferenceColumn.prepare_new_values reads the stored values of the same rows, hands old and "
  "new values to get_reverse_adjustments and emits one update per registered reverse column, the "
  "registry being filled in __init__ and emptied in destroy under the same key (R2); every value "
  "written to a reverse column passes that column's _list_to_value, and ReferenceColumn's raises "
  "UniqueReferenceError (an Exception, so the bundle is rolled back) for exactly the lists with "
  "two or more targets, before any return (R3); a type change re-emits the reverse column from "
  "the new column object after the schema action, AddReverseColumn fills the new column after "
  "linking, and the rebuild covers every target row (R4); the containers "
  "get_reverse_adjustments mutates are its own -- locally built, or returned by "
  "ReferenceRelation.get_affected_rows, which in turn returns only the ALL_ROWS marker or a "
  "container built in the call and never stored (R5); that relation -- the source of every "
  "reverse value -- is updated from the stored values read before and after every write "
  "(R6 = C05-R5). Not decided: that the adjusted values are "
  "the symmetric ones (value level).")

BUILTIN_EXCEPTIONS = {"Exception", "ValueError", "TypeError", "KeyError", "LookupError",
                      "RuntimeError", "ArithmeticError", "AssertionError", "AttributeError",
                      "IndexError", "NotImplementedError"}


def check(run, repo, tier):
  V = H.guarded_views
  V(run, repo, r1_who_may_emit, "C11-R1")
  V(run, repo, r2_prepare)
  V(run, repo, r3_unique)
  V(run, repo, r4_rebuild)
  V(run, repo, r5_ownership)
  V(run, repo, r6_reference_index)


def r6_reference_index(run, w):
  # R6 = C05-R5: the reverse values are read from the column's own relation (see
  # get_reverse_adjustments / recalc_from_reverse_values), so symmetry needs that index exact.
  from . import c05
  c05.r5_reference_index(H.RuleAlias(run, {"C05-R5": "C11-R6"}), w)


# --------------------------------------------------------------------------------------- R1

def r1_who_may_emit(run, w, RID, with_adds=False, extras_rule=None):
  run.rule(RID, "record actions with values reach the gateway only through "
           "convert_action_values / enumerated raw sources; convert_action_values runs "
           "prepare_new_values for every written column and its adjustments are all applied",
           floor=18)
  H.who_may_emit(run, w, RID, "a write that skips prepare_new_values skips the reverse-column "
                 "and position adjustments")
  convert_calls_prepare(run, w, RID, with_adds)
  extras_applied(run, w, extras_rule or RID)


def convert_calls_prepare(run, w, RID, with_adds):
  fn = w.fn("engine.Engine.convert_action_values")
  flow = H.Flow(fn)
  cfg = fn.cfg
  p_action = fn.fi.params()[1]
  rets = H.returns_of(fn.node)
  if len(rets) != 1 or not isinstance(rets[0].value, ast.Tuple) or len(rets[0].value.elts) != 2:
    raise AnalysisError("convert_action_values: expected a single `return (action, extras)`")
  ret = rets[0]
  r_action, r_extra = ret.value.elts
  if not isinstance(r_extra, ast.Name) or not isinstance(r_action, ast.Call) or \
      len(r_action.args) != 3 or not isinstance(r_action.args[2], ast.Name):
    raise AnalysisError("convert_action_values: unrecognised return shape %s" % short(ret))
  EX, NV = r_extra.id, r_action.args[2].id
  ok = [text(a) for a in r_action.args[:2]] == [x for x in _unpacked(fn, p_action)[:2]] and \
      text(r_action.func) in ("type(%s)" % p_action, "%s.__class__" % p_action)
  run.ob(RID, fn.qualname, short(ret.value), "the converted action has the type, table and row "
         "ids of the action passed in", ok, fi=fn.fi, node=ret)
  preps = [(n, c) for (n, c, nm) in fn.calls() if isinstance(c.func, ast.Attribute) and
           c.func.attr == "prepare_new_values"]
  if len(preps) < 2:
    raise AnalysisError("convert_action_values: prepare_new_values call sites not found")
  loops = {n.id: n for n in cfg.nodes if n.kind == "for"}
  seen_explicit = False
  for (n, c) in preps:
    loop = _innermost_loop(fn.node, c)
    if loop is None:
      raise AnalysisError("convert_action_values: prepare_new_values outside a column loop")
    lid = [i for i, ln in loops.items() if ln.stmt is loop][0]
    # the adjustments (element 1 of the result) are appended to the returned list in the same
    # iteration, on every path
    ext = set()
    for (m, c2, nm2) in fn.calls():
      if nm2 in (EX + ".extend",) and len(c2.args) == 1:
        rs = flow.roots(c2.args[0], m.id)
        if rs and all(r.kind == "call" and r.node is c and r.path == (("idx", 1),) for r in rs):
          ext.add(m.id)
    ok = bool(ext) and cfg.postdominated_by(n.id, ext, exits={lid, cfg.exit.id})
    wit = None
    if ext and not ok:
      wit = cfg.describe_path(cfg.path(n.id, {lid, cfg.exit.id}, removed=ext, after=True))
    run.ob(RID, fn.qualname, short(c), "the adjustments returned by prepare_new_values are added "
           "to the returned extra actions in the same iteration on every path", ok, witness=wit,
           fi=fn.fi, node=c)
    # row ids handed to the column are the action's row ids
    rs = flow.roots(c.args[0], n.id) if c.args else []
    ok = bool(rs) and all(r.kind == "param" and r.node == p_action and r.path == (("idx", 1),)
                          for r in rs)
    run.ob(RID, fn.qualname, "%s(<row ids>)" % short(c.func), "prepare_new_values receives the "
           "row ids of the action", ok, fi=fn.fi, node=c)
    it_roots = flow.roots(loop.iter, lid)
    explicit = bool(it_roots) and all(
      r.kind == "call" and endswith(dotted(r.node.func) or "", "items") and
      _recv_is(flow, r, ("param", p_action, (("idx", 2),))) for r in it_roots)
    if explicit:
      seen_explicit = True
      g = H.guards_of(fn.node, _stmt_of(fn.node, c))
      run.ob(RID, fn.qualname, "for col_id, values in column_values.items(): prepare_new_values",
             "every column mentioned in the action is prepared, unconditionally", not g,
             witness="; ".join(short(t) for (t, _) in g) or None, fi=fn.fi, node=loop)
      # its new values replace the column's values in the converted action
      st = [s for s in loop.body if isinstance(s, ast.Assign) and
            isinstance(s.targets[0], ast.Subscript) and text(s.targets[0].value) == NV]
      okv = False
      for s in st:
        rs = flow.roots(s.value, flow.node_of(s.value))
        okv = okv or (bool(rs) and all(r.kind == "call" and r.node is c and
                                       r.path == (("idx", 0),) for r in rs))
      run.ob(RID, fn.qualname, "%s[col_id] = <values returned by prepare_new_values>" % NV,
             "the converted action carries the prepared values", okv, fi=fn.fi, node=loop)
    elif with_adds:
      # the loop over all columns for added rows: skipped columns are the enumerated ones only
      g = H.guards_of(fn.node, _stmt_of(fn.node, c))
      allowed = []
      ok = True
      for (t, pol) in g:
        if pol is True and isinstance(t, ast.Call) and dotted(t.func) == "isinstance" and \
            text(t.args[0]) == p_action:
          kinds = {dotted(e).split(".")[-1] for e in
                   (t.args[1].elts if isinstance(t.args[1], ast.Tuple) else [t.args[1]])}
          ok = ok and {"BulkAddRecord", "ReplaceTableData"} <= kinds
          continue
        if pol is False and isinstance(t, ast.BoolOp) and isinstance(t.op, ast.Or):
          for v in t.values:
            tv = text(v)
            if isinstance(v, ast.Compare) and isinstance(v.ops[0], ast.In) or \
                tv.endswith(".is_formula()") or "is_virtual_column(" in tv:
              allowed.append(tv)
            else:
              ok = False
          continue
        ok = False
      it_ok = endswith(text(loop.iter), "all_columns.items()")
      run.ob(RID, fn.qualname, "for col_id, col_obj in table.all_columns.items(): "
             "prepare_new_values(defaults)", "when rows are added every stored column not "
             "mentioned (formula and virtual columns excepted) is prepared with its default, so "
             "position columns allocate distinct positions", ok and it_ok,
             witness="; ".join(short(t) for (t, _) in g), fi=fn.fi, node=loop)
  if not seen_explicit:
    raise AnalysisError("convert_action_values: loop over the action's own columns not found")


def _unpacked(fn, p_action):
  """Names bound by `a, b, c = <p_action>` at the top of the function."""
  for s in fn.node.body:
    if isinstance(s, ast.Assign) and isinstance(s.targets[0], ast.Tuple) and \
        isinstance(s.value, ast.Name) and s.value.id == p_action:
      return [text(e) for e in s.targets[0].elts]
  raise AnalysisError("%s: `x, y, z = %s` not found" % (fn.qualname, p_action))


def _recv_is(flow, r, want):
  """The receiver of call root r (a method call) has the single origin `want`."""
  if not isinstance(r.node.func, ast.Attribute):
    return False
  rs = flow.roots(r.node.func.value, r.nid)
  return bool(rs) and all((x.kind, x.node if isinstance(x.node, str) else None, x.path) == want
                          for x in rs)


def _innermost_loop(fnode, target):
  best = None
  for s in walk_no_nested(fnode):
    if isinstance(s, ast.For) and any(x is target for b in s.body for x in ast.walk(b)):
      if best is None or any(x is s for x in ast.walk(best)):
        best = s
  return best


def _stmt_of(fnode, target):
  best = None
  for s in walk_no_nested(fnode):
    if isinstance(s, ast.stmt) and s is not fnode and any(x is target for x in ast.walk(s)):
      if best is None or any(x is s for x in ast.walk(best)):
        best = s
  if best is None:
    raise AnalysisError("statement of %s not found" % short(target))
  return best


def extras_applied(run, w, RID):
  for q in ("useractions.UserActions.doBulkAddOrReplace",
            "useractions.UserActions.doBulkUpdateRecord"):
    fn = w.fn(q)
    flow = H.Flow(fn)
    cfg = fn.cfg
    main = set()
    for (n, c, nm) in fn.calls():
      if E.is_strict_gateway_call(c, nm, fn) and len(c.args) == 1:
        rs = flow.roots(c.args[0], n.id)
        if any(r.kind == "call" and (H._is_convert(r.node, flow.call_name(r.node)) or
                                     endswith(flow.call_name(r.node), "trim_update_action"))
               for r in rs):
          main.add(n.id)
    if not main:
      raise AnalysisError("%s: emission of the converted action not found" % q)
    loops = set()
    for n in cfg.nodes:
      if n.kind != "for" or not isinstance(n.stmt.target, ast.Name):
        continue
      rs = flow.roots(n.stmt.iter, n.id)
      if not (rs and all(r.kind == "call" and H._is_convert(r.node, flow.call_name(r.node)) and
                         r.path == (("idx", 1),) for r in rs)):
        continue
      lv = n.stmt.target.id
      body_calls = [c for c in calls_in(n.stmt.body)
                    if endswith(fn.name(c), "_do_extra_doc_action") and len(c.args) == 1 and
                    isinstance(c.args[0], ast.Name) and c.args[0].id == lv]
      if body_calls and not [g for c in body_calls
                             for g in H.guards_of(fn.node, _stmt_of(fn.node, c))
                             if any(x is g[0] for x in ast.walk(n.stmt))]:
        loops.add(n.id)
    ok = bool(loops) and all(cfg.dominated_by(m, loops) for m in main) and \
        not (cfg.reach_after(main) & loops)
    wit = None
    if loops and not ok:
      for m in main:
        p = cfg.path(cfg.entry.id, {m}, removed=loops)
        if p:
          wit = cfg.describe_path(p)
    run.ob(RID, q, "for a in extra_actions: self._do_extra_doc_action(a)  ->  "
           "self._do_doc_action(action)", "every adjustment returned by convert_action_values is "
           "applied, each one unconditionally, on every path before the action it belongs to",
           ok, witness=wit, fi=fn.fi)


# --------------------------------------------------------------------------------------- R2

def _single(lst, what):
  if len(lst) != 1:
    raise AnalysisError("%s: expected exactly one, found %d" % (what, len(lst)))
  return lst[0]


def r2_prepare(run, w):
  R2 = run.rule("C11-R2", "BaseReferenceColumn.prepare_new_values: stored values of the same "
                "rows are the old values, one update per registered reverse column; registry "
                "add/remove pairing", floor=9)
  fn = w.fn("column.BaseReferenceColumn.prepare_new_values")
  flow = H.Flow(fn)
  ps = fn.fi.params()
  p_rows, p_vals = ps[1], ps[2]
  # registry lookup
  look = [(n, c) for (n, c, nm) in fn.calls() if isinstance(c.func, ast.Attribute) and
          c.func.attr == "get" and isinstance(c.func.value, ast.Attribute) and
          c.func.value.attr.startswith("_reverse_cols")]
  (ln, lc) = _single(look, "prepare_new_values: reverse-column registry lookup")
  reg_attr = lc.func.value.attr
  init = w.fn("column.BaseReferenceColumn.__init__")
  dest = w.fn("column.BaseReferenceColumn.destroy")
  adds = [c for (n, c, nm) in init.calls() if nm == "_multimap_add"]
  rems = [c for (n, c, nm) in dest.calls() if nm == "_multimap_remove"]
  add = _single(adds, "BaseReferenceColumn.__init__: _multimap_add")
  ok = len(add.args) == 3 and isinstance(add.args[0], ast.Attribute) and \
      add.args[0].attr == reg_attr and text(add.args[0].value) == "self._table" and \
      text(add.args[2]) == "self" and text(lc.func.value.value) == "self._target_table" and \
      text(lc.args[0]) == "self.node"
  # the registration key is the type's reverse source node
  iflow = H.Flow(init)
  key_ok = False
  if ok and H.is_self_attr(add.args[1]):
    src = [s for s in walk_no_nested(init.node) if isinstance(s, ast.Assign) and
           text(s.targets[0]) == text(add.args[1])]
    key_ok = len(src) == 1 and isinstance(src[0].value, ast.Call) and \
        endswith(dotted(src[0].value.func), "type_obj.reverse_source_node")
  run.ob(R2, fn.qualname, "%s.get(self.node)  <->  _multimap_add(self._table.%s, "
         "<reverse source node>, self)" % (text(lc.func.value), reg_attr),
         "the column looks for its reverse columns in the target table's registry under its own "
         "node; a reverse column registers itself in its own table under the node it reverses",
         ok and key_ok, fi=fn.fi, node=lc)
  ok = len(rems) == 1 and [text(a) for a in rems[0].args] == [text(a) for a in add.args]
  if ok:
    ga = [(text(t), p) for (t, p) in H.guards_of(init.node, _stmt_of(init.node, add))]
    gr = [(text(t), p) for (t, p) in H.guards_of(dest.node, _stmt_of(dest.node, rems[0]))]
    ok = ga == gr
  run.ob(R2, dest.qualname, "_multimap_remove(<same registry>, <same key>, self)",
         "a destroyed column leaves the registry under the same condition and key it entered",
         ok, fi=dest.fi)
  ma = w.fn("column._multimap_add")
  pa = ma.fi.params()
  ok = any(isinstance(c.func, ast.Attribute) and c.func.attr == "append" and
           text(c.args[0]) == pa[2] and isinstance(c.func.value, ast.Call) and
           text(c.func.value.func) == pa[0] + ".setdefault" and
           text(c.func.value.args[0]) == pa[1] for c in calls_in(ma.node))
  run.ob(R2, ma.qualname, "mapping.setdefault(key, []).append(value)",
         "registration keeps every reverse column of a node", ok, fi=ma.fi)
  # the adjustment computation
  gra = [(n, c) for (n, c, nm) in fn.calls() if endswith(nm, "get_reverse_adjustments")]
  (gn, gc) = _single(gra, "prepare_new_values: get_reverse_adjustments call")
  callee = w.fn("reverse_references.get_reverse_adjustments")
  b = H.bind_args(gc, callee.fi, skip_self=False)
  cp = callee.fi.params()
  if len(cp) != 5:
    raise AnalysisError("get_reverse_adjustments: parameter list changed")
  rs = flow.roots(b[cp[0]], gn.id)
  run.ob(R2, fn.qualname, "get_reverse_adjustments(%s, ...)" % p_rows,
         "adjustments are computed for the rows being written",
         bool(rs) and all(r.kind == "param" and r.node == p_rows and not r.path for r in rs),
         fi=fn.fi, node=gc)
  rs = flow.roots(b[cp[1]], gn.id)
  ok = bool(rs)
  for r in rs:
    okr = r.kind == "comp" and not r.path and isinstance(r.node, ast.ListComp) and \
        len(r.node.generators) == 1 and not r.node.generators[0].ifs
    if okr:
      g = r.node.generators[0]
      it = flow.roots(g.iter, r.nid)
      okr = all(x.kind == "param" and x.node == p_rows and not x.path for x in it) and \
          isinstance(r.node.elt, ast.Call) and \
          text(r.node.elt.func) in ("self.raw_get", "self.safe_get") and \
          [text(a) for a in r.node.elt.args] == [text(g.target)]
    ok = ok and okr
  run.ob(R2, fn.qualname, "old_values = [self.raw_get(r) for r in %s]" % p_rows,
         "the old values are the values stored for exactly the rows being written, read before "
         "the write", ok, fi=fn.fi, node=gc)
  newv = b[cp[2]]
  du = flow.du
  from_param = du.flows_from(lambda x: isinstance(x, ast.Name) and x.id == p_vals and
                             isinstance(x.ctx, ast.Load), newv)
  from_store = any(r.kind == "comp" and isinstance(r.node.elt, ast.Call) and
                   text(r.node.elt.func) in ("self.raw_get", "self.safe_get")
                   for r in flow.roots(newv, gn.id))
  run.ob(R2, fn.qualname, "get_reverse_adjustments(..., <new values>, ...)",
         "the new values are the values being written (not stored ones)",
         from_param and not from_store and text(newv) != text(b[cp[1]]), fi=fn.fi, node=gc)
  run.ob(R2, fn.qualname, "value_iterator=%s, relation=%s" % (text(b[cp[3]]), text(b[cp[4]])),
         "targets are enumerated with this column's own iterator and looked up in this column's "
         "own relation", text(b[cp[3]]) == "self._value_iterable" and
         text(b[cp[4]]) == "self._relation", fi=fn.fi, node=gc)
  # reverse_cols variable and the emission loop
  rc_assign = [s for s in walk_no_nested(fn.node) if isinstance(s, ast.Assign) and
               s.value is lc and isinstance(s.targets[0], ast.Name)]
  RC = _single(rc_assign, "prepare_new_values: reverse_cols assignment").targets[0].id
  ra_assign = [s for s in walk_no_nested(fn.node) if isinstance(s, ast.Assign) and
               s.value is gc and isinstance(s.targets[0], ast.Name)]
  RA = _single(ra_assign, "prepare_new_values: reverse_adjustments assignment").targets[0].id
  gg = [(text(t), p) for (t, p) in H.guards_of(fn.node, ra_assign[0])]
  run.ob(R2, fn.qualname, "if %s: ... get_reverse_adjustments" % RC,
         "adjustments are computed whenever a reverse column is registered",
         gg == [(RC, True)], witness=repr(gg), fi=fn.fi, node=gc)
  rets = H.returns_of(fn.node)
  ok_ret = len(rets) == 1 and isinstance(rets[0].value, ast.Tuple) and \
      len(rets[0].value.elts) == 2 and isinstance(rets[0].value.elts[1], ast.Name)
  ADJ = rets[0].value.elts[1].id if ok_ret else None
  emit_ok = False
  wit = None
  for s in walk_no_nested(fn.node):
    if not (isinstance(s, ast.For) and isinstance(s.target, ast.Name)):
      continue
    if not (isinstance(s.iter, ast.Name) and s.iter.id == RC):
      if RC in {x.id for x in ast.walk(s.iter) if isinstance(x, ast.Name)}:
        wit = "loop iterates %s, not every registered reverse column" % short(s.iter)
      continue
    lv = s.target.id
    for c in calls_in(s.body):
      if fn.name(c) == "%s.append" % ADJ and len(c.args) == 1 and \
          isinstance(c.args[0], ast.Call) and dotted(c.args[0].func) == "_adjustments_to_action":
        a2a = c.args[0]
        g = [(text(t), p) for (t, p) in H.guards_of(fn.node, _stmt_of(fn.node, c))]
        if g == [(RC, True), (RA, True)] and text(a2a.args[0]) == lv + ".node" and \
            _pairs_through_list_to_value(a2a.args[1], lv, RA):
          emit_ok = True
        else:
          wit = "guards %r / pairs %s" % (g, short(a2a.args[1]))
  run.ob(R2, fn.qualname, "for reverse_col in %s: %s.append(_adjustments_to_action("
         "reverse_col.node, ...))" % (RC, ADJ), "one update action per registered reverse "
         "column, covering every adjusted target row, returned to the caller", emit_ok and ok_ret,
         witness=wit, fi=fn.fi)
  # overrides delegate to the base implementation for the same rows
  base = w.repo.cls("column.BaseReferenceColumn")
  for ci in w.repo.subclasses(base, strict=True):
    m = ci.methods.get("prepare_new_values")
    if m is None:
      continue
    mfn = w.fn_of(m)
    mps = m.params()
    rets = H.returns_of(m.node)
    ok = bool(rets)
    for r in rets:
      v = r.value
      okr = isinstance(v, ast.Call) and isinstance(v.func, ast.Attribute) and \
          v.func.attr == "prepare_new_values" and isinstance(v.func.value, ast.Call) and \
          dotted(v.func.value.func) == "super" and len(v.args) >= 2 and \
          text(v.args[0]) == mps[1]
      if okr:
        okr = H.Flow(mfn).du.flows_from(
          lambda x: isinstance(x, ast.Name) and x.id == mps[2], v.args[1])
      ok = ok and okr
    run.ob(R2, m.qualname, "return super().prepare_new_values(%s, <values>, ...)" % mps[1],
           "every override ends in the base implementation for the same rows (the only place "
           "reverse adjustments are made)", ok, fi=m)


def _pairs_through_list_to_value(pairs, colvar, src):
  """[(row_id, <colvar>._list_to_value(value)) for (row_id, value) in <src>]"""
  if not (isinstance(pairs, ast.ListComp) and len(pairs.generators) == 1):
    return False
  g = pairs.generators[0]
  if g.ifs or not (isinstance(g.iter, ast.Name) and g.iter.id == src):
    return False
  if not (isinstance(g.target, ast.Tuple) and len(g.target.elts) == 2 and
          all(isinstance(e, ast.Name) for e in g.target.elts)):
    return False
  rid, val = [e.id for e in g.target.elts]
  e = pairs.elt
  return isinstance(e, ast.Tuple) and len(e.elts) == 2 and text(e.elts[0]) == rid and \
      isinstance(e.elts[1], ast.Call) and text(e.elts[1].func) == colvar + "._list_to_value" and \
      [text(a) for a in e.elts[1].args] == [val]


# --------------------------------------------------------------------------------------- R3

class _LenSubst(ast.NodeTransformer):
  def __init__(self, param):
    self.param = param
    self.other = False

  def visit_Call(self, node):
    if dotted(node.func) == "len" and len(node.args) == 1 and \
        isinstance(node.args[0], ast.Name) and node.args[0].id == self.param:
      return ast.copy_location(ast.Name(id="__len__", ctx=ast.Load()), node)
    self.other = True
    return node


def r3_unique(run, w):
  R3 = run.rule("C11-R3", "ReferenceColumn._list_to_value raises UniqueReferenceError exactly for "
                "lists of two or more targets, before any return; the error is an Exception; "
                "every reverse-column write passes _list_to_value", floor=4)
  fn = w.fn("column.ReferenceColumn._list_to_value")
  cfg = fn.cfg
  p = fn.fi.params()[1]
  err = w.repo.cls("column.UniqueReferenceError")
  rejecting = {}
  for n in cfg.nodes:
    if n.kind != "if":
      continue
    raises = [s for s in n.stmt.body if isinstance(s, ast.Raise)]
    if not raises or n.stmt.body[-1] is not raises[-1]:
      continue
    exc = raises[-1].exc
    cname = dotted(exc.func) if isinstance(exc, ast.Call) else dotted(exc)
    ci = w.repo.resolve_class_name(fn.fi.module, cname)
    if ci is not err:
      continue
    sub = _LenSubst(p)
    test = sub.visit(copy.deepcopy(n.stmt.test))
    if sub.other:
      raise AnalysisError("_list_to_value: rejecting test is not a pure length test: %s"
                          % short(n.stmt.test))
    rejecting[n.id] = cond_set(test, "__len__").intersect(IntSet([(0, INF)]))
  if not rejecting:
    run.ob(R3, fn.qualname, "if len(%s) > 1: raise UniqueReferenceError" % p,
           "a single-valued reference side is never given two targets", False, fi=fn.fi)
  else:
    tot = IntSet()
    for s in rejecting.values():
      tot = tot.union(s)
    want = IntSet([(2, INF)])
    run.ob(R3, fn.qualname, "rejected lengths = %r" % tot,
           "exactly the lists with two or more targets are rejected (none accepted, and a single "
           "target is never refused)", want.subset_of(tot) and tot.subset_of(want), fi=fn.fi)
    rets = [n.id for n in cfg.nodes if n.kind == "return"]
    ok = bool(rets) and all(cfg.dominated_by(r, set(rejecting)) for r in rets)
    wit = None
    if not ok:
      for r in rets:
        pth = cfg.path(cfg.entry.id, {r}, removed=set(rejecting))
        if pth:
          wit = cfg.describe_path(pth)
    run.ob(R3, fn.qualname, "length test dominates every return",
           "no value is produced for the Ref cell before the uniqueness test", ok, witness=wit,
           fi=fn.fi)
  bases = set()
  for c in w.repo.mro(err):
    bases |= {b for b in c.base_names if b}
  run.ob(R3, err.qualname, "class UniqueReferenceError(%s)" % ", ".join(err.base_names),
         "the rejection is an Exception, so apply_user_actions' catch-all rolls the bundle back",
         bool(bases & BUILTIN_EXCEPTIONS), nontrivial=False)
  # every action built for a reverse column converts each value with that column's _list_to_value
  n_sites = 0
  for q in ("column.BaseReferenceColumn.prepare_new_values",
            "column.BaseReferenceColumn.recalc_from_reverse_values"):
    f2 = w.fn(q)
    for c in calls_in(f2.node):
      if dotted(c.func) == "_adjustments_to_action" and len(c.args) == 2:
        n_sites += 1
        a0 = c.args[0]
        colvar = text(a0.value) if isinstance(a0, ast.Attribute) and a0.attr == "node" else None
        pairs = c.args[1]
        ok = colvar is not None and isinstance(pairs, ast.ListComp) and \
            isinstance(pairs.generators[0].iter, ast.Name) and \
            _pairs_through_list_to_value(pairs, colvar, pairs.generators[0].iter.id)
        run.ob(R3, q, short(c), "every value written to the reverse column is produced by that "
               "same column's _list_to_value (where the uniqueness test lives)", ok, fi=f2.fi,
               node=c)
  if n_sites < 2:
    raise AnalysisError("reverse-column emission sites (_adjustments_to_action) not found")


# --------------------------------------------------------------------------------------- R4

def r4_rebuild(run, w):
  R4 = run.rule("C11-R4", "reverse column is rebuilt after a type change (from the new column "
                "object, after the schema action) and filled after linking; the rebuild covers "
                "every target row", floor=6)
  names = set(w.doc_action_names())
  # doModifyColumn
  fn = w.fn("useractions.UserActions.doModifyColumn")
  flow = H.Flow(fn)
  cfg = fn.cfg
  p_info = fn.fi.params()[3]
  mod = set()
  for (n, c, nm) in fn.calls():
    if E.is_strict_gateway_call(c, nm, fn) and c.args:
      k = E.action_ctor(c.args[0], names)
      if k and k[0] == "ModifyColumn":
        mod.add(n.id)
  rec = [(n, c) for (n, c, nm) in fn.calls() if endswith(nm, "recalc_from_reverse_values")]
  if not mod:
    raise AnalysisError("doModifyColumn: ModifyColumn emission not found")
  def is_type_test(t):
    return isinstance(t, ast.Compare) and len(t.ops) == 1 and isinstance(t.ops[0], ast.In) and \
        isinstance(t.left, ast.Constant) and t.left.value == "type" and \
        text(t.comparators[0]) == p_info
  ok = False
  wit = None
  if rec:
    (rn, rc) = rec[0]
    # the if-statements after the schema action that enclose the rebuild
    encl = [n for n in cfg.nodes if n.kind == "if" and
            any(y is rc for st in n.stmt.body + n.stmt.orelse for y in ast.walk(st)) and
            all(cfg.dominated_by(n.id, {m}) for m in mod)]
    if not encl:
      # unconditional rebuild after the schema action: covers the type-change case
      ok = all(cfg.postdominated_by(m, {rn.id}) for m in mod)
    elif len(encl) == 1 and is_type_test(encl[0].stmt.test) and \
        any(y is rc for st in encl[0].stmt.body for y in ast.walk(st)):
      t = encl[0]
      ok = all(cfg.postdominated_by(m, {t.id}) for m in mod)
      if not ok:
        for m in mod:
          pth = cfg.path(m, {cfg.exit.id}, removed={t.id}, after=True)
          if pth:
            wit = cfg.describe_path(pth)
    else:
      over = [n for n in encl if isinstance(n.stmt.test, ast.BoolOp) and
              isinstance(n.stmt.test.op, ast.And) and
              any(is_type_test(v) for v in n.stmt.test.values)] + \
             [n for n in encl if not is_type_test(n.stmt.test) and
              "type" not in [c.value for c in ast.walk(n.stmt.test)
                             if isinstance(c, ast.Constant)]]
      def value_dependent(t):
        # a predicate on the *value* of the new type (prefix test, equality, membership)
        for x in ast.walk(t):
          if isinstance(x, ast.Call) and isinstance(x.func, ast.Attribute) and \
              x.func.attr in ("startswith", "endswith") and \
              "type" in [c.value for c in ast.walk(x.func.value) if isinstance(c, ast.Constant)]:
            return True
          if isinstance(x, ast.Compare) and isinstance(x.ops[0], (ast.Eq, ast.NotEq)) and \
              "type" in [c.value for c in ast.walk(x) if isinstance(c, ast.Constant)]:
            return True
        return False
      valdep = [n for n in encl if value_dependent(n.stmt.test)]
      if over:
        wit = "also guarded by: " + "; ".join(short(n.stmt.test) for n in over)
      elif valdep:
        wit = "rebuild depends on the value of the new type: " + \
            "; ".join(short(n.stmt.test) for n in valdep)
      else:
        raise AnalysisError("doModifyColumn: cannot interpret the guard of the reverse-column "
                            "rebuild: %s" % "; ".join(short(n.stmt.test) for n in encl))
  run.ob(R4, fn.qualname, "ModifyColumn -> if 'type' in %s: recalc_from_reverse_values()" % p_info,
         "whenever the type of a column changed, every normal path after the schema action "
         "reaches the rebuild of its reverse column, guarded by nothing else", ok, witness=wit,
         fi=fn.fi)
  for (rn, rc) in rec:
    rs = flow.roots(rc.func.value, rn.id)
    ok = bool(rs) and all(r.kind == "call" and isinstance(r.node.func, ast.Attribute) and
                          r.node.func.attr == "get_column" and
                          not r.path and all(cfg.dominated_by(r.nid, {m}) for m in mod)
                          for r in rs)
    run.ob(R4, fn.qualname, short(rc), "the rebuild is asked of the column object created by the "
           "schema action (fetched after it), not of the destroyed one", ok, fi=fn.fi, node=rc)
    _result_emitted(run, R4, fn, flow, rn, rc)
  # AddReverseColumn
  fn = w.fn("useractions.UserActions.AddReverseColumn")
  flow = H.Flow(fn)
  cfg = fn.cfg
  link = {n.id for (n, c, nm) in fn.calls() if endswith(nm, "_docmodel.update") and
          any(k.arg == "reverseCol" for k in c.keywords)}
  rec = [(n, c) for (n, c, nm) in fn.calls() if endswith(nm, "recalc_from_reverse_values")]
  if not link:
    raise AnalysisError("AddReverseColumn: linking update (reverseCol=...) not found")
  ok = bool(rec) and all(cfg.dominated_by(n.id, link) for (n, c) in rec) and \
      all(cfg.postdominated_by(l, {n.id for (n, c) in rec}) for l in link)
  run.ob(R4, fn.qualname, "update(reverseCol=...) -> recalc_from_reverse_values()",
         "after the two columns are linked the new column is filled from the existing one on "
         "every path", ok, fi=fn.fi)
  p_col = fn.fi.params()[2]
  for (rn, rc) in rec:
    rs = flow.roots(rc.func.value, rn.id)
    ok = bool(rs) and all(r.kind == "call" and isinstance(r.node.func, ast.Attribute) and
                          r.node.func.attr == "get_column" and not r.path and
                          [text(a) for a in r.node.args] == [p_col] for r in rs)
    run.ob(R4, fn.qualname, short(rc), "the fill is computed from the existing (source) column",
           ok, fi=fn.fi, node=rc)
    _result_emitted(run, R4, fn, flow, rn, rc)
  # the rebuild itself
  fn = w.fn("column.BaseReferenceColumn.recalc_from_reverse_values")
  flow = H.Flow(fn)
  loops = [s for s in walk_no_nested(fn.node) if isinstance(s, ast.For) and
           text(H.strip_passthrough(s.iter)) == "self._target_table.row_ids" and
           isinstance(s.target, ast.Name)]
  ok = False
  if len(loops) == 1:
    lv = loops[0].target.id
    reads = [c for c in calls_in(loops[0].body)
             if text(c.func) == "self._relation.get_affected_rows" and len(c.args) == 1 and
             isinstance(c.args[0], ast.Tuple) and [text(e) for e in c.args[0].elts] == [lv]]
    apps = [c for c in calls_in(loops[0].body) if isinstance(c.func, ast.Attribute) and
            c.func.attr == "append" and len(c.args) == 1 and isinstance(c.args[0], ast.Tuple) and
            text(c.args[0].elts[0]) == lv]
    ok = bool(reads) and bool(apps) and \
        not any(isinstance(s, (ast.If, ast.Continue, ast.Break)) for b in loops[0].body
                for s in ast.walk(b))
  run.ob(R4, fn.qualname, "for target_row_id in self._target_table.row_ids: "
         "get_affected_rows((target_row_id,))", "the rebuild recomputes the reverse cell of every "
         "row of the target table from this column's relation", ok, fi=fn.fi)
  a2a = [c for c in calls_in(fn.node) if dotted(c.func) == "_adjustments_to_action"]
  ok = False
  if len(a2a) == 1 and isinstance(a2a[0].args[0], ast.Attribute):
    nid = flow.node_of(a2a[0])
    rs = flow.roots(a2a[0].args[0].value, nid)
    ok = bool(rs)
    for r in rs:
      okr = r.kind == "call" and text(r.node.func) == "self._target_table.get_column" and \
          len(r.node.args) == 1
      if okr:
        ks = flow.roots(r.node.args[0], r.nid)
        okr = bool(ks) and all(k.kind == "param" and k.node == "self" and
                               k.path == (("attr", "_reverse_source_node"), ("idx", 1))
                               for k in ks)
      ok = ok and okr
  run.ob(R4, fn.qualname, "reverse_col = self._target_table.get_column(<col id of "
         "self._reverse_source_node>)", "the rebuilt column is the registered reverse column in "
         "the target table", ok, fi=fn.fi)


def _result_emitted(run, R4, fn, flow, rn, rc):
  cfg = fn.cfg
  emits = set()
  for (n, c, nm) in fn.calls():
    if E.is_strict_gateway_call(c, nm, fn) and len(c.args) == 1:
      rs = flow.roots(c.args[0], n.id)
      if rs and all(r.kind == "call" and r.node is rc and not r.path for r in rs):
        emits.add(n.id)
  ok = bool(emits) and (rn.id in emits or cfg.postdominated_by(rn.id, emits))
  run.ob(R4, fn.qualname, "self._do_doc_action(<%s>)" % short(rc),
         "the rebuilt values are emitted through the gateway on every path", ok, fi=fn.fi,
         node=rc)


# --------------------------------------------------------------------------------------- R5

FRESH_CALLS = ("set", "list", "dict", "sorted", "frozenset", "tuple", "defaultdict",
               "collections.defaultdict", "OrderedDict", "collections.OrderedDict", "SortedSet")
FRESH_METHODS = ("copy", "union", "difference", "intersection", "symmetric_difference")
PROJECTING_METHODS = ("items", "values", "keys", "get", "setdefault", "pop")


def _owner(flow, r, module, depth=0):
  """Classify one origin of a mutated/returned container: ('fresh'|'sentinel'|'immutable'|
  'state'|'param'|'callee'|'unknown', detail)."""
  if depth > 8:
    return ("unknown", r)
  if r.kind in ("lit", "comp"):
    if isinstance(r.node, ast.Tuple) and not r.path:
      return ("immutable", r)
    return ("fresh", r)
  if r.kind == "const":
    return ("immutable", r)
  if r.kind == "global":
    if r.path and r.path[-1] == ("attr", "ALL_ROWS"):
      return ("sentinel", r)
    return ("unknown", r)
  if r.kind == "param":
    if r.node == "self":
      return ("state", r)
    return ("param", r)
  if r.kind == "call":
    f = r.node.func
    d = dotted(f)
    if d in FRESH_CALLS:
      return ("fresh", r)
    if d is not None and "." not in d and d in module.classes:
      return ("fresh", r)       # instance of a class of this module built here
    if isinstance(f, ast.Attribute):
      if f.attr in FRESH_METHODS and not r.path:
        return ("fresh", r)
      if f.attr in PROJECTING_METHODS:
        kinds = [_owner(flow, x, module, depth + 1) for x in flow.roots(f.value, r.nid)]
        # .get(key, default) / .setdefault(key, default) may also hand back the default
        if f.attr in ("get", "setdefault", "pop") and len(r.node.args) > 1:
          kinds += [_owner(flow, x, module, depth + 1)
                    for x in flow.roots(r.node.args[1], r.nid)]
        order = ["state", "param", "callee", "unknown", "fresh", "immutable", "sentinel"]
        kinds.sort(key=lambda k: order.index(k[0]))
        return kinds[0] if kinds else ("unknown", r)
      return ("callee", r)
    return ("unknown", r)
  return ("unknown", r)


def r5_ownership(run, w):
  R5 = run.rule("C11-R5", "get_reverse_adjustments mutates only containers it owns; "
                "ReferenceRelation.get_affected_rows hands out the ALL_ROWS marker or a container "
                "built in the call, never one stored in the relation", floor=5)
  fn = w.fn("reverse_references.get_reverse_adjustments")
  flow = H.Flow(fn, passthrough=False)     # list(x)/sorted(x) are copies here, not aliases
  mod = fn.fi.module
  callee_sites = []
  sites = []
  for (n, c, nm) in fn.calls():
    if isinstance(c.func, ast.Attribute) and c.func.attr in MUTATING_METHODS:
      sites.append((n, c, c.func.value))
  for n in fn.cfg.nodes:
    if n.kind == "stmt" and isinstance(n.stmt, (ast.Assign, ast.AugAssign, ast.Delete)):
      tg = n.stmt.targets if not isinstance(n.stmt, ast.AugAssign) else [n.stmt.target]
      for t in tg:
        if isinstance(t, (ast.Subscript, ast.Attribute)):
          sites.append((n, t, t.value))
  if not sites:
    raise AnalysisError("get_reverse_adjustments: no container mutation found")
  for (n, c, recv) in sites:
    kinds = [_owner(flow, r, mod) for r in flow.roots(recv, n.id)]
    bad = [k for k in kinds if k[0] in ("state", "param", "sentinel", "immutable")]
    unk = [k for k in kinds if k[0] == "unknown"]
    if unk and not bad:
      raise AnalysisError("get_reverse_adjustments: cannot tell who owns %s (%r)"
                          % (short(recv), unk[0][1]))
    for k in kinds:
      if k[0] == "callee":
        callee_sites.append((n, c, k[1]))
    run.ob(R5, fn.qualname, short(c), "the container edited in place was built in this call or "
           "handed over as a fresh copy -- never a parameter or another object's state",
           not bad and bool(kinds), witness="; ".join("%s: %r" % k for k in bad) or None,
           fi=fn.fi, node=c)
  # containers obtained from a callee: the callee must guarantee freshness
  p_rel = fn.fi.params()[4]
  need = []
  for (n, c, r) in callee_sites:
    f = r.node.func
    recv = flow.roots(f.value, r.nid)
    if not (recv and all(x.kind == "param" and x.node == p_rel and not x.path for x in recv)):
      raise AnalysisError("get_reverse_adjustments: mutated container comes from unrecognised "
                          "call %s" % short(r.node))
    need.append(f.attr)
  for meth in sorted(set(need)):
    classes = _relation_classes(w, fn, p_rel)
    for ci in classes:
      m = w.repo.find_method(ci, meth)
      if m is None:
        raise AnalysisError("%s has no method %s" % (ci.qualname, meth))
      _fresh_returns(run, R5, w, m)


def _relation_classes(w, callee, pname):
  """Classes of the objects passed as `pname` at the call sites of `callee` (who-may-call)."""
  out = {}
  short_name = callee.fi.name
  for fi in w.repo.all_functions():
    fn = w.fn_of(fi)
    for (n, c, nm) in fn.calls():
      if nm is not None and (nm == short_name or nm.endswith("." + short_name)):
        b = H.bind_args(c, callee.fi, skip_self=False)
        if pname not in b:
          raise AnalysisError("%s: call %s does not pass %s" % (fi.qualname, short(c), pname))
        t = fn.type_of(b[pname])
        ci = w.repo.classes.get(t) if t else None
        if ci is None:
          raise AnalysisError("%s: cannot type %s passed as %s" % (fi.qualname,
                                                                   short(b[pname]), pname))
        out[ci.qualname] = ci
        for sub in w.repo.subclasses(ci, strict=True):
          out[sub.qualname] = sub
  if not out:
    raise AnalysisError("no call site of %s found" % callee.qualname)
  return [out[k] for k in sorted(out)]


def _fresh_returns(run, R5, w, m):
  fn = w.fn_of(m)
  flow = H.Flow(fn, passthrough=False)
  cfg = fn.cfg
  rets = [n for n in cfg.nodes if n.kind == "return"]
  if not rets:
    raise AnalysisError("%s: no return" % m.qualname)
  for n in rets:
    v = n.stmt.value
    if v is None:
      run.ob(R5, m.qualname, "return", "returns a container", False, fi=m, node=n.stmt)
      continue
    kinds = [_owner(flow, r, m.module) for r in flow.roots(v, n.id)]
    unk = [k for k in kinds if k[0] in ("unknown", "callee")]
    bad = [k for k in kinds if k[0] in ("state", "param")]
    if unk and not bad:
      raise AnalysisError("%s: cannot decide whether %s is a fresh container (%r)"
                          % (m.qualname, short(v), unk[0][1]))
    stored = None
    if isinstance(v, ast.Name):
      stored = _stored_into_state(fn, v.id)
    ok = bool(kinds) and not bad and stored is None
    wit = "; ".join("%s: %r" % k for k in bad) or stored
    run.ob(R5, m.qualname, short(n.stmt), "the value handed to callers (who edit it in place) is "
           "the ALL_ROWS marker or a container built in this call -- not an entry of "
           "self.inverse_map, not the caller's argument, and not kept by the relation", ok,
           witness=wit, fi=m, node=n.stmt)


def _stored_into_state(fn, name):
  """Text of a statement that stores local `name` into something reachable from self."""
  for s in walk_no_nested(fn.node):
    if isinstance(s, ast.Assign) and isinstance(s.value, ast.Name) and s.value.id == name:
      for t in s.targets:
        root = t
        while isinstance(root, (ast.Attribute, ast.Subscript)):
          root = root.value
        if isinstance(t, (ast.Attribute, ast.Subscript)) and isinstance(root, ast.Name) and \
            root.id == "self":
          return short(s)
    if isinstance(s, ast.Call) and isinstance(s.func, ast.Attribute) and \
        s.func.attr in ("setdefault", "append", "add", "insert", "update", "__setitem__") and \
        any(isinstance(a, ast.Name) and a.id == name for a in s.args):
      root = s.func.value
      while isinstance(root, (ast.Attribute, ast.Subscript, ast.Call)):
        root = root.func if isinstance(root, ast.Call) else root.value
      if isinstance(root, ast.Name) and root.id == "self":
        return short(s)
  return None


U = "sandbox/grist/useractions.py"
CO = "sandbox/grist/column.py"
RL = "sandbox/grist/relation.py"
RR = "sandbox/grist/reverse_references.py"
EN = "sandbox/grist/engine.py"
VARIANTS = [
  # known realistic breakage (seeded): single-row fast path hands out the live index entry
  ("affected-rows-live-set", RL,
   """    if input_rows == depend.ALL_ROWS:
      return depend.ALL_ROWS
    affected_rows = set()
    for target_row_id in input_rows:
      affected_rows.update(self.inverse_map.get(target_row_id, ()))""",
   """    if input_rows == depend.ALL_ROWS:
      return depend.ALL_ROWS
    if len(input_rows) == 1:
      # The overwhelmingly common case is a single changed row; there is nothing to union then.
      (target_row_id,) = input_rows
      return self.inverse_map.get(target_row_id) or set()
    affected_rows = set()
    for target_row_id in input_rows:
      affected_rows.update(self.inverse_map.get(target_row_id, ()))""", "C11-R5"),
  ("affected-rows-cached", RL,
   "      affected_rows.update(self.inverse_map.get(target_row_id, ()))\n    return affected_rows",
   "      affected_rows.update(self.inverse_map.get(target_row_id, ()))\n"
   "    self._last_affected = affected_rows\n    return affected_rows", "C11-R5"),
  ("adjustments-edit-live-index", RR,
   "    reverse_value = relation.get_affected_rows((target_row_id,))",
   "    reverse_value = relation.inverse_map.setdefault(target_row_id, set())", "C11-R5"),
  ("update-skips-conversion", U,
   """    action, extra_actions = self._engine.convert_action_values(
      actions.BulkUpdateRecord(table_id, row_ids, columns))
    action = [""",
   """    action, extra_actions = actions.BulkUpdateRecord(table_id, row_ids, columns), []
    action = [""", "C11-R1"),
  ("update-drops-extra-actions", U,
   """    for a in extra_actions:
      self._do_extra_doc_action(a)

    # Finally, update the record""",
   """    # Finally, update the record""", "C11-R1"),
  ("convert-drops-adjustments", EN,
   """      extra_actions.extend(adjustments)

      new_values[col_id] = nvalues""",
   """      new_values[col_id] = nvalues""", "C11-R1"),
  ("convert-adjusts-only-refs", EN,
   """      nvalues, adjustments = col_obj.prepare_new_values(row_ids, values,
          action_summary=self.out_actions.summary)
      extra_actions.extend(adjustments)

      new_values[col_id] = nvalues""",
   """      nvalues, adjustments = col_obj.prepare_new_values(row_ids, values,
          action_summary=self.out_actions.summary)
      if nvalues != values:
        extra_actions.extend(adjustments)

      new_values[col_id] = nvalues""", "C11-R1"),
  ("raw-update-from-pairs", U,
   "    return self.doBulkUpdateRecord(table_id, row_ids, make_bulk_values_dict(record_values_pairs))",
   "    return self._do_doc_action(actions.BulkUpdateRecord(\n"
   "      table_id, row_ids, make_bulk_values_dict(record_values_pairs)))", "C11-R1"),
  ("old-values-from-new", CO,
   "      old_values = [self.raw_get(r) for r in row_ids]",
   "      old_values = list(values)", "C11-R2"),
  ("first-reverse-col-only", CO,
   "        for reverse_col in reverse_cols:",
   "        for reverse_col in reverse_cols[:1]:", "C11-R2"),
  ("destroy-keeps-registration", CO,
   """    if self._reverse_source_node:
      _multimap_remove(self._table._reverse_cols_by_source_node, self._reverse_source_node, self)

""", "", "C11-R2"),
  ("reflist-override-skips-base", CO,
   """      self._reject_unresolved_temp_ids(values)
    return super(ReferenceListColumn, self).prepare_new_values(
        row_ids, values, ignore_data=ignore_data, action_summary=action_summary)""",
   """      self._reject_unresolved_temp_ids(values)
    if ignore_data:
      return values, []
    return super(ReferenceListColumn, self).prepare_new_values(
        row_ids, values, ignore_data=ignore_data, action_summary=action_summary)""", "C11-R2"),
  ("unique-threshold-off", CO,
   "    if len(value_as_list) > 1:\n      raise UniqueReferenceError",
   "    if len(value_as_list) > 2:\n      raise UniqueReferenceError", "C11-R3"),
  ("unique-keeps-first", CO,
   """    if len(value_as_list) > 1:
      raise UniqueReferenceError("UNIQUE reference constraint violated")
    return value_as_list[0] if value_as_list else 0""",
   """    return value_as_list[0] if value_as_list else 0""", "C11-R3"),
  ("rebuild-bypasses-list-to-value", CO,
   """    return _adjustments_to_action(reverse_col.node,
        [(row_id, reverse_col._list_to_value(value)) for (row_id, value) in reverse_adjustments])""",
   """    return _adjustments_to_action(reverse_col.node,
        [(row_id, value or None) for (row_id, value) in reverse_adjustments])""", "C11-R3"),
  ("type-change-rebuild-only-for-data", U,
   "    if 'type' in col_info:\n      update_action = new_column.recalc_from_reverse_values()",
   "    if 'type' in col_info and not to_formula:\n      update_action = new_column.recalc_from_reverse_values()",
   "C11-R4"),
  ("add-reverse-not-filled", U,
   """    update_action = col_obj.recalc_from_reverse_values()
    self._do_doc_action(update_action)

    return ret""",
   """    update_action = col_obj.recalc_from_reverse_values()

    return ret""", "C11-R4"),
  ("ref-index-from-raw-value", CO,
   """    new = self.safe_get(row_id)
    self._update_references(row_id, old, new)""",
   """    new = value
    self._update_references(row_id, old, new)""", "C11-R6"),
  ("copy-keeps-stale-index", CO,
   "    self._relation.clear()\n", "", "C11-R6"),
  ("rebuild-skips-empty-targets", CO,
   """      reverse_value = self._relation.get_affected_rows((target_row_id,))
      reverse_adjustments.append((target_row_id, sorted(reverse_value)))""",
   """      reverse_value = self._relation.get_affected_rows((target_row_id,))
      if reverse_value:
        reverse_adjustments.append((target_row_id, sorted(reverse_value)))""", "C11-R4"),
]
