"""C10 Removing rows leaves no references to them -- structural clauses (DESIGN.md section 4, C10).

R1 is C09-R1 (sa/rules/c09.py, r1_removal_funnel) and the inverse-map half of R3 is C05-R5
(sa/rules/c05.py, r5_reference_index); both are run here through a rule-id alias so their
obligations and findings are recorded under C10's own rule ids, without editing those modules.
"""
import ast
from ..fn import World
from ..index import AnalysisError, dotted
from ..astutil import text, short, endswith, calls_in, walk_no_nested
from ..dataflow import DefUse
from .. import events as E
from .. import types as T
from . import _h_B as H
from .c09 import r1_removal_funnel, R1_VARIANTS as C09_R1_VARIANTS
from .c05 import r5_reference_index

EXPLANATION = (
  "Decides the clean-up discipline behind 'no reference to a removed row': every user-level "
  "record removal goes through doBulkRemoveRecord (R1 = C09-R1); in doBulkRemoveRecord the "
  "clean-up loop follows the removal on every normal path, iterates the whole "
  "table._back_references of the table the rows were removed from, skips a referring column only "
  "when it is a formula column or not a reference column, asks each remaining column for its "
  "updates for exactly the removed rows and emits every non-empty update; "
  "get_updates_for_removed_target_rows covers every row the reverse index reports (R2); a "
  "reference column registers itself in its target table's _back_references when created and "
  "leaves on destroy, nobody else writes that set, and the reverse index (inverse_map) is updated "
  "from the stored value read before and after every write (R3, the latter being C05-R5). Not "
  "decided: values -- in particular that _raw_get_without computes the right remainder.")


def check(run, repo, tier):
  w = World(repo)
  r1_removal_funnel(run, w, "C10-R1")
  r2_cleanup_loop(run, w)
  r3_registration(run, w)
  from ._extra import c10_updates_unfiltered
  run.guard(c10_updates_unfiltered, run, w, "C10-R2")


# ------------------------------------------------------------------------------------------ R2
SKIP_TESTS = ("formula", "not-reference")


def _skip_kind(t, var):
  """Classify one disjunct of a skip condition on loop variable `var`."""
  if isinstance(t, ast.Call) and isinstance(t.func, ast.Attribute) and t.func.attr == "is_formula" \
      and isinstance(t.func.value, ast.Name) and t.func.value.id == var and not t.args:
    return "formula"
  if isinstance(t, ast.UnaryOp) and isinstance(t.op, ast.Not):
    c = t.operand
    if isinstance(c, ast.Call) and dotted(c.func) == "isinstance" and len(c.args) == 2 and \
        isinstance(c.args[0], ast.Name) and c.args[0].id == var and \
        endswith(dotted(c.args[1]), "BaseReferenceColumn"):
      return "not-reference"
  return None


def _whole_copy_of(fn, e, rows_var, depth=0):
  """True when e denotes all of `rows_var` (through set()/list()/sorted() copies and single-def
  locals); False when it is a part of it (subscript, filtered comprehension); AnalysisError for
  any other shape."""
  e = H.strip_wrappers(e, ("set", "frozenset", "list", "tuple", "sorted"))
  if isinstance(e, ast.Name):
    if e.id == rows_var:
      return True
    d = H.single_def(fn, e.id)
    if d is not None and depth < 4:
      return _whole_copy_of(fn, d, rows_var, depth + 1)
  if isinstance(e, (ast.Subscript, ast.ListComp, ast.SetComp, ast.GeneratorExp, ast.BinOp)):
    return False
  raise AnalysisError("doBulkRemoveRecord: cannot relate %s to the removed rows" % short(e))


def r2_cleanup_loop(run, w):
  R2 = run.rule("C10-R2", "doBulkRemoveRecord: the clean-up loop post-dominates the removal, "
                "covers the whole _back_references of the same table, skips only formula / "
                "non-reference columns and emits every non-empty update", floor=8)
  fn = w.fn("useractions.UserActions.doBulkRemoveRecord")
  cfg = fn.cfg
  du = DefUse(fn)
  names = w.action_types()
  ps = fn.fi.params()
  rem = []
  for (n, c) in H.gateway_sites(fn):
    r = E.action_ctor(c.args[0], names)
    if r and r[0] in ("BulkRemoveRecord", "RemoveRecord"):
      rem.append((n, r[1]))
  if len(rem) != 1:
    raise AnalysisError("doBulkRemoveRecord: expected exactly one gateway call with a removal")
  rn, rctor = rem[0]
  ok = len(rctor.args) == 2 and isinstance(rctor.args[0], ast.Name) and rctor.args[0].id == ps[1] \
      and H.unrebound_at(fn, du, ps[1], rn.id) and isinstance(rctor.args[1], ast.Name)
  run.ob(R2, fn.qualname, short(rctor), "the removal names the table it was asked for", ok,
         fi=fn.fi, node=rctor)
  rows_var = rctor.args[1].id if len(rctor.args) == 2 and isinstance(rctor.args[1], ast.Name) \
      else None
  # the loop over <table>._back_references
  def backrefs_iter(e):
    """(attribute node, whole?) when e iterates some <x>._back_references, else None."""
    e = H.strip_wrappers(e)
    if isinstance(e, ast.Attribute) and e.attr == "_back_references":
      return (e, True)
    if isinstance(e, (ast.GeneratorExp, ast.ListComp, ast.SetComp)) and len(e.generators) == 1:
      r = backrefs_iter(e.generators[0].iter)
      if r:
        whole = r[1] and not e.generators[0].ifs and text(e.elt) == text(e.generators[0].target)
        return (r[0], whole)
    if isinstance(e, ast.Subscript):
      r = backrefs_iter(e.value)
      if r:
        return (r[0], False)
    return None
  loops = []
  used = set()
  for n in cfg.nodes:
    if n.kind == "for":
      r = backrefs_iter(n.stmt.iter)
      if r:
        loops.append((n, r[0], r[1]))
        used.add(id(r[0]))
  for n in cfg.nodes:
    for e in n.exprs:
      for x in (ast.walk(e) if e is not None else ()):
        if isinstance(x, ast.Attribute) and x.attr == "_back_references" and id(x) not in used:
          raise AnalysisError("doBulkRemoveRecord: _back_references used outside the clean-up "
                              "loop header (%s)" % short(x))
  if len(loops) != 1:
    raise AnalysisError("doBulkRemoveRecord: loop over <table>._back_references not found")
  lp, it, whole = loops[0]
  if not isinstance(lp.stmt.target, ast.Name):
    raise AnalysisError("doBulkRemoveRecord: clean-up loop target is not a simple name")
  var = lp.stmt.target.id
  tdef = H.single_def(fn, it.value.id) if isinstance(it.value, ast.Name) else None
  tnodes = {n.id for n in cfg.nodes if n.kind == "stmt" and isinstance(n.stmt, ast.Assign) and
            n.stmt.value is tdef}
  ok = isinstance(tdef, ast.Subscript) and fn.type_of(tdef.value) == "dict[table.Table]" and \
      isinstance(tdef.slice, ast.Name) and tdef.slice.id == ps[1] and \
      all(H.unrebound_at(fn, du, ps[1], t) for t in tnodes) and bool(tnodes) and whole
  run.ob(R2, fn.qualname, "for %s in %s" % (var, short(lp.stmt.iter)),
         "the loop covers every column registered as referring to the table the rows are removed "
         "from (whole set, no filter, no slice)", ok, fi=fn.fi, node=lp.stmt)
  run.ob(R2, fn.qualname, "gateway(BulkRemoveRecord) -> clean-up loop",
         "every normal path from the removal runs the clean-up loop",
         cfg.postdominated_by(rn.id, {lp.id}), fi=fn.fi, node=lp.stmt,
         witness=cfg.describe_path(cfg.path(rn.id, {cfg.exit.id}, removed={lp.id}, after=True)))
  body = H.nodes_of_stmts(cfg, H.stmts_under(lp.stmt.body))
  # skips: continue / break / return inside the loop only under the enumerated conditions
  for n in cfg.nodes:
    if n.id in body and n.kind in ("continue", "break", "return", "raise_stmt"):
      chain = [(s, fld) for (s, fld) in H.guards_of(fn.node, n.stmt)]
      inner = chain[[i for i, (s, f) in enumerate(chain) if s is lp.stmt][0] + 1:]
      ok = n.kind == "continue" and len(inner) == 1 and isinstance(inner[0][0], ast.If) and \
          inner[0][1] == "body"
      if ok:
        t = inner[0][0].test
        parts = t.values if isinstance(t, ast.BoolOp) and isinstance(t.op, ast.Or) else [t]
        ok = all(_skip_kind(p, var) in SKIP_TESTS for p in parts)
      run.ob(R2, fn.qualname, "%s under `%s`" % (n.kind, short(inner[-1][0].test) if inner and
                                                  isinstance(inner[-1][0], ast.If) else "?"),
             "a referring column is skipped only when it is a formula column or not a reference "
             "column", ok, fi=fn.fi, node=n.stmt)
  # the updates asked for are those for the removed rows
  ups = [(n, c) for (n, c, nm) in fn.calls() if isinstance(c.func, ast.Attribute) and
         c.func.attr == "get_updates_for_removed_target_rows" and n.id in body]
  if len(ups) != 1:
    raise AnalysisError("doBulkRemoveRecord: get_updates_for_removed_target_rows call not found")
  un, uc = ups[0]
  uvar = un.stmt.targets[0].id if isinstance(un.stmt, ast.Assign) and \
      isinstance(un.stmt.targets[0], ast.Name) else None
  ok = isinstance(uc.func.value, ast.Name) and uc.func.value.id == var and len(uc.args) == 1 and \
      rows_var is not None and uvar is not None and _whole_copy_of(fn, uc.args[0], rows_var)
  run.ob(R2, fn.qualname, short(un.stmt), "each referring column is asked for its updates for "
         "exactly the rows handed to the removal", ok, fi=fn.fi, node=un.stmt)
  # every path round the loop that was not skipped asks for the updates
  first = H.nodes_of_stmts(cfg, lp.stmt.body[:1])
  conts = {n.id for n in cfg.nodes if n.id in body and n.kind == "continue"}
  ok = lp.id not in cfg.reach(first, removed={un.id} | conts)
  run.ob(R2, fn.qualname, "loop body -> get_updates_for_removed_target_rows",
         "a column that is not skipped is always asked", ok, fi=fn.fi, node=lp.stmt)
  # non-empty updates are emitted on every branch
  guards = [n for n in cfg.nodes if n.id in body and n.kind == "if" and uvar is not None and
            text(n.stmt.test) == uvar]
  emit = set()
  for (n, c, nm) in fn.calls():
    if n.id not in body:
      continue
    hit = False
    if nm == "self._BulkUpdateRecord_decoded" and len(c.args) == 3:
      hit = True
      targs = c.args
    elif E.is_strict_gateway_call(c, nm, fn):
      r = E.action_ctor(c.args[0], names)
      if r and r[0] == "BulkUpdateRecord" and len(r[1].args) == 3:
        hit = True
        targs = r[1].args
    if hit and all(du.flows_from(lambda x: isinstance(x, ast.Name) and x.id == uvar, a)
                   for a in targs[1:]) and \
        du.flows_from(lambda x: isinstance(x, ast.Attribute) and x.attr == "table_id" and
                      text(x.value) == var, targs[0]):
      emit.add(n.id)
  ok = len(guards) == 1 and bool(emit)
  wit = None
  if ok:
    g = guards[0]
    gfirst = H.nodes_of_stmts(cfg, g.stmt.body[:1])
    leak = lp.id in cfg.reach(gfirst, removed=emit)
    ok = not leak and not g.stmt.orelse and cfg.dominated_by(g.id, {un.id})
    if leak:
      wit = cfg.describe_path(cfg.path(next(iter(gfirst)), {lp.id}, removed=emit))
  run.ob(R2, fn.qualname, "if updates: emit BulkUpdateRecord(ref_col.table_id, rows, values)",
         "whenever a column reports updates they are emitted (rows and values taken from the "
         "report, table from the column) on every branch", ok, witness=wit, fi=fn.fi)
  # the column side: every row the reverse index reports gets an update
  gu = w.fn("column.BaseReferenceColumn.get_updates_for_removed_target_rows")
  gdu = DefUse(gu)
  p = gu.fi.params()[1]
  rets = [s for s in ast.walk(gu.node) if isinstance(s, ast.Return)]
  ok = False
  if len(rets) == 1 and isinstance(rets[0].value, ast.ListComp) and \
      len(rets[0].value.generators) == 1:
    g = rets[0].value.generators[0]
    elt = rets[0].value.elt
    src = H.strip_wrappers(g.iter)
    from_index = gdu.flows_from(
      lambda x: isinstance(x, ast.Call) and endswith(gu.name(x), "self._relation.get_affected_rows")
      and len(x.args) == 1 and text(x.args[0]) == p, src)
    ok = not g.ifs and from_index and isinstance(elt, ast.Tuple) and len(elt.elts) == 2 and \
        text(elt.elts[0]) == text(g.target) and isinstance(elt.elts[1], ast.Call) and \
        gu.name(elt.elts[1]) == "self._raw_get_without" and \
        [text(a) for a in elt.elts[1].args] == [text(g.target), p]
  run.ob(R2, gu.qualname, "[(row, self._raw_get_without(row, removed)) for row in "
         "self._relation.get_affected_rows(removed)]", "one update per row the reverse index "
         "reports for the removed targets, none filtered out", ok, fi=gu.fi)


# ------------------------------------------------------------------------------------------ R3
BACKREF_OWNERS = {
  "table.Table.__init__": "creates the empty set",
  "column.BaseReferenceColumn.__init__": "registers the new reference column",
  "column.BaseReferenceColumn.destroy": "unregisters the destroyed reference column",
}


def r3_registration(run, w):
  R3 = "C10-R3"
  # inverse_map exactness: C05-R5, recorded under C10-R3
  r5_reference_index(H.RuleAlias(run, {"C05-R5": R3}), w)
  run.rule(R3, "registration pairing: a reference column joins its target table's "
           "_back_references on creation and leaves on destroy, nobody else writes the set; the "
           "reverse index follows every write (C05-R5)", floor=12)
  for q, meths, what in (
      ("column.BaseReferenceColumn.__init__", ("add",), "registers itself"),
      ("column.BaseReferenceColumn.destroy", ("remove", "discard"), "unregisters itself")):
    fn = w.fn(q)
    cfg = fn.cfg
    sites = [(n, c) for (n, c, nm) in fn.calls()
             if nm in ["self._target_table._back_references." + m for m in meths] and
             len(c.args) == 1 and text(c.args[0]) == "self"]
    ok = len(sites) == 1
    wit = None
    if ok:
      n, c = sites[0]
      chain = H.guards_of(fn.node, n.stmt)
      ok = len(chain) == 1 and isinstance(chain[0][0], ast.If) and chain[0][1] == "body" and \
          text(chain[0][0].test) == "self._target_table"
      if ok:
        g = H.nodes_of_stmts(cfg, [chain[0][0]])
        ok = cfg.dominated_by(cfg.exit.id, g)
      else:
        wit = "guards: %s" % [short(s.test) if isinstance(s, ast.If) else s.__class__.__name__
                              for (s, f) in chain]
    run.ob(R3, q, "if self._target_table: self._target_table._back_references.%s(self)" % meths[0],
           "the column %s with its target table on every normal path (the only exemption being "
           "a target table that does not exist)" % what, ok, witness=wit, fi=fn.fi)
  init = w.fn("column.BaseReferenceColumn.__init__")
  d = [s.value for s in ast.walk(init.node) if isinstance(s, ast.Assign) and
       text(s.targets[0]) == "self._target_table"]
  tid = [s.value for s in ast.walk(init.node) if isinstance(s, ast.Assign) and
         isinstance(s.targets[0], ast.Name) and d and isinstance(d[0], ast.Call) and d[0].args and
         text(s.targets[0]) == text(d[0].args[0])]
  ok = len(d) == 1 and isinstance(d[0], ast.Call) and endswith(dotted(d[0].func), "tables.get") \
      and len(tid) == 1 and text(tid[0]) == "self.type_obj.table_id"
  run.ob(R3, init.qualname, "self._target_table = <engine>.tables.get(self.type_obj.table_id, None)",
         "the table registered with is the table the column's type refers to", ok, fi=init.fi)
  rel = [s.value for s in ast.walk(init.node) if isinstance(s, ast.Assign) and
         text(s.targets[0]) == "self._relation"]
  ok = len(rel) == 1 and isinstance(rel[0], ast.Call) and \
      endswith(dotted(rel[0].func), "ReferenceRelation")
  run.ob(R3, init.qualname, "self._relation = relation.ReferenceRelation(...)",
         "each reference column owns one reverse index", ok, fi=init.fi, nontrivial=False)
  # ownership of _back_references
  for fi in w.repo.all_functions():
    for x in ast.walk(fi.node):
      hit = None
      if isinstance(x, ast.Call) and isinstance(x.func, ast.Attribute) and \
          isinstance(x.func.value, ast.Attribute) and x.func.value.attr == "_back_references" and \
          x.func.attr in ("add", "remove", "discard", "clear", "update", "pop",
                          "difference_update", "intersection_update"):
        hit = x
      elif isinstance(x, ast.Attribute) and x.attr == "_back_references" and \
          isinstance(x.ctx, (ast.Store, ast.Del)):
        hit = x
      if hit is not None:
        run.ob(R3, fi.qualname, short(hit), "_back_references is written only by the table's "
               "constructor and by reference columns registering / unregistering themselves",
               fi.qualname in BACKREF_OWNERS, fi=fi, node=hit, nontrivial=False)


U = "sandbox/grist/useractions.py"
CO = "sandbox/grist/column.py"
RL = "sandbox/grist/relation.py"
VARIANTS = [(a, b, c, d, "C10-R1") for (a, b, c, d) in C09_R1_VARIANTS] + [
  # R2
  ("cleanup-skips-private-columns", U,
   "      if ref_col.is_formula() or not isinstance(ref_col, column.BaseReferenceColumn):",
   "      if ref_col.is_formula() or ref_col.is_private() or \\\n          not isinstance(ref_col, column.BaseReferenceColumn):",
   "C10-R2"),
  ("cleanup-skips-self-references", U,
   "    for ref_col in sorted(table._back_references, key=lambda c: c.node):",
   "    for ref_col in sorted((c for c in table._back_references if c.table_id != table_id),\n                          key=lambda c: c.node):",
   "C10-R2"),
  ("cleanup-only-for-user-tables", U,
   "    # Also remove any references to this row from other tables.\n    row_id_set = set(row_ids)",
   "    # Also remove any references to this row from other tables.\n    if table_id.startswith('_grist_'):\n      return\n    row_id_set = set(row_ids)",
   "C10-R2"),
  ("cleanup-meta-branch-only", U,
   "          self._BulkUpdateRecord_decoded(table_id, rows, columns)\n        else:",
   "          self._BulkUpdateRecord_decoded(table_id, rows, columns)\n        elif not ref_col.is_private():",
   "C10-R2"),
  ("cleanup-for-first-removed-row-only", U,
   "      updates = ref_col.get_updates_for_removed_target_rows(row_id_set)",
   "      updates = ref_col.get_updates_for_removed_target_rows(set(row_ids[:1]))", "C10-R2"),
  ("updates-skip-rows-being-removed", CO,
   "    return [(row_id, self._raw_get_without(row_id, target_row_ids)) for row_id in affected_rows]",
   "    return [(row_id, self._raw_get_without(row_id, target_row_ids)) for row_id in affected_rows\n            if row_id not in target_row_ids]",
   "C10-R2"),
  ("stale-table-after-rebinding", U,
   "    table = self._engine.tables[table_id]\n    assert all(isinstance(r, (int, table.Record)) for r in row_ids_or_records)\n    row_ids = [int(r) for r in row_ids_or_records]",
   "    table = self._engine.tables[table_id]\n    assert all(isinstance(r, (int, table.Record)) for r in row_ids_or_records)\n    row_ids = [int(r) for r in row_ids_or_records]\n    table = self._engine.tables.get('_grist_Tables', table)",
   "C10-R2"),
  # R3
  ("ref-index-from-raw-value", CO,
   "    new = self.safe_get(row_id)\n    self._update_references(row_id, old, new)",
   "    self._update_references(row_id, old, value)", "C10-R3"),
  ("ref-remove-tolerant", RL,
   "    self.inverse_map[target_row_id].discard(referring_row_id)",
   "    referring_rows = self.inverse_map.get(target_row_id)\n    if referring_rows:\n      referring_rows.discard(referring_row_id)",
   "C10-R3"),
  ("destroy-keeps-back-reference", CO,
   "    if self._target_table:\n      self._target_table._back_references.remove(self)\n", "",
   "C10-R3"),
  ("register-only-data-columns", CO,
   "    if self._target_table:\n      self._target_table._back_references.add(self)",
   "    if self._target_table and not col_info.is_formula:\n      self._target_table._back_references.add(self)",
   "C10-R3"),
  ("copy-keeps-stale-index", CO, "    self._relation.clear()\n", "", "C10-R3"),
  ("back-references-reset-on-rebuild", "sandbox/grist/table.py",
   "    # Set the new columns.\n    self.all_columns = new_cols\n",
   "    # Set the new columns.\n    self.all_columns = new_cols\n    self._back_references.clear()\n",
   "C10-R3"),
]
