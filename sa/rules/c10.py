"""C10 Removing rows leaves no references to them -- structural clauses (DESIGN.md section 4, C10).

R1 is C09-R1 (sa/rules/c09.py, r1_removal_funnel) and the inverse-map half of R3 is C05-R5
(sa/rules/c05.py, r5_reference_index); both are run here through a rule-id alias so their
obligations and findings are recorded under C10's own rule ids, without editing those modules.
"""
import ast
from ..fn import World
from ..index import AnalysisError, dotted
from ..astutil import text, short, endswith, calls_in, walk_no_nested
from ..dataflow import DefUse
from .. import events as E
from .. import types as T
from . import _h_B as H
from .c09 import r1_removal_funnel, R1_VARIANTS as C09_R1_VARIANTS
from .c05 import r5_reference_index

EXPLANATION = (
  "Decides the clean-up discipline behind 'no reference to a removed row': every user-level "
  "record removal goes through doBulkRemoveRecord (R1 = C09-R1); in doBulkRemoveRecord the "
  "clean-up loop follows the removal on every normal path, iterates the whole "
  "table._back_references of the table the rows were removed from, skips a referring column only "
  "when it is a formula column or not a reference column, asks each remaining column for its "
  "updates for exactly the rows handed to the removal (the same binding of the ids, not merely a "
  "variable of the same name) and emits every non-empty update; guards are decided by what a "
  "path has established (any spelling: nested if, continue guard, named test), and a private "
  "helper that is handed the column and its updates and always emits counts as the emission; "
  "get_updates_for_removed_target_rows covers every row the reverse index reports (R2); a "
  "reference column registers itself in its target table's _back_references when created and "
  "leaves on destroy, nobody else writes that set, and the reverse index (inverse_map) is updated "
  "from the stored value read before and after every write (R3, the latter being C05-R5), and the "
  "method that copies a reference column and rebuilds its reverse index after clear() refills it "
  "from the whole storage (no upper bound, no early exit). Not "
  "decided: values -- in particular that _raw_get_without computes the right remainder.")


def check(run, repo, tier):
  w = World(repo)
  r1_removal_funnel(run, w, "C10-R1")
  r2_cleanup_loop(run, w)
  r3_registration(run, w)
  from ._extra import c10_updates_unfiltered
  run.guard(c10_updates_unfiltered, run, w, "C10-R2")


# ------------------------------------------------------------------------------------------ R2
SKIP_TESTS = ("formula", "not-reference")


def _skip_kind(t, var):
  """Classify one disjunct of a skip condition on loop variable `var`."""
  if isinstance(t, ast.Call) and isinstance(t.func, ast.Attribute) and t.func.attr == "is_formula" \
      and isinstance(t.func.value, ast.Name) and t.func.value.id == var and not t.args:
    return "formula"
  if isinstance(t, ast.UnaryOp) and isinstance(t.op, ast.Not):
    c = t.operand
    if isinstance(c, ast.Call) and dotted(c.func) == "isinstance" and len(c.args) == 2 and \
        isinstance(c.args[0], ast.Name) and c.args[0].id == var and \
        endswith(dotted(c.args[1]), "BaseReferenceColumn"):
      return "not-reference"
  return None


def r2_cleanup_loop(run, w):
  R2 = run.rule("C10-R2", "doBulkRemoveRecord: the clean-up loop post-dominates the removal, "
                "covers the whole _back_references of the same table, skips only formula / "
                "non-reference columns and emits every non-empty update", floor=8)
  fn = H.inlined_fn(w, "useractions.UserActions.doBulkRemoveRecord")
  cfg = fn.cfg
  du = DefUse(fn)
  rd = H.ReachDefs(fn, du)
  ENTRY = H.ReachDefs.ENTRY
  names = w.action_types()
  ps = fn.fi.params()
  p_table = ps[1]
  is_own_table = lambda e, at: isinstance(H.deref(fn, e), ast.Name) and \
      H.deref(fn, e).id == p_table and rd.reaching(p_table, at) == {ENTRY}
  rem = []
  for (n, c) in H.gateway_sites(fn):
    r = E.action_ctor(H.deref(fn, c.args[0]), names)
    if r and r[0] in ("BulkRemoveRecord", "RemoveRecord"):
      rem.append((n, r[0], r[1]))
  if len(rem) != 1:
    raise AnalysisError("doBulkRemoveRecord: expected exactly one gateway call with a removal")
  rn, rkind, rctor = rem[0]
  a_table, a_rows = H.action_arg(rctor, names, rkind, 0), H.action_arg(rctor, names, rkind, 1)
  ok = H.action_nargs(rctor) == 2 and a_table is not None and is_own_table(a_table, rn.id) and \
      isinstance(a_rows, ast.Name)
  run.ob(R2, fn.qualname, short(rctor), "the removal names the table it was asked for", ok,
         fi=fn.fi, node=rctor)
  rows_var = a_rows.id if isinstance(a_rows, ast.Name) else None
  rows_defs = rd.reaching(rows_var, rn.id) if rows_var else set()
  # the loop over <table>._back_references
  def backrefs_iter(e):
    """(attribute node, whole?) when e iterates some <x>._back_references, else None."""
    e = H.deref(fn, H.strip_wrappers(H.deref(fn, e)))
    if isinstance(e, ast.Attribute) and e.attr == "_back_references":
      return (e, True)
    if isinstance(e, (ast.GeneratorExp, ast.ListComp, ast.SetComp)) and len(e.generators) == 1:
      r = backrefs_iter(e.generators[0].iter)
      if r:
        whole = r[1] and not e.generators[0].ifs and text(e.elt) == text(e.generators[0].target)
        return (r[0], whole)
    if isinstance(e, ast.Subscript):
      r = backrefs_iter(e.value)
      if r:
        return (r[0], False)
    return None
  loops = []
  used = set()
  for n in cfg.nodes:
    if n.kind == "for":
      r = backrefs_iter(n.stmt.iter)
      if r:
        loops.append((n, r[0], r[1]))
        used.add(id(r[0]))
  for n in cfg.nodes:
    for e in n.exprs:
      for x in (ast.walk(e) if e is not None else ()):
        if isinstance(x, ast.Attribute) and x.attr == "_back_references" and id(x) not in used:
          raise AnalysisError("doBulkRemoveRecord: _back_references used outside the clean-up "
                              "loop header (%s)" % short(x))
  if len(loops) != 1:
    raise AnalysisError("doBulkRemoveRecord: loop over <table>._back_references not found")
  lp, it, whole = loops[0]
  if not isinstance(lp.stmt.target, ast.Name):
    raise AnalysisError("doBulkRemoveRecord: clean-up loop target is not a simple name")
  var = lp.stmt.target.id
  # the table whose back references are walked is <engine>.tables[<table_id as passed in>]
  tbl = it.value
  tdefs = rd.reaching(tbl.id, lp.id) if isinstance(tbl, ast.Name) else set()
  tvals = [(H.def_value(cfg, d), d) for d in tdefs] if tdefs else [(tbl, lp.id)]
  ok = bool(tvals) and whole
  for (tv, at) in tvals:
    tv = H.deref(fn, tv) if tv is not None else None
    ok = ok and isinstance(tv, ast.Subscript) and fn.type_of(tv.value) == "dict[table.Table]" and \
        is_own_table(tv.slice, at)
  run.ob(R2, fn.qualname, "for %s in %s" % (var, short(lp.stmt.iter)),
         "the loop covers every column registered as referring to the table the rows are removed "
         "from (whole set, no filter, no slice)", ok, fi=fn.fi, node=lp.stmt)
  run.ob(R2, fn.qualname, "gateway(BulkRemoveRecord) -> clean-up loop",
         "every normal path from the removal runs the clean-up loop",
         cfg.postdominated_by(rn.id, {lp.id}), fi=fn.fi, node=lp.stmt,
         witness=cfg.describe_path(cfg.path(rn.id, {cfg.exit.id}, removed={lp.id}, after=True)))
  body = H.nodes_of_stmts(cfg, H.stmts_under(lp.stmt.body))
  # the updates asked for are those for the removed rows
  ups = [(n, c) for (n, c, nm) in fn.calls() if isinstance(c.func, ast.Attribute) and
         c.func.attr == "get_updates_for_removed_target_rows" and n.id in body]
  if len(ups) != 1:
    raise AnalysisError("doBulkRemoveRecord: get_updates_for_removed_target_rows call not found")
  un, uc = ups[0]
  uvar = un.stmt.targets[0].id if isinstance(un.stmt, ast.Assign) and \
      len(un.stmt.targets) == 1 and isinstance(un.stmt.targets[0], ast.Name) and \
      un.stmt.value is uc else None
  if uvar is None:
    raise AnalysisError("doBulkRemoveRecord: the reported updates are not bound to a local")
  same_rows = lambda x, d: isinstance(x, str) and x == rows_var and d in rows_defs
  uc_n = H.norm(w, fn, uc)
  asked = H.whole_of(fn, rd, uc_n.args[0], un.id, same_rows,
                     wrappers=("set", "frozenset", "list", "tuple", "sorted")) \
      if len(uc_n.args) == 1 and not uc_n.keywords and rows_var else False
  if asked is None:
    raise AnalysisError("doBulkRemoveRecord: cannot relate %s to the removed rows"
                        % short(uc_n.args[0]))
  recv = H.deref(fn, uc.func.value)
  ok = isinstance(recv, ast.Name) and recv.id == var and asked
  run.ob(R2, fn.qualname, short(un.stmt), "each referring column is asked for its updates for "
         "exactly the rows handed to the removal", ok, fi=fn.fi, node=un.stmt)
  # skips: a column that is a data column and a reference column is always asked. Whatever else
  # is tested on the way (in whatever spelling: continue guards, nested ifs) leaves both branches
  # open, so an extra skip condition shows up as a path round the loop that avoids the question.
  def keeps(e):
    if isinstance(e, ast.Call) and isinstance(e.func, ast.Attribute) and \
        e.func.attr == "is_formula" and not e.args and \
        isinstance(H.deref(fn, e.func.value), ast.Name) and H.deref(fn, e.func.value).id == var:
      return False
    if isinstance(e, ast.Call) and dotted(e.func) == "isinstance" and len(e.args) == 2 and \
        isinstance(H.deref(fn, e.args[0]), ast.Name) and H.deref(fn, e.args[0]).id == var and \
        endswith(dotted(e.args[1]), "BaseReferenceColumn"):
      return True
    if isinstance(e, ast.Name):
      v = H.alias_value(fn, e.id, pure_only=False)
      if v is not None:
        return H.eval3(v, keeps)
    return None
  first = H.nodes_of_stmts(cfg, lp.stmt.body[:1])
  stops = {lp.id, cfg.exit.id}
  leak = H.reach_assuming(cfg, first, keeps, removed={un.id}) & stops
  wit = None
  if leak:
    wit = cfg.describe_path(cfg.path(next(iter(first)), stops, removed={un.id}))
  run.ob(R2, fn.qualname, "loop body -> get_updates_for_removed_target_rows unless "
         "%s.is_formula() or not isinstance(%s, BaseReferenceColumn)" % (var, var),
         "a referring column is skipped only when it is a formula column or not a reference "
         "column; every other column is asked", not leak, witness=wit, fi=fn.fi, node=lp.stmt)
  # non-empty updates are emitted on every branch
  is_updates = lambda x: isinstance(x, ast.Name) and x.id == uvar
  def record_updater(c, f):
    """FuncInfo when call c runs the (table, rows, columns) update of records as a user action
    would: a method of the class taking those three whose body dispatches to doBulkUpdateRecord
    (_BulkUpdateRecord_decoded today; found by this role, the name is not relied upon)."""
    hfi_ = H.self_method(w, f, c)
    if hfi_ is None or len(hfi_.params()) != 4 or hfi_.name.startswith("doBulk") or \
        len(c.args) + len(c.keywords) != 3:
      return None
    if any(isinstance(x, ast.Attribute) and x.attr == "doBulkUpdateRecord"
           for x in ast.walk(hfi_.node)):
      return hfi_
    return None
  emit = set()
  for (n, c, nm) in fn.calls():
    if n.id not in body:
      continue
    targs = None
    if record_updater(c, fn) is not None:
      hfi = record_updater(c, fn)
      try:
        targs = [H.arg_of(c, hfi, p) for p in hfi.params()[1:4]]
      except AnalysisError:
        targs = None
    elif H.is_strict_gateway(w, c, nm, fn) and H.norm(w, fn, c).args:
      r = E.action_ctor(H.deref(fn, H.norm(w, fn, c).args[0]), names)
      if r and r[0] == "BulkUpdateRecord" and H.action_nargs(r[1]) == 3:
        targs = [H.action_arg(r[1], names, r[0], i) for i in range(3)]
    if targs and all(a is not None for a in targs) and \
        all(du.flows_from(is_updates, a) for a in targs[1:]) and \
        du.flows_from(lambda x: isinstance(x, ast.Attribute) and x.attr == "table_id" and
                      isinstance(H.deref(fn, x.value), ast.Name) and
                      H.deref(fn, x.value).id == var, targs[0]):
      emit.add(n.id)
  # ... or inside a private helper that is handed the column and its updates and always emits
  def emits(c, nm, f):
    if record_updater(c, f) is not None:
      return True
    if H.is_strict_gateway(w, c, nm, f) and H.norm(w, f, c).args:
      r = E.action_ctor(H.deref(f, H.norm(w, f, c).args[0]), names)
      return bool(r and r[0] == "BulkUpdateRecord")
    return False
  for (n, c, nm) in fn.calls():
    if n.id in body and n.id not in emit and not emits(c, nm, fn):
      hfi = H.self_method(w, fn, c)
      if hfi is None or hfi.qualname == fn.qualname:
        continue
      given = list(c.args) + [k.value for k in c.keywords]
      if any(H.is_var(fn, a, uvar) for a in given) and any(H.is_var(fn, a, var) for a in given):
        h = w.fn_of(hfi)
        inner = H.always_nodes(w, h, emits, depth=1)
        if inner and h.cfg.dominated_by(h.cfg.exit.id, inner):
          emit.add(n.id)
  if not emit:
    for (n, c, nm) in fn.calls():
      if n.id in body and H.local_callee(w, fn, c) is not None and \
          any(H.is_var(fn, a, uvar) for a in list(c.args) + [k.value for k in c.keywords]):
        raise AnalysisError("doBulkRemoveRecord: the reported updates are handed to %s, which "
                            "could not be followed to an emission" % short(c, 60))
  truthy = lambda e: H.nonempty_value(fn, e, uvar)
  after_q = set(cfg.normal_succ(un.id))
  leak = H.reach_assuming(cfg, after_q, truthy, removed=emit) & stops
  ok = bool(emit) and not leak
  wit = None
  if emit and leak:
    wit = cfg.describe_path(cfg.path(un.id, stops, removed=emit, after=True))
  run.ob(R2, fn.qualname, "if updates: emit BulkUpdateRecord(ref_col.table_id, rows, values)",
         "whenever a column reports updates they are emitted (rows and values taken from the "
         "report, table from the column) on every branch", ok, witness=wit, fi=fn.fi)
  # the column side: every row the reverse index reports gets an update
  gu = w.fn("column.BaseReferenceColumn.get_updates_for_removed_target_rows")
  gdu = DefUse(gu)
  grd = H.ReachDefs(gu, gdu)
  p = gu.fi.params()[1]
  rets = H.return_values(gu, gdu, grd)
  ok = False
  if len(rets) == 1 and isinstance(rets[0][1], ast.ListComp) and \
      len(rets[0][1].generators) == 1:
    g = rets[0][1].generators[0]
    elt = rets[0][1].elt
    src = H.strip_wrappers(g.iter)
    from_index = gdu.flows_from(
      lambda x: isinstance(x, ast.Call) and endswith(gu.name(x), "self._relation.get_affected_rows")
      and len(H.norm(w, gu, x).args) == 1 and H.canon(gu, H.norm(w, gu, x).args[0]) == p, src)
    filtered = isinstance(src, (ast.ListComp, ast.GeneratorExp, ast.SetComp, ast.Subscript))
    ok = not g.ifs and from_index and not filtered and isinstance(elt, ast.Tuple) and \
        len(elt.elts) == 2 and \
        text(elt.elts[0]) == text(g.target) and isinstance(elt.elts[1], ast.Call) and \
        H.self_method(w, gu, elt.elts[1]) is not None and \
        [H.canon(gu, a) for a in H.norm(w, gu, elt.elts[1]).args] == [text(g.target), p]
  elif not (len(rets) == 1 and rets[0][1] is not None):
    raise AnalysisError("get_updates_for_removed_target_rows: returned value not recognised")
  run.ob(R2, gu.qualname, "[(row, self._raw_get_without(row, removed)) for row in "
         "self._relation.get_affected_rows(removed)]", "one update per row the reverse index "
         "reports for the removed targets, none filtered out", ok, fi=gu.fi)


# ------------------------------------------------------------------------------------------ R3
BACKREF_OWNERS = {
  "table.Table.__init__": "creates the empty set",
  "column.BaseReferenceColumn.__init__": "registers the new reference column",
  "column.BaseReferenceColumn.destroy": "unregisters the destroyed reference column",
}


def r3_registration(run, w):
  R3 = "C10-R3"
  # inverse_map exactness: C05-R5, recorded under C10-R3
  # (run on keyword-normalised copies: C05-R5 reads call arguments by position)
  def updates_references(fi):
    """(row, old value, new value) -> remove the old targets from / add the new ones to the
    column's relation: _update_references today"""
    attrs = {x.attr for x in ast.walk(fi.node) if isinstance(x, ast.Attribute)}
    return len(fi.params()) == 4 and {"remove_reference", "add_reference"} <= attrs
  r5_reference_index(H.RuleAlias(run, {"C05-R5": R3}, w), H.NormWorld(
    w, canonical={"column.BaseReferenceColumn._update_references": updates_references}))
  run.rule(R3, "registration pairing: a reference column joins its target table's "
           "_back_references on creation and leaves on destroy, nobody else writes the set; the "
           "reverse index follows every write (C05-R5)", floor=12)
  for q, meths, what in (
      ("column.BaseReferenceColumn.__init__", ("add",), "registers itself"),
      ("column.BaseReferenceColumn.destroy", ("remove", "discard"), "unregisters itself")):
    fn = H.inlined_fn(w, q)
    cfg = fn.cfg
    sites = [(n, c) for (n, c, nm) in fn.calls()
             if nm in ["self._target_table._back_references." + m for m in meths] and
             len(c.args) == 1 and text(c.args[0]) == "self"]
    if not sites and not any(isinstance(x, ast.Attribute) and x.attr == "_back_references"
                             for x in ast.walk(fn.node)) and \
        H.mentions_in_reach(w, fn, lambda x: isinstance(x, ast.Attribute) and
                            x.attr == "_back_references", depth=2):
      raise AnalysisError("%s: _back_references is written inside a helper that could not be "
                          "read in place" % q)
    ok = len(sites) >= 1
    wit = None
    if ok:
      # with a target table, no path through the function avoids the call; any other condition
      # on the way leaves both of its branches open
      has_target = lambda e: True if H.canon(fn, e) == "self._target_table" else None
      S = {n.id for (n, c) in sites}
      rebinds = {n.id for n in cfg.nodes if n.kind == "stmt" and isinstance(n.stmt, ast.Assign) and
                 any(text(t) == "self._target_table" for t in n.stmt.targets)}
      late = [r for r in rebinds if S & cfg.reach_after({r}) and q.endswith("destroy")]
      leak = cfg.exit.id in H.reach_assuming(cfg, {cfg.entry.id}, has_target, removed=S)
      ok = not leak and not late
      if leak:
        wit = cfg.describe_path(cfg.path(cfg.entry.id, {cfg.exit.id}, removed=S))
    run.ob(R3, q, "if self._target_table: self._target_table._back_references.%s(self)" % meths[0],
           "the column %s with its target table on every normal path (the only exemption being "
           "a target table that does not exist)" % what, ok, witness=wit, fi=fn.fi)
  init = w.fn("column.BaseReferenceColumn.__init__")
  d = [s.value for s in ast.walk(init.node) if isinstance(s, ast.Assign) and
       text(s.targets[0]) == "self._target_table"]
  d = [H.deref(init, x) for x in d]
  ok = len(d) == 1 and isinstance(d[0], ast.Call) and d[0].args and \
      (endswith(init.name(d[0]), "tables.get") or
       (isinstance(d[0].func, ast.Attribute) and d[0].func.attr == "get" and
        init.type_of(d[0].func.value) == "dict[table.Table]")) and \
      H.canon(init, d[0].args[0]) == "self.type_obj.table_id"
  run.ob(R3, init.qualname, "self._target_table = <engine>.tables.get(self.type_obj.table_id, None)",
         "the table registered with is the table the column's type refers to", ok, fi=init.fi)
  rel = [s.value for s in ast.walk(init.node) if isinstance(s, ast.Assign) and
         text(s.targets[0]) == "self._relation"]
  ok = len(rel) == 1 and isinstance(rel[0], ast.Call) and \
      endswith(dotted(rel[0].func), "ReferenceRelation")
  run.ob(R3, init.qualname, "self._relation = relation.ReferenceRelation(...)",
         "each reference column owns one reverse index", ok, fi=init.fi, nontrivial=False)
  # ownership of _back_references
  for fi in w.repo.all_functions():
    for x in ast.walk(fi.node):
      hit = None
      if isinstance(x, ast.Call) and isinstance(x.func, ast.Attribute) and \
          isinstance(x.func.value, ast.Attribute) and x.func.value.attr == "_back_references" and \
          x.func.attr in ("add", "remove", "discard", "clear", "update", "pop",
                          "difference_update", "intersection_update"):
        hit = x
      elif isinstance(x, ast.Attribute) and x.attr == "_back_references" and \
          isinstance(x.ctx, (ast.Store, ast.Del)):
        hit = x
      if hit is not None:
        run.ob(R3, fi.qualname, short(hit), "_back_references is written only by the table's "
               "constructor and by reference columns registering / unregistering themselves",
               fi.qualname in BACKREF_OWNERS or
               (H.is_private_part(w, fi)[0] and H.is_private_part(w, fi)[1] in BACKREF_OWNERS),
               fi=fi, node=hit, nontrivial=False)

  _r3_rebuild(run, w, R3)


def _r3_rebuild(run, w, R3):
  """A method that empties a reference column's reverse index and refills it from the stored
  values (copy_from_column on a rename) must visit every stored row: a row left out keeps its
  reference but loses its index entry, and removing its target no longer clears the cell."""
  sites = []
  for fi in w.repo.all_functions():
    if not fi.qualname.startswith("column.") or "." not in fi.qualname[7:]:
      continue
    clears = [c for c in calls_in(fi.node.body) if isinstance(c.func, ast.Attribute) and
              c.func.attr == "clear" and text(c.func.value) == "self._relation"]
    copies = [c for c in calls_in(fi.node.body) if isinstance(c.func, ast.Attribute) and
              c.func.attr == "copy_from_column"]
    if clears and copies:
      sites.append((fi, clears[0]))
  if not sites and any(fi.qualname.startswith("column.") and fi.name == "copy_from_column" and
                       any(isinstance(y, ast.Attribute) and y.attr in ("_update_references", "_relation")
                           for y in ast.walk(fi.node)) for fi in w.repo.all_functions()):
    return      # the copy exists but does not clear the index first: that is C05-R5's finding
  if not sites:
    raise AnalysisError("column: the method that copies a reference column's values and rebuilds "
                        "its reverse index (clears self._relation) not identified in the code as it "
                        "is now written: cannot decide")
  for fi, clr in sites:
    loops = [x for x in walk_no_nested(fi.node) if isinstance(x, ast.For) and x.lineno > clr.lineno
             and any(isinstance(y, ast.Attribute) and y.attr in ("_update_references", "add_reference")
                     for y in ast.walk(x))]
    if not loops:
      others = [x for x in walk_no_nested(fi.node) if isinstance(x, (ast.For, ast.While, ast.ListComp,
                ast.GeneratorExp, ast.SetComp, ast.DictComp))] + \
               [c for c in calls_in(fi.node.body) if isinstance(c.func, ast.Attribute) and
                text(c.func.value) == "self" and c.func.attr not in ("copy_from_column",)]
      if others:
        raise AnalysisError("%s: the loop that refills the reverse index after clear() could not "
                            "be read: cannot decide" % fi.qualname)
      run.ob(R3, fi.qualname, "self._relation.clear() then refill", "the reverse index is refilled "
             "from the copied values after it is cleared", False, fi=fi, node=clr)
      continue
    for lp in loops:
      it = lp.iter
      if isinstance(it, ast.Call) and dotted(it.func) == "enumerate" and it.args:
        start = it.args[1] if len(it.args) > 1 else next((k.value for k in it.keywords
                                                          if k.arg == "start"), None)
        it = it.args[0]
      else:
        start = None
      verdict = None
      if isinstance(it, ast.Subscript) and isinstance(it.slice, ast.Slice):
        sl = it.slice
        whole_upper = sl.upper is None or text(sl.upper) == "len(%s)" % text(it.value)
        lower_ok = sl.lower is None or (isinstance(sl.lower, ast.Constant) and sl.lower.value in (0, 1)
                                        and (sl.lower.value == 0 or
                                             (start is not None and text(start) == text(sl.lower))))
        if sl.step is not None or not lower_ok:
          raise AnalysisError("%s: refill loop over `%s`: cannot decide" % (fi.qualname, text(lp.iter)))
        verdict = whole_upper and text(it.value) == "self._data"
      elif text(it) == "self._data" or (isinstance(it, ast.Attribute) and it.attr == "row_ids"):
        verdict = True
      if verdict is None:
        raise AnalysisError("%s: refill loop over `%s`: cannot decide which rows it visits"
                            % (fi.qualname, text(lp.iter)))
      skipping = [x for x in ast.walk(lp) if isinstance(x, (ast.Break, ast.Return))]
      run.ob(R3, fi.qualname, "for ... in %s" % short(lp.iter, 60),
             "the refill after clear() visits every stored row (no upper bound on the storage "
             "scanned, no early exit)", verdict and not skipping, fi=fi, node=lp)


U = "sandbox/grist/useractions.py"
CO = "sandbox/grist/column.py"
RL = "sandbox/grist/relation.py"
VARIANTS = [(a, b, c, d, "C10-R1") for (a, b, c, d) in C09_R1_VARIANTS] + [
  # R2
  ("cleanup-skips-private-columns", U,
   "      if ref_col.is_formula() or not isinstance(ref_col, column.BaseReferenceColumn):",
   "      if ref_col.is_formula() or ref_col.is_private() or \\\n          not isinstance(ref_col, column.BaseReferenceColumn):",
   "C10-R2"),
  ("cleanup-skips-self-references", U,
   "    for ref_col in sorted(table._back_references, key=lambda c: c.node):",
   "    for ref_col in sorted((c for c in table._back_references if c.table_id != table_id),\n                          key=lambda c: c.node):",
   "C10-R2"),
  ("cleanup-only-for-user-tables", U,
   "    # Also remove any references to this row from other tables.\n    row_id_set = set(row_ids)",
   "    # Also remove any references to this row from other tables.\n    if table_id.startswith('_grist_'):\n      return\n    row_id_set = set(row_ids)",
   "C10-R2"),
  ("cleanup-meta-branch-only", U,
   "          self._BulkUpdateRecord_decoded(table_id, rows, columns)\n        else:",
   "          self._BulkUpdateRecord_decoded(table_id, rows, columns)\n        elif not ref_col.is_private():",
   "C10-R2"),
  ("cleanup-for-first-removed-row-only", U,
   "      updates = ref_col.get_updates_for_removed_target_rows(row_id_set)",
   "      updates = ref_col.get_updates_for_removed_target_rows(set(row_ids[:1]))", "C10-R2"),
  ("updates-skip-rows-being-removed", CO,
   "    return [(row_id, self._raw_get_without(row_id, target_row_ids)) for row_id in affected_rows]",
   "    return [(row_id, self._raw_get_without(row_id, target_row_ids)) for row_id in affected_rows\n            if row_id not in target_row_ids]",
   "C10-R2"),
  ("cleanup-for-ids-as-requested", U,
   """    row_ids = [int(r) for r in row_ids_or_records]

    # Replace negative ids that may refer to rows just added to this table in this bundle.
    row_ids = self._engine.out_actions.summary.translate_new_row_ids(table_id, row_ids)

    self._do_doc_action(actions.BulkRemoveRecord(table_id, row_ids))

    # Also remove any references to this row from other tables.
    row_id_set = set(row_ids)
""",
   """    row_ids = [int(r) for r in row_ids_or_records]
    row_id_set = set(row_ids)

    # Replace negative ids that may refer to rows just added to this table in this bundle.
    row_ids = self._engine.out_actions.summary.translate_new_row_ids(table_id, row_ids)
    self._do_doc_action(actions.BulkRemoveRecord(table_id, row_ids))

    # Also remove any references to these rows from other tables.
""", "C10-R2"),
  ("updates-of-private-columns-not-emitted", U,
   "      if updates:\n        table_id = ref_col.table_id\n",
   "      if updates and not ref_col.is_private():\n        table_id = ref_col.table_id\n", "C10-R2"),
  ("stale-table-after-rebinding", U,
   "    table = self._engine.tables[table_id]\n    assert all(isinstance(r, (int, table.Record)) for r in row_ids_or_records)\n    row_ids = [int(r) for r in row_ids_or_records]",
   "    table = self._engine.tables[table_id]\n    assert all(isinstance(r, (int, table.Record)) for r in row_ids_or_records)\n    row_ids = [int(r) for r in row_ids_or_records]\n    table = self._engine.tables.get('_grist_Tables', table)",
   "C10-R2"),
  # R3
  ("ref-index-from-raw-value", CO,
   "    new = self.safe_get(row_id)\n    self._update_references(row_id, old, new)",
   "    self._update_references(row_id, old, value)", "C10-R3"),
  ("ref-index-rebuild-stops-early", CO,
   "    for row_id, value in enumerate(self._data):\n      if self.type_obj.is_right_type(value):\n"
   "        self._update_references(row_id, None, value)",
   "    for row_id, value in enumerate(self._data[:self._table.row_ids.max()]):\n"
   "      if self.type_obj.is_right_type(value):\n"
   "        self._update_references(row_id, None, value)", "C10-R3"),
  ("ref-index-cleared-not-rebuilt", CO,
   "    for row_id, value in enumerate(self._data):\n      if self.type_obj.is_right_type(value):\n"
   "        self._update_references(row_id, None, value)\n", "", "C10-R3"),
  ("ref-remove-tolerant", RL,
   "    self.inverse_map[target_row_id].discard(referring_row_id)",
   "    referring_rows = self.inverse_map.get(target_row_id)\n    if referring_rows:\n      referring_rows.discard(referring_row_id)",
   "C10-R3"),
  ("destroy-keeps-back-reference", CO,
   "    if self._target_table:\n      self._target_table._back_references.remove(self)\n", "",
   "C10-R3"),
  ("register-only-data-columns", CO,
   "    if self._target_table:\n      self._target_table._back_references.add(self)",
   "    if self._target_table and not col_info.is_formula:\n      self._target_table._back_references.add(self)",
   "C10-R3"),
  ("copy-keeps-stale-index", CO, "    self._relation.clear()\n", "", "C10-R3"),
  ("back-references-reset-on-rebuild", "sandbox/grist/table.py",
   "    # Set the new columns.\n    self.all_columns = new_cols\n",
   "    # Set the new columns.\n    self.all_columns = new_cols\n    self._back_references.clear()\n",
   "C10-R3"),
]
