"""C27 Row id allocation never collides or creates ghost rows -- structural clauses."""
import ast
from ..fn import World
from ..index import AnalysisError, dotted
from ..astutil import text, short, endswith, calls_in
from ..absdom import IntSet, cond_set, INF
from ..dataflow import DefUse
from .. import events as E

EXPLANATION = (
  "Decides, by interpreting the id-filling loop of doBulkAddOrReplace over an interval domain, "
  "that explicit row ids accepted unchanged lie in [1, 1000000] while None/negative ids are "
  "replaced by a counter that only grows past every id seen (R1); that a rejecting check on "
  "repeated ids dominates the gateway call and the ids returned are the ids given to the action "
  "(R2); that the doc action asserts non-existence of every id before its first mutation (R3); and "
  "that the counter starts above every existing row id (R4). Not decided: the arithmetic of "
  "Table.RowIDs.max itself for arbitrary column contents.")

MAX_ID = 1000000


def check(run, repo, tier):
  w = World(repo)
  fn = w.fn("useractions.UserActions.doBulkAddOrReplace")
  r1_domain(run, w, fn)
  r2_distinct(run, w, fn)
  r3_docaction_assert(run, w)
  r4_counter(run, w, fn)


def _fill_loop(fn):
  """The loop `for i, row_id in enumerate(<filled>)` that fills ids; returns (loop, filled var,
  index var, id var)."""
  for s in fn.node.body:
    if isinstance(s, ast.For) and isinstance(s.iter, ast.Call) and \
        dotted(s.iter.func) == "enumerate" and isinstance(s.target, ast.Tuple) and \
        len(s.target.elts) == 2 and isinstance(s.iter.args[0], ast.Name):
      return s, s.iter.args[0].id, s.target.elts[0].id, s.target.elts[1].id
  raise AnalysisError("doBulkAddOrReplace: id-filling loop not found")


def r1_domain(run, w, fn):
  R1 = run.rule("C27-R1", "explicit ids accepted unchanged lie in [1, 1000000]; None/negative ids "
                "are replaced by the counter", floor=3)
  loop, filled, ivar, idvar = _fill_loop(fn)
  # interpret the top-level if/elif chain on the id variable
  accepted = IntSet.all()
  replaced = IntSet()
  counter = None
  chains = [s for s in loop.body if isinstance(s, ast.If)]
  if len(chains) != 1:
    raise AnalysisError("doBulkAddOrReplace: expected one if/elif chain in the fill loop")
  node = chains[0]
  remaining = IntSet.all()
  while True:
    kind = _branch_kind(node.body, filled, ivar, idvar)
    try:
      cs = cond_set(node.test, idvar).intersect(remaining)
    except AnalysisError:
      # A condition outside the interval domain (e.g. membership in a run-time set). For a
      # rejecting branch it is sound to ignore it: the accepted set computed without it is a
      # superset of the real one. A replacing branch with such a condition cannot be decided.
      if kind[0] != "raise":
        raise
      cs = IntSet()
    if kind[0] == "raise":
      accepted = accepted.minus(cs)
    elif kind[0] == "replace":
      accepted = accepted.minus(cs)
      replaced = replaced.union(cs)
      counter = kind[1]
    else:
      raise AnalysisError("fill loop branch neither raises nor replaces the id: %s"
                          % short(node.test))
    remaining = remaining.minus(cs)
    if len(node.orelse) == 1 and isinstance(node.orelse[0], ast.If):
      node = node.orelse[0]
      continue
    if node.orelse:
      # a final else is the accepting path; it must leave the id as it is
      for st in node.orelse:
        for x in ast.walk(st):
          if isinstance(x, ast.Assign) and any(text(t) in (idvar, "%s[%s]" % (filled, ivar))
                                               for t in x.targets):
            raise AnalysisError("fill loop's final else rewrites the id (not modelled)")
    break
  want = IntSet([(1, MAX_ID)])
  run.ob(R1, fn.qualname, "accepted explicit ids = %r" % accepted,
         "ids that pass through unchanged are within [1, %d] (0 is the empty record, larger ids "
         "are refused)" % MAX_ID, accepted.subset_of(want), fi=fn.fi, node=loop)
  run.ob(R1, fn.qualname, "replaced ids = %r" % replaced,
         "None and every negative id are replaced by an allocated id",
         IntSet([(-INF, -1)], none=True).subset_of(replaced) and
         replaced.subset_of(IntSet([(-INF, 0)], none=True)), fi=fn.fi, node=loop)
  run.ob(R1, fn.qualname, "counter variable %s" % counter,
         "replacement ids come from one counter", counter is not None, fi=fn.fi,
         nontrivial=False)
  return counter


def _branch_kind(body, filled, ivar, idvar):
  if any(isinstance(s, ast.Raise) for s in body) and len(body) == 1:
    return ("raise",)
  for s in body:
    if isinstance(s, ast.Assign):
      tg = [text(t) for t in s.targets]
      if "%s[%s]" % (filled, ivar) in tg and idvar in tg and isinstance(s.value, ast.Name):
        return ("replace", s.value.id)
  return ("other",)


def r2_distinct(run, w, fn):
  R2 = run.rule("C27-R2", "a rejecting check on repeated ids dominates the gateway call; the "
                "action and the return value carry the checked list", floor=3)
  loop, filled, ivar, idvar = _fill_loop(fn)
  cfg = fn.cfg
  checks = set()
  for n in cfg.nodes:
    if n.kind != "if":
      continue
    t = n.stmt.test
    if isinstance(t, ast.Compare) and len(t.ops) == 1 and \
        isinstance(t.ops[0], (ast.NotEq, ast.Lt, ast.Gt)):
      a, b = text(t.left), text(t.comparators[0])
      forms = {"len(set(%s))" % filled, "len(%s)" % filled}
      if {a, b} == forms and any(isinstance(s, ast.Raise) for s in n.stmt.body):
        if isinstance(t.ops[0], ast.NotEq) or \
            (isinstance(t.ops[0], ast.Lt) and a.startswith("len(set(")) or \
            (isinstance(t.ops[0], ast.Gt) and b.startswith("len(set(")):
          checks.add(n.id)
  gw = [(n, c) for (n, c, nm) in fn.calls() if E.is_strict_gateway_call(c, nm, fn)]
  if not gw:
    raise AnalysisError("doBulkAddOrReplace: gateway call not found")
  # the check comes after the fill loop completed
  loop_nodes = {n.id for n in cfg.nodes if n.stmt is loop}
  ok = bool(checks) and all(cfg.dominated_by(n.id, checks) for (n, c) in gw) and \
      all(cfg.dominated_by(c, loop_nodes) for c in checks) and \
      not (cfg.reach_after(checks) & loop_nodes)
  if not checks:
    # alternative idiom: a seen-set inside the fill loop, tested on the final id of each position
    #   if row_id in seen: raise ...   /   seen.add(row_id)      (after the if/elif chain)
    chain = [st for st in loop.body if isinstance(st, ast.If)]
    tail = loop.body[loop.body.index(chain[0]) + 1:] if chain else []
    seen_test = [st for st in tail if isinstance(st, ast.If) and
                 isinstance(st.test, ast.Compare) and isinstance(st.test.ops[0], ast.In) and
                 text(st.test.left) == idvar and any(isinstance(b, ast.Raise) for b in st.body)]
    for st in seen_test:
      sv = text(st.test.comparators[0])
      adds = [c for x in tail for c in calls_in(x) if fn.name(c) == sv + ".add" and
              text(c.args[0]) == idvar]
      ok = ok or bool(adds)
  run.ob(R2, fn.qualname, "if len(set(%s)) != len(%s): raise" % (filled, filled),
         "requests whose ids repeat (explicitly, or an allocated id meeting a later explicit "
         "one) are rejected before any doc action", ok, fi=fn.fi)
  # the action is built from the checked list, and that list is what is returned
  du = DefUse(fn)
  for (n, c) in gw:
    arg = c.args[0]
    ok = du.flows_from(lambda x: isinstance(x, ast.Call) and len(x.args) >= 2 and
                       isinstance(x.args[1], ast.Name) and x.args[1].id == filled, arg)
    if text(arg) == "action":
      run.ob(R2, fn.qualname, short(c), "the record action is built with the checked id list",
             ok, fi=fn.fi, node=c)
  rets = [s for s in ast.walk(fn.node) if isinstance(s, ast.Return)]
  run.ob(R2, fn.qualname, "return %s" % filled, "the ids returned are the ids given to the "
         "action", len(rets) == 1 and text(rets[0].value) == filled, fi=fn.fi)
  # nothing rebinds or mutates the list apart from its definition and the fill loop
  body_nodes = set()
  inner = set(id(x) for st in loop.body for x in ast.walk(st))
  for n in cfg.nodes:
    if n.stmt is not None and id(n.stmt) in inner:
      body_nodes.add(n.id)
  firstdef = {n.id for n in cfg.nodes if n.kind == "stmt" and isinstance(n.stmt, ast.Assign) and
              text(n.stmt.targets[0]) == filled}
  own = du.defs.get(filled, set()) | du.muts.get(filled, set())
  extra = own - firstdef - body_nodes
  run.ob(R2, fn.qualname, "%s written only by its definition and the fill loop" % filled,
         "the checked list is not changed after the check", not extra and len(firstdef) == 1,
         fi=fn.fi)


def r3_docaction_assert(run, w):
  R3 = run.rule("C27-R3", "DocActions.BulkAddRecord asserts that none of the ids exists before "
                "its first mutation", floor=1)
  fn = w.fn("docactions.DocActions.BulkAddRecord")
  cfg = fn.cfg
  ps = fn.fi.params()
  asserts = set()
  for n in cfg.nodes:
    if n.kind == "assert":
      t = n.stmt.test
      if isinstance(t, ast.Compare) and isinstance(t.ops[0], ast.NotIn) and \
          endswith(dotted(t.comparators[0]), "row_ids"):
        # inside a loop over the row_ids parameter
        for s in ast.walk(fn.node):
          if isinstance(s, ast.For) and n.stmt in s.body and text(s.iter) == ps[2] and \
              text(s.target) == text(t.left):
            asserts.add(n.id)
  muts = E.mutation_nodes(fn) | fn.nodes_calling(E.is_undo_record)
  loops = {n.id for n in cfg.nodes if n.kind == "for" and text(n.stmt.iter) == ps[2]}
  ok = bool(asserts) and all(cfg.dominated_by(m, loops) for m in muts) and \
      not (cfg.reach_after(muts) & asserts)
  run.ob(R3, fn.qualname, "for row_id in row_ids: assert row_id not in table.row_ids",
         "an id that already exists fails the action before anything is recorded or written", ok,
         fi=fn.fi)


def r4_counter(run, w, fn):
  R4 = run.rule("C27-R4", "the allocation counter starts above every existing id and is raised "
                "past every id seen", floor=3)
  loop, filled, ivar, idvar = _fill_loop(fn)
  # counter update inside the loop: c = max(c, id) + 1, unconditional (last statement)
  last = loop.body[-1]
  counter = None
  ok = False
  if isinstance(last, ast.Assign) and isinstance(last.targets[0], ast.Name):
    counter = last.targets[0].id
    v = last.value
    ok = isinstance(v, ast.BinOp) and isinstance(v.op, ast.Add) and \
        isinstance(v.right, ast.Constant) and v.right.value == 1 and \
        isinstance(v.left, ast.Call) and dotted(v.left.func) == "max" and \
        {text(a) for a in v.left.args} == {counter, idvar}
  run.ob(R4, fn.qualname, short(last), "after every id the counter exceeds that id and never "
         "decreases", ok, fi=fn.fi, node=last)
  inits = E.local_defs(fn.node, counter) if counter else []
  init_ok = False
  for v in inits:
    if isinstance(v, ast.IfExp):
      init_ok = isinstance(v.body, ast.Constant) and v.body.value == 1 and \
          text(v.test) == "replace" and isinstance(v.orelse, ast.Call) and \
          endswith(dotted(v.orelse.func), "next_row_id")
  run.ob(R4, fn.qualname, "%s = 1 if replace else table.next_row_id()" % counter,
         "allocation starts above every existing row (or at 1 when the table is replaced)",
         init_ok, fi=fn.fi)
  nr = w.fn("table.Table.next_row_id")
  rets = [s for s in ast.walk(nr.node) if isinstance(s, ast.Return)]
  ok = len(rets) == 1 and text(rets[0].value) == "self.row_ids.max() + 1"
  run.ob(R4, nr.qualname, "return self.row_ids.max() + 1", "next id is one past the largest "
         "existing id", ok, fi=nr.fi)
  # temp-id map is recorded from the original and the filled lists (C26 relies on it too)
  ok = any(endswith(nm, "summary.update_new_rows_map") and len(c.args) == 3 and
           text(c.args[1]) == fn.fi.params()[2] and text(c.args[2]) == filled
           for (n, c, nm) in fn.calls())
  run.ob(R4, fn.qualname, "update_new_rows_map(table_id, row_ids, %s)" % filled,
         "negative placeholders are mapped to the ids actually allocated", ok, fi=fn.fi)


U = "sandbox/grist/useractions.py"
VARIANTS = [
  ("accept-zero", U, """      elif row_id == 0:
        raise ValueError("Row ID 0 is not valid")
""", "", "C27-R1"),
  ("limit-off", U, "      elif row_id > 1000000:\n        raise ValueError(\"Row ID too high\")\n",
   "      elif row_id > 10000000:\n        raise ValueError(\"Row ID too high\")\n", "C27-R1"),
  ("negatives-kept", U, "      if row_id is None or row_id < 0:", "      if row_id is None or row_id < -1:", "C27-R1"),
  ("no-distinct-check", U, """    if len(set(filled_row_ids)) != len(filled_row_ids):
      raise ValueError("Row IDs must be unique")
""", "", "C27-R2"),
  ("distinct-check-on-input", U, "    if len(set(filled_row_ids)) != len(filled_row_ids):",
   "    if len(set(row_ids)) != len(row_ids):", "C27-R2"),
  ("return-input-ids", U, "    return filled_row_ids\n", "    return row_ids\n", "C27-R2"),
  ("counter-not-raised", U, "      next_row_id = max(next_row_id, row_id) + 1", "      next_row_id = next_row_id + 1", "C27-R4"),
  ("seen-set-only-explicit-ids", U, """      elif row_id > 1000000:
        raise ValueError("Row ID too high")
      next_row_id = max(next_row_id, row_id) + 1

    # Each requested row must become a distinct row.
    if len(set(filled_row_ids)) != len(filled_row_ids):
      raise ValueError("Row IDs must be unique")
""", """      elif row_id > 1000000:
        raise ValueError("Row ID too high")
      elif row_id in explicit_ids:
        raise ValueError("Row IDs must be unique")
      else:
        explicit_ids.add(row_id)
      next_row_id = max(next_row_id, row_id) + 1
""", "C27-R2"),
  ("docaction-no-assert", "sandbox/grist/docactions.py",
   """    for row_id in row_ids:
      assert row_id not in table.row_ids, \\
          "docactions.[Bulk]AddRecord for existing record #%s" % row_id
""", "", "C27-R3"),
]
