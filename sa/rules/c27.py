"""C27 Row id allocation never collides or creates ghost rows -- structural clauses.

Roles, not spellings: the *filled list* is the local whose slots are stored inside a loop over
enumerate() of itself; the *id variable* and *index variable* are that loop's targets; the
*counter* is whatever is assigned to the id variable / the slot on the replacing paths. The id
domain is computed by a forward data-flow over the CFG of the loop body (interval domain), so any
arrangement of the tests (if/elif chain, early continue, swapped arms, nested ifs) is followed."""
import ast
from ..fn import World
from ..index import AnalysisError, dotted
from ..astutil import text, short, endswith, calls_in
from ..absdom import IntSet, cond_set, INF
from ..dataflow import DefUse
from .. import events as E
from ._h_F import ifn, Res, res_of, call_arg, canon, atoms, is_none, alias_group, need, repo_callees, every_iteration

EXPLANATION = (
  "Decides, by interpreting the id-filling loop of doBulkAddOrReplace over an interval domain, "
  "that explicit row ids accepted unchanged lie in [1, 1000000] while None/negative ids are "
  "replaced by a counter that only grows past every id seen (R1); that a rejecting check on "
  "repeated ids dominates the gateway call and the ids returned are the ids given to the action "
  "(R2); that the doc action asserts non-existence of every id before its first mutation (R3); and "
  "that the counter starts above every existing row id (R4); that Engine.add_records marks as "
  "existing exactly the requested ids, one id_column.set(id, id) per element of row_ids (R5). "
  "Not decided: the arithmetic of "
  "Table.RowIDs.max itself for arbitrary column contents.")

MAX_ID = 1000000


def check(run, repo, tier):
  w = World(repo)
  fn = ifn(w, "useractions.UserActions.doBulkAddOrReplace")
  fl = FillLoop(w, fn)
  r1_domain(run, w, fn, fl)
  r2_distinct(run, w, fn, fl)
  r3_docaction_assert(run, w)
  r4_counter(run, w, fn, fl)
  r5_id_column(run, w)


class FillLoop(object):
  """The loop `for i, row_id in enumerate(<filled>)` that stores into <filled>[i]."""
  def __init__(self, w, fn):
    self.fn = fn
    self.r = r = res_of(w, fn)
    cfg = r.cfg
    found = []
    for n in cfg.nodes:
      if n.kind != "for":
        continue
      s = n.stmt
      it = s.iter
      if not (isinstance(it, ast.Call) and dotted(it.func) == "enumerate" and it.args and
              isinstance(it.args[0], ast.Name) and isinstance(s.target, ast.Tuple) and
              len(s.target.elts) == 2 and all(isinstance(x, ast.Name) for x in s.target.elts)):
        continue
      lst, iv = it.args[0].id, s.target.elts[0].id
      inner = {id(x) for st in s.body for x in ast.walk(st)}
      stores = [m for m in cfg.nodes if m.stmt is not None and id(m.stmt) in inner and
                isinstance(m.stmt, ast.Assign) and
                any(isinstance(t, ast.Subscript) and text(t.value) == lst and
                    text(t.slice) == iv for t in m.stmt.targets)]
      if stores:
        found.append((n, lst, iv, s.target.elts[1].id, inner))
    if len(found) != 1:
      raise AnalysisError("doBulkAddOrReplace: id-filling loop not found")
    self.head, self.filled, self.ivar, self.idvar, inner = found[0]
    self.loop = self.head.stmt
    self.body = {n.id for n in cfg.nodes if n.stmt is not None and id(n.stmt) in inner}
    self.slot = "%s[%s]" % (self.filled, self.ivar)
    self._flow = None
    # other names of the same list (e.g. the caller's name when the loop came from a helper)
    self.names = alias_group(r, self.filled)

  def is_filled(self, e, nid):
    """Does expression e at node nid denote the filled list?"""
    if isinstance(e, ast.Name) and e.id in self.names:
      return True
    v = self.r.expand(e, nid)
    return isinstance(v, ast.Name) and v.id in self.names

  # ---------------------------------------------------------------- data-flow over the loop body
  def flow(self):
    """(accepted, replaced, counter): ids that reach the end of an iteration unchanged, ids whose
    slot was overwritten by the counter, and the counter's name."""
    if self._flow is not None:
      return self._flow
    r, cfg = self.r, self.r.cfg
    idvar, slot = self.idvar, self.slot
    EMPTY = IntSet()
    # state per node: E explicit (variable and slot unchanged), V variable replaced only,
    # D slot replaced; approx: some test outside the domain was crossed
    state = {}
    counters = set()
    def join(nid, st):
      old = state.get(nid)
      if old is None:
        state[nid] = st
        return True
      new = (old[0].union(st[0]), old[1].union(st[1]), old[2].union(st[2]), old[3] or st[3])
      if repr(new[:3]) == repr(old[:3]) and new[3] == old[3]:
        return False
      state[nid] = new
      return True
    work = []
    for s in cfg.succ[self.head.id]:
      if s in self.body:
        join(s, (IntSet.all(), EMPTY, EMPTY, False))
        work.append(s)
    end = [EMPTY, EMPTY, EMPTY]
    guard = 0
    while work:
      guard += 1
      if guard > 5000:
        raise AnalysisError("fill loop: data-flow did not converge")
      nid = work.pop()
      n = cfg.nodes[nid]
      Ein, Vin, Din, approx = state[nid]
      outs = []      # (successor, state)
      if n.kind == "if":
        t_succ = cfg.if_true.get(nid, set())
        exc = cfg.if_exc.get(nid, set())
        f_succ = set(cfg.succ[nid]) - t_succ - exc
        try:
          cs = cond_set(n.stmt.test, idvar)
          Et, Ef, ap = Ein.intersect(cs), Ein.minus(cs), approx
        except AnalysisError:
          Et, Ef, ap = Ein, Ein, True
        for s in t_succ:
          outs.append((s, (Et, Vin, Din, ap)))
        for s in f_succ:
          outs.append((s, (Ef, Vin, Din, ap)))
      elif n.kind == "raise_stmt":
        outs = []
      elif n.kind in ("return", "break"):
        if not (Ein.empty() and Vin.empty() and Din.empty()):
          raise AnalysisError("fill loop is left early (%s): not modelled" % n.kind)
      else:
        Eo, Vo, Do = Ein, Vin, Din
        if n.kind == "stmt" and isinstance(n.stmt, (ast.Assign, ast.AugAssign, ast.AnnAssign)):
          st = n.stmt
          tgs = [text(t) for t in (st.targets if isinstance(st, ast.Assign) else [st.target])]
          sets_var, sets_slot = idvar in tgs, slot in tgs
          if any(t.startswith(self.filled + "[") and t != slot for t in tgs) or \
              ((sets_var or sets_slot) and not isinstance(st, ast.Assign)):
            raise AnalysisError("fill loop: store %s not modelled" % short(st))
          if sets_var or sets_slot:
            v = st.value
            is_var = isinstance(v, ast.Name) and v.id == idvar
            if is_var and sets_slot and not sets_var:
              # slot := current variable: completes a replacement, keeps an explicit id
              Do, Vo = Do.union(Vo), EMPTY
            elif isinstance(v, ast.Name) and not is_var:
              if approx and not (Ein.empty()):
                raise AnalysisError("fill loop: a replacing path depends on a condition outside "
                                    "the interval domain")
              counters.add(v.id)
              if sets_slot:
                Do = Do.union(Eo).union(Vo)
                Eo, Vo = EMPTY, EMPTY
              else:
                Vo = Vo.union(Eo)
                Eo = EMPTY
            else:
              raise AnalysisError("fill loop: id rewritten by %s (not modelled)" % short(st))
        for s in cfg.succ[nid]:
          if (nid, s) in cfg.exc_edges:
            continue
          outs.append((s, (Eo, Vo, Do, approx)))
      for (s, st) in outs:
        if s == self.head.id:
          end = [end[0].union(st[0]), end[1].union(st[1]), end[2].union(st[2])]
        elif s in self.body:
          if join(s, st):
            work.append(s)
        elif s in (cfg.raise_exit.id,):
          pass
        else:
          if not (st[0].empty() and st[1].empty() and st[2].empty()):
            raise AnalysisError("fill loop is left early: not modelled")
    if not end[1].empty():
      raise AnalysisError("fill loop: the id variable is replaced on a path that does not store "
                          "it in the list")
    if len(counters) > 1:
      raise AnalysisError("fill loop: more than one replacement source: %s" % sorted(counters))
    self._flow = (end[0], end[2], (sorted(counters) or [None])[0])
    return self._flow


def r1_domain(run, w, fn, fl):
  R1 = run.rule("C27-R1", "explicit ids accepted unchanged lie in [1, 1000000]; None/negative ids "
                "are replaced by the counter", floor=3)
  accepted, replaced, counter = fl.flow()
  want = IntSet([(1, MAX_ID)])
  run.ob(R1, fn.qualname, "accepted explicit ids = %r" % accepted,
         "ids that pass through unchanged are within [1, %d] (0 is the empty record, larger ids "
         "are refused)" % MAX_ID, accepted.subset_of(want), fi=fn.fi, node=fl.loop)
  run.ob(R1, fn.qualname, "replaced ids = %r" % replaced,
         "None and every negative id are replaced by an allocated id",
         IntSet([(-INF, -1)], none=True).subset_of(replaced) and
         replaced.subset_of(IntSet([(-INF, 0)], none=True)), fi=fn.fi, node=fl.loop)
  run.ob(R1, fn.qualname, "counter variable", "replacement ids come from one counter",
         counter is not None, fi=fn.fi, nontrivial=False)
  return counter


def _distinct_atom(filled):
  """(predicate, want) pairs: tests whose outcome `want` means "no id repeats in <filled>"."""
  a, b = "len(set(%s))" % filled, "len(%s)" % filled
  def eq(x, node):
    return isinstance(x, ast.Compare) and isinstance(x.ops[0], ast.Eq) and \
        {text(x.left), text(x.comparators[0])} == {a, b}
  def lt(x, node):
    if not (isinstance(x, ast.Compare) and len(x.ops) == 1):
      return False
    l, op, rr = text(x.left), x.ops[0], text(x.comparators[0])
    return (isinstance(op, ast.Lt) and (l, rr) == (a, b)) or \
        (isinstance(op, ast.Gt) and (l, rr) == (b, a))
  def ge(x, node):
    if not (isinstance(x, ast.Compare) and len(x.ops) == 1):
      return False
    l, op, rr = text(x.left), x.ops[0], text(x.comparators[0])
    return (isinstance(op, ast.GtE) and (l, rr) == (a, b)) or \
        (isinstance(op, ast.LtE) and (l, rr) == (b, a))
  return [(eq, True), (lt, False), (ge, True)]


def r2_distinct(run, w, fn, fl):
  R2 = run.rule("C27-R2", "a rejecting check on repeated ids dominates the gateway call; the "
                "action and the return value carry the checked list", floor=3)
  r, cfg = fl.r, fl.r.cfg
  filled, idvar = fl.filled, fl.idvar
  gw = [(n, c) for (n, c, nm) in fn.calls() if E.is_strict_gateway_call(c, nm, fn)]
  if not gw:
    raise AnalysisError("doBulkAddOrReplace: gateway call not found")
  # "known distinct" at the gateway: established after the last write to the list on every path
  ok = all(any(r.known(n.id, p, want) for (p, want) in _distinct_atom(filled)) for (n, c) in gw)
  if not ok:
    # alternative idiom: a seen-set inside the fill loop, tested on the final id of each position
    #   if row_id in seen: raise ...   /   seen.add(row_id)      at the end of every iteration
    adds = [(n, c) for n in cfg.nodes if n.id in fl.body for c in calls_in(n.exprs)
            if isinstance(c.func, ast.Attribute) and c.func.attr == "add" and
            isinstance(c.func.value, ast.Name) and len(c.args) == 1 and text(c.args[0]) == idvar]
    for (n, c) in adds:
      sv = c.func.value.id
      def seen_before(x, node):
        return isinstance(x, ast.Compare) and isinstance(x.ops[0], ast.In) and \
            text(x.left) == idvar and text(x.comparators[0]) == sv
      # every iteration that completes records its final id, after testing it
      first = [s for s in cfg.succ[fl.head.id] if s in fl.body]
      every = fl.head.id not in cfg.reach(set(first), removed={n.id})
      final = not (cfg.reach_after({n.id}, removed={fl.head.id}) & r.defs.get(idvar, set()))
      ok = ok or (every and final and r.known(n.id, seen_before, False))
  run.ob(R2, fn.qualname, "if len(set(<filled>)) != len(<filled>): raise",
         "requests whose ids repeat (explicitly, or an allocated id meeting a later explicit "
         "one) are rejected before any doc action", ok, fi=fn.fi)
  # the action is built from the checked list, and that list is what is returned
  for (n, c) in gw:
    arg = call_arg(c, 0, "action")
    if arg is None:
      continue
    v = r.expand(arg, n.id)
    conv = [x for x in ast.walk(v) if isinstance(x, ast.Call) and
            endswith(dotted(x.func), "convert_action_values")]
    if not conv:
      continue        # extra actions produced by the conversion, not the record action
    def has_filled(x):
      ids = call_arg(x, 1, "row_ids")
      return isinstance(ids, ast.Name) and ids.id in fl.names
    ok = any(isinstance(x, ast.Call) and has_filled(x) for cv in conv
             for a in list(cv.args) + [k.value for k in cv.keywords] for x in ast.walk(a))
    run.ob(R2, fn.qualname, "_do_doc_action(<converted ActionType(table_id, <filled>, ...)>)",
           "the record action is built with the checked id list", ok, fi=fn.fi, node=c)
  rets = r.returns(expand=False)
  need(rets, "the value doBulkAddOrReplace returns", fn)
  run.ob(R2, fn.qualname, "return <filled>", "the ids returned are the ids given to the "
         "action", all(fl.is_filled(v, n.id) for (n, v) in rets) and
         not r.falls_off_end() and not r.bare_returns(), fi=fn.fi)
  # nothing rebinds or mutates the list apart from its definition and the fill loop
  firstdef = r.defs.get(filled, set())
  own = set()
  for nm in fl.names:
    own |= r.du.muts.get(nm, set())
  own |= r.defs.get(filled, set())
  extra = own - firstdef - fl.body
  run.ob(R2, fn.qualname, "<filled> written only by its definition and the fill loop",
         "the checked list is not changed after the check", not extra and len(firstdef) == 1 and
         not (firstdef & fl.body), fi=fn.fi)


def r3_docaction_assert(run, w):
  R3 = run.rule("C27-R3", "DocActions.BulkAddRecord asserts that none of the ids exists before "
                "its first mutation", floor=1)
  fn = ifn(w, "docactions.DocActions.BulkAddRecord")
  r = res_of(w, fn)
  cfg = fn.cfg
  ps = fn.fi.params()
  checks, loops = set(), set()
  for n in cfg.nodes:
    if n.kind not in ("assert", "if"):
      continue
    for pol in (True, False):
      for (a, p) in atoms(n.stmt.test, pol):
        if not (isinstance(a, ast.Compare) and isinstance(a.ops[0], ast.In)):
          continue
        where = r.expand(a.comparators[0], n.id)
        if not (isinstance(where, ast.Attribute) and where.attr == "row_ids"):
          continue
        encl = [l for l in r.enclosing(n.stmt, (ast.For,))
                if r.norm(l.iter) == ps[2] and text(l.target) == text(a.left)]
        if not encl:
          continue
        if n.kind == "assert":
          good = pol and not p                     # assert <id> not in <rows>
        elif p:
          # the branch on which the id exists must end in a raise
          t_succ = cfg.if_true.get(n.id, set())
          branch = t_succ if pol else set(cfg.succ[n.id]) - t_succ - cfg.if_exc.get(n.id, set())
          heads = {x.id for l in encl for x in r.nodes_of(l)}
          good = bool(branch) and not (cfg.reach(set(branch)) & (heads | {cfg.exit.id}))
        else:
          continue
        if good:
          checks.add(n.id)
          loops |= {x.id for l in encl for x in r.nodes_of(l)}
  muts = E.mutation_nodes(fn) | fn.nodes_calling(E.is_undo_record)
  need(muts, "the statements that record / apply the added rows", fn)
  ok = bool(checks) and all(cfg.dominated_by(m, loops) for m in muts) and \
      not (cfg.reach_after(muts) & checks)
  run.ob(R3, fn.qualname, "for row_id in row_ids: assert row_id not in table.row_ids",
         "an id that already exists fails the action before anything is recorded or written", ok,
         fi=fn.fi)


def r4_counter(run, w, fn, fl):
  R4 = run.rule("C27-R4", "the allocation counter starts above every existing id and is raised "
                "past every id seen", floor=3)
  r, cfg = fl.r, fl.r.cfg
  filled, idvar = fl.filled, fl.idvar
  accepted, replaced, counter = fl.flow()
  # counter update inside the loop: c = max(c, id) + 1 on every completed iteration, using the
  # final id of the position
  def is_bump(v):
    if not (isinstance(v, ast.BinOp) and isinstance(v.op, ast.Add)):
      return False
    for (m, one) in ((v.left, v.right), (v.right, v.left)):
      if isinstance(one, ast.Constant) and one.value == 1 and isinstance(m, ast.Call) and \
          dotted(m.func) == "max" and not m.keywords and \
          sorted(text(a) for a in m.args) == sorted([counter, idvar]):
        return True
    return False
  upd = [cfg.nodes[d] for d in sorted(r.defs.get(counter, ())) if d in fl.body]
  need(counter is not None, "the counter that supplies new row ids", fn)
  if not upd:
    opaque = [c for n in cfg.nodes if n.id in fl.body for c in calls_in(n.exprs)
              if repo_callees(w, fn, c)]
    if opaque:
      raise AnalysisError("doBulkAddOrReplace: the counter is not updated in the fill loop itself "
                          "and the loop calls %s, which is not followed" % short(opaque[0].func, 40))
  ok = bool(upd)
  for n in upd:
    v = r._plain_value(n, counter)
    ok = ok and v is not None and is_bump(v)
  if ok:
    first = {s for s in cfg.succ[fl.head.id] if s in fl.body}
    ids = {n.id for n in upd}
    every = fl.head.id not in cfg.reach(first, removed=ids)
    final = not (cfg.reach_after(ids, removed={fl.head.id}) & fl.body &
                 (r.defs.get(idvar, set()) - {fl.head.id}))
    ok = every and final
  run.ob(R4, fn.qualname, "<counter> = max(<counter>, <id>) + 1", "after every id the counter "
         "exceeds that id and never decreases", ok, fi=fn.fi,
         node=upd[0].stmt if upd else fl.loop)
  # initial value, as seen on entry to the loop from outside
  init_ok = False
  if True:
    outside = [p for p in cfg.pred[fl.head.id] if p not in fl.body]
    b = r.binding(fl.head.id, counter, after=outside)
    need(b is not None, "the counter's value on entry to the fill loop", fn)
    if True:
      v = r.expand(b[0], b[1])
      cs = Res.cases(v)
      rp = fn.fi.params()[4] if len(fn.fi.params()) > 4 else "replace"
      table = "self._engine.tables[%s]" % fn.fi.params()[1]
      init_ok = bool(cs)
      n_next = 0
      for (facts, leaf) in cs:
        if isinstance(leaf, ast.Constant) and leaf.value == 1:
          init_ok = init_ok and any(text(a) == rp and p for (a, p) in facts)
        elif isinstance(leaf, ast.Call) and isinstance(leaf.func, ast.Attribute) and \
            leaf.func.attr == "next_row_id" and not leaf.args and \
            text(leaf.func.value) == table:
          n_next += 1
        elif isinstance(leaf, ast.Constant):
          init_ok = False
        else:
          raise AnalysisError("doBulkAddOrReplace: initial counter value %s not understood"
                              % short(leaf, 60))
      init_ok = init_ok and n_next >= 1
  run.ob(R4, fn.qualname, "<counter> = 1 if replace else table.next_row_id()",
         "allocation starts above every existing row (or at 1 when the table is replaced)",
         init_ok, fi=fn.fi)
  nr = ifn(w, "table.Table.next_row_id")
  e = res_of(w, nr).result_expr()
  need(e is not None, "the value next_row_id() returns (a single expression)", nr)
  ok = text(e) in ("self.row_ids.max() + 1", "1 + self.row_ids.max()")
  run.ob(R4, nr.qualname, "return self.row_ids.max() + 1", "next id is one past the largest "
         "existing id", ok, fi=nr.fi)
  # temp-id map is recorded from the original and the filled lists (C26 relies on it too)
  maps = [(n, c) for (n, c, nm) in fn.calls() if endswith(nm, "update_new_rows_map")]
  need(maps, "the call recording the temporary-id map (update_new_rows_map)", fn)
  ok = all(call_arg(c, 1, "temp_row_ids") is not None and
           call_arg(c, 2, "final_row_ids") is not None and
           r.norm(call_arg(c, 1, "temp_row_ids"), n.id) == fn.fi.params()[2] and
           fl.is_filled(call_arg(c, 2, "final_row_ids"), n.id) for (n, c) in maps)
  run.ob(R4, fn.qualname, "update_new_rows_map(table_id, row_ids, <filled>)",
         "negative placeholders are mapped to the ids actually allocated", ok, fi=fn.fi)


ID_COLUMN_READS = ("size", "raw_get", "get_cell_value", "growto", "is_formula", "type_obj")


def r5_id_column(run, w):
  R5 = run.rule("C27-R5", "Engine.add_records marks as existing exactly the requested row ids: "
                "every write to the id column is set(<id>, <id>) for an element of row_ids", floor=1)
  fn = ifn(w, "engine.Engine.add_records")
  r = res_of(w, fn)
  cfg = r.cfg
  rows = fn.fi.params()[2]
  def is_id_column(e, nid):
    v = r.expand(e, nid)
    return isinstance(v, ast.Call) and isinstance(v.func, ast.Attribute) and \
        v.func.attr == "get_column" and v.args and text(v.args[0]) == "'id'"
  writes, per_row = [], []
  for n in cfg.nodes:
    st = n.stmt
    # direct stores into the id column's storage
    if n.kind == "stmt" and isinstance(st, (ast.Assign, ast.AugAssign, ast.Delete)):
      tgs = st.targets if isinstance(st, (ast.Assign, ast.Delete)) else [st.target]
      for t in tgs:
        b = t
        while isinstance(b, (ast.Subscript, ast.Attribute)):
          b = b.value
          if is_id_column(b, n.id):
            writes.append((n, st, False))
            break
    for c in calls_in(n.exprs):
      f = c.func
      if not (isinstance(f, ast.Attribute) and is_id_column(f.value, n.id)):
        continue
      if f.attr in ID_COLUMN_READS:
        continue
      if f.attr != "set" and not f.attr.startswith(("set", "unset", "copy", "clear", "load")):
        raise AnalysisError("add_records: use of the id column not understood: %s" % short(c, 60))
      good = False
      if f.attr == "set":
        a0, a1 = call_arg(c, 0, "row_id"), call_arg(c, 1, "value")
        loops = r.enclosing(st, (ast.For,)) if st is not None else []
        good = a0 is not None and a1 is not None and isinstance(a0, ast.Name) and \
            text(a0) == text(a1) and any(
              r.norm(l.iter, (r.nodes_of(l) or [n])[0].id) == rows and
              a0.id in [x.id for x in ast.walk(l.target) if isinstance(x, ast.Name)] and
              isinstance(l.target, ast.Name) for l in loops)
        if good:
          per_row.append((n, [l for l in loops if r.norm(l.iter, (r.nodes_of(l) or [n])[0].id)
                              == rows][-1]))
      writes.append((n, c, good))
  need(writes, "a write to the table's id column", fn)
  for (n, site, good) in writes:
    run.ob(R5, fn.qualname, short(site, 70), "the id column is written one requested row id at a "
           "time (index and value both that id), never over a derived range of ids", good,
           fi=fn.fi, node=site)
  # ... and on every path every requested id is written: some per-row write runs on all paths, or
  # the alternatives to it were reported above
  ok = any(every_iteration(r, l, n.id) for (n, l) in per_row)
  if per_row and all(g for (_, _, g) in writes):
    run.ob(R5, fn.qualname, "for row_id in row_ids: id_column.set(row_id, row_id)",
           "every requested id is marked as existing", ok and any(
             cfg.dominated_by(cfg.exit.id, {x.id for x in r.nodes_of(l)}) for (n, l) in per_row),
           fi=fn.fi)


U = "sandbox/grist/useractions.py"
VARIANTS = [
  ("accept-zero", U, """      elif row_id == 0:
        raise ValueError("Row ID 0 is not valid")
""", "", "C27-R1"),
  ("limit-off", U, "      elif row_id > 1000000:\n        raise ValueError(\"Row ID too high\")\n",
   "      elif row_id > 10000000:\n        raise ValueError(\"Row ID too high\")\n", "C27-R1"),
  ("negatives-kept", U, "      if row_id is None or row_id < 0:", "      if row_id is None or row_id < -1:", "C27-R1"),
  ("no-distinct-check", U, """    if len(set(filled_row_ids)) != len(filled_row_ids):
      raise ValueError("Row IDs must be unique")
""", "", "C27-R2"),
  ("distinct-check-on-input", U, "    if len(set(filled_row_ids)) != len(filled_row_ids):",
   "    if len(set(row_ids)) != len(row_ids):", "C27-R2"),
  ("return-input-ids", U, "    return filled_row_ids\n", "    return row_ids\n", "C27-R2"),
  ("counter-not-raised", U, "      next_row_id = max(next_row_id, row_id) + 1", "      next_row_id = next_row_id + 1", "C27-R4"),
  ("counter-starts-at-one", U, "    next_row_id = 1 if replace else table.next_row_id()",
   "    next_row_id = 1 if replace or not row_ids else table.next_row_id()", "C27-R4"),
  ("seen-set-only-explicit-ids", U, """      elif row_id > 1000000:
        raise ValueError("Row ID too high")
      next_row_id = max(next_row_id, row_id) + 1

    # Each requested row must become a distinct row.
    if len(set(filled_row_ids)) != len(filled_row_ids):
      raise ValueError("Row IDs must be unique")
""", """      elif row_id > 1000000:
        raise ValueError("Row ID too high")
      elif row_id in explicit_ids:
        raise ValueError("Row IDs must be unique")
      else:
        explicit_ids.add(row_id)
      next_row_id = max(next_row_id, row_id) + 1
""", "C27-R2"),
  ("ids-marked-over-a-range", "sandbox/grist/engine.py",
   "    for row_id in row_ids:\n      id_column.set(row_id, row_id)\n",
   "    for row_id in range(min(row_ids or [1]), growto_size):\n      id_column.set(row_id, row_id)\n", "C27-R5"),
  ("docaction-no-assert", "sandbox/grist/docactions.py",
   """    for row_id in row_ids:
      assert row_id not in table.row_ids, \\
          "docactions.[Bulk]AddRecord for existing record #%s" % row_id
""", "", "C27-R3"),
]
