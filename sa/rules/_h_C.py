"""Shared helpers for the C11/C12/C13/C14/C15/C20 rule modules (pure syntax; nothing is evaluated).

Flow      flow-sensitive provenance inside one function: which expressions a value may come from,
          following local names through *reaching* definitions (tuple unpacking, chained
          assignment, loop targets, comprehension targets), with the projection path applied to the
          root (element i of a call result, an element of an iterable, an attribute).
guards_of lexical guards of a statement: enclosing if/elif tests with polarity plus earlier sibling
          `if T: continue/return/raise/break` early exits.
bind_args argument -> parameter binding of a call against a FuncInfo.

Spelling-independent readers (what the rules use instead of matching statement shapes):
  guarded_views / finish_views   a rule function is evaluated on the plain source and on
          behaviour-preserving normal forms of it (_h_C_norm.py: helpers inlined, aliases and
          single-use temporaries expanded, early exits nested, branch polarity normalised,
          append-only loops as comprehensions, keyword arguments positional); it is discharged
          when it is discharged on one of them, otherwise the verdict on the plain source stands
  resolve / inline      the expression a local stands for (flow-sensitive)
  guard_atoms / split_guard      guards as atoms (test, polarity), conjunctions split, negative
          comparisons stated positively
  return_cases / value_cases     every (value, atoms) a function returns / a name may hold
  elements              the producers of a list's elements: comprehension, literal or append loop
  Conditions + f_equivalent      the condition under which a statement runs as a boolean formula
          over role-named atoms, compared with the expected one by truth table
  calls                 fn.calls() with '?.<method>' names for computed receivers
"""
import ast
from ..index import AnalysisError, dotted
from ..astutil import text, short, endswith, walk_no_nested, stmt_defs
from ..dataflow import DefUse
from .. import events as E

PASSTHROUGH = ("sorted", "list", "tuple", "reversed", "iter")   # same elements, maybe reordered
RECORD_ACTIONS = ("AddRecord", "BulkAddRecord", "UpdateRecord", "BulkUpdateRecord",
                  "ReplaceTableData")


class Root(object):
  """One possible origin of a value: kind in call/param/global/const/lit/comp/unknown, the ast
  node (or name), and the projection path applied to it."""
  __slots__ = ("kind", "node", "path", "nid")

  def __init__(self, kind, node, path=(), nid=None):
    self.kind = kind
    self.node = node
    self.path = tuple(path)
    self.nid = nid      # cfg node at which `node` is evaluated (for following call arguments)

  def plus(self, *steps):
    return Root(self.kind, self.node, self.path + tuple(steps), self.nid)

  def __repr__(self):
    n = self.node if isinstance(self.node, str) else short(self.node, 60)
    return "<%s %s %s>" % (self.kind, n, list(self.path))


def _pos_in_target(target, name):
  """Projection path of Name `name` inside an assignment target, or None."""
  if isinstance(target, ast.Name):
    return () if target.id == name else None
  if isinstance(target, (ast.Tuple, ast.List)):
    for i, el in enumerate(target.elts):
      if isinstance(el, ast.Starred):
        if any(isinstance(x, ast.Name) and x.id == name for x in ast.walk(el)):
          return (("rest", i),)
        continue
      p = _pos_in_target(el, name)
      if p is not None:
        return (("idx", i),) + p
  return None


def all_raise_cfg(fn):
  """CFG in which every statement of a try body may raise into its handlers (so that code in
  `except` blocks is reachable for reaching-definition queries)."""
  if not hasattr(fn, "_c_all_raise_cfg"):
    from ..cfg import CFG
    fn._c_all_raise_cfg = CFG(fn.node, may_raise=lambda node: True)
  return fn._c_all_raise_cfg


class Flow(object):
  def __init__(self, fn, passthrough=True, cfg=None):
    self.fn = fn
    self.cfg = cfg or fn.cfg          # e.g. all_raise_cfg(fn) to make except handlers reachable
    self.passthrough = passthrough    # see through sorted()/list()/... (same elements)
    self.du = DefUse(fn, self.cfg)
    self.defs = {}      # statement-level bindings only (comprehension targets do not leak)
    for n in self.cfg.nodes:
      if n.stmt is None:
        continue
      if n.kind in ("stmt", "for", "with"):
        for nm in stmt_defs(n.stmt):
          self.defs.setdefault(nm, set()).add(n.id)
      elif n.kind == "handler" and n.stmt.name:
        self.defs.setdefault(n.stmt.name, set()).add(n.id)
      elif n.kind == "def":
        self.defs.setdefault(n.stmt.name, set()).add(n.id)
    self.params = set(a.arg for a in fn.node.args.posonlyargs + fn.node.args.args +
                      fn.node.args.kwonlyargs)
    if fn.node.args.vararg:
      self.params.add(fn.node.args.vararg.arg)
    if fn.node.args.kwarg:
      self.params.add(fn.node.args.kwarg.arg)
    self.parent = {}
    for n in ast.walk(fn.node):
      for ch in ast.iter_child_nodes(n):
        self.parent[id(ch)] = n
    self._node_of = {}
    for n in self.cfg.nodes:
      for e in n.exprs:
        for x in walk_no_nested(e, into_lambda=True):
          self._node_of.setdefault(id(x), n.id)

  def node_of(self, expr):
    nid = self._node_of.get(id(expr))
    if nid is None:
      raise AnalysisError("%s: expression %s is not evaluated at any CFG node"
                          % (self.fn.qualname, short(expr)))
    return nid

  # ---- reaching definitions of a local name at a cfg node
  def reaching(self, name, nid):
    """(set of def node ids that reach nid's entry, whether the parameter/entry value reaches)."""
    defs = set(self.defs.get(name, set()))
    out = set()
    for d in defs:
      if nid in self.cfg.reach_after({d}, removed=defs - {nid, d}):
        out.add(d)
    from_entry = nid in self.cfg.reach({self.cfg.entry.id}, removed=defs - {nid})
    return out, from_entry

  def _comp_binding(self, name_node):
    """If the Name is bound by a lexically enclosing comprehension, (generator, path)."""
    cur = name_node
    while id(cur) in self.parent:
      par = self.parent[id(cur)]
      if isinstance(par, (ast.ListComp, ast.SetComp, ast.GeneratorExp, ast.DictComp)):
        # generators visible at the position of `cur` inside the comprehension
        visible = len(par.generators)
        for k, g in enumerate(par.generators):
          if cur is g:
            inner = name_node
            in_iter = any(x is inner for x in ast.walk(g.iter))
            in_target = any(x is inner for x in ast.walk(g.target))
            visible = k if (in_iter or in_target) else k + 1
        for g in reversed(par.generators[:visible]):
          p = _pos_in_target(g.target, name_node.id)
          if p is not None:
            return g, p
      if isinstance(par, ast.stmt):
        break
      cur = par
    return None

  def roots(self, expr, nid=None, _seen=None, depth=0):
    """All Roots the value of `expr` (evaluated at cfg node nid) may come from."""
    if nid is None:
      nid = self.node_of(expr)
    seen = _seen if _seen is not None else set()
    if depth > 40:
      return [Root("unknown", expr, (), nid)]
    r = self._roots(expr, nid, seen, depth)
    out = []
    for x in r:
      out.extend(self._project(x, seen, depth))
    return out

  def _project(self, root, seen, depth):
    """Resolve leading projections that can be applied syntactically (tuple literal element,
    comprehension element)."""
    if root.path and root.kind == "lit" and isinstance(root.node, (ast.Tuple, ast.List)):
      step = root.path[0]
      if step[0] == "idx" and step[1] < len(root.node.elts) and \
          not any(isinstance(e, ast.Starred) for e in root.node.elts):
        sub = self.roots(root.node.elts[step[1]], root.nid, seen, depth + 1)
        return [s.plus(*root.path[1:]) for s in sub]
      if step[0] == "elem":
        out = []
        for e in root.node.elts:
          out.extend(s.plus(*root.path[1:]) for s in self.roots(e, root.nid, seen, depth + 1))
        return out or [Root("empty", root.node, (), root.nid)]
    if root.path and root.kind == "comp" and root.path[0][0] == "elem" and \
        not isinstance(root.node, ast.DictComp):
      sub = self.roots(root.node.elt, root.nid, seen, depth + 1)
      return [s.plus(*root.path[1:]) for s in sub]
    return [root]

  def _roots(self, e, nid, seen, depth):
    if isinstance(e, ast.Name):
      return self._name_roots(e, nid, seen, depth)
    if isinstance(e, ast.Constant):
      return [Root("const", e, (), nid)]
    if isinstance(e, ast.Call):
      fname = dotted(e.func)
      if self.passthrough and fname in PASSTHROUGH and len(e.args) == 1 and \
          (not e.keywords or fname == "sorted"):
        return self.roots(e.args[0], nid, seen, depth + 1)
      return [Root("call", e, (), nid)]
    if isinstance(e, ast.Attribute):
      return [r.plus(("attr", e.attr)) for r in self.roots(e.value, nid, seen, depth + 1)]
    if isinstance(e, ast.Subscript):
      sl = e.slice
      if isinstance(sl, ast.Constant) and isinstance(sl.value, int):
        step = ("idx", sl.value)
      elif isinstance(sl, ast.Slice):
        step = ("slice", text(sl))
      else:
        step = ("elem",)
      return [r.plus(step) for r in self.roots(e.value, nid, seen, depth + 1)]
    if isinstance(e, ast.IfExp):
      return self.roots(e.body, nid, seen, depth + 1) + self.roots(e.orelse, nid, seen, depth + 1)
    if isinstance(e, ast.BoolOp):
      out = []
      for v in e.values:
        out.extend(self.roots(v, nid, seen, depth + 1))
      return out
    if isinstance(e, (ast.Tuple, ast.List, ast.Set, ast.Dict)):
      return [Root("lit", e, (), nid)]
    if isinstance(e, (ast.ListComp, ast.SetComp, ast.GeneratorExp, ast.DictComp)):
      return [Root("comp", e, (), nid)]
    if isinstance(e, ast.Starred):
      return self.roots(e.value, nid, seen, depth + 1)
    if isinstance(e, ast.NamedExpr):
      return self.roots(e.value, nid, seen, depth + 1)
    return [Root("unknown", e, (), nid)]

  def _name_roots(self, e, nid, seen, depth):
    name = e.id
    cb = self._comp_binding(e)
    if cb is not None:
      g, p = cb
      key = ("comp", id(g), name)
      if key in seen:
        return []
      seen = seen | {key}
      return [r.plus(("elem",), *p) for r in self.roots(g.iter, nid, seen, depth + 1)]
    return self._roots_of_name(name, e, nid, seen, depth)

  def _roots_of_name(self, name, e, nid, seen, depth):
    if name not in self.defs and name not in self.params:
      return [Root("global", name, (), nid)]
    rdefs, from_entry = self.reaching(name, nid)
    out = []
    if from_entry:
      if name in self.params:
        out.append(Root("param", name, (), nid))
      elif not rdefs:
        out.append(Root("global", name, (), nid))
    for d in sorted(rdefs):
      key = (d, name)
      if key in seen:
        continue
      sub_seen = seen | {key}
      n = self.cfg.nodes[d]
      s = n.stmt
      got = False
      if n.kind == "stmt" and isinstance(s, ast.Assign):
        for t in s.targets:
          p = _pos_in_target(t, name)
          if p is not None:
            got = True
            out.extend(r.plus(*p) for r in self.roots(s.value, d, sub_seen, depth + 1))
      elif n.kind == "stmt" and isinstance(s, ast.AugAssign) and isinstance(s.target, ast.Name) \
          and s.target.id == name:
        # in-place update: the object (for containers) is the one bound before the statement
        got = True
        out.extend(self._roots_of_name(name, e, d, sub_seen, depth + 1))
      elif n.kind == "stmt" and isinstance(s, ast.AnnAssign) and s.value is not None:
        p = _pos_in_target(s.target, name)
        if p is not None:
          got = True
          out.extend(r.plus(*p) for r in self.roots(s.value, d, sub_seen, depth + 1))
      elif n.kind == "for":
        p = _pos_in_target(s.target, name)
        if p is not None:
          got = True
          out.extend(r.plus(("elem",), *p) for r in self.roots(s.iter, d, sub_seen, depth + 1))
      elif n.kind == "with":
        for it in s.items:
          if it.optional_vars is not None:
            p = _pos_in_target(it.optional_vars, name)
            if p is not None:
              got = True
              out.extend(r.plus(("enter",), *p)
                         for r in self.roots(it.context_expr, d, sub_seen, depth + 1))
      if not got:
        out.append(Root("unknown", s if s is not None else e, (), d))
    return out

  # ---- queries
  def call_name(self, call):
    nm = self.fn.name(call)
    if nm is None and isinstance(call, ast.Call) and isinstance(call.func, ast.Attribute):
      nm = "?." + call.func.attr      # method call on a computed receiver
    return nm

  def follows(self, expr, nid, is_source, through=None, want_path=None):
    """True when every root of `expr` is a call satisfying is_source(call, name) (with projection
    path == want_path when given), possibly reached by following the argument `through[name
    suffix]` of intermediate calls. Returns (ok, witness-text)."""
    through = through or {}
    rs = self.roots(expr, nid)
    if not rs:
      return False, "no origin found for %s" % short(expr)
    for r in rs:
      ok, why = self._follow_root(r, is_source, through, want_path, 0)
      if not ok:
        return False, why
    return True, None

  def _follow_root(self, r, is_source, through, want_path, depth):
    if r.kind != "call":
      return False, "%s comes from %r" % ("value", r)
    nm = self.call_name(r.node)
    if is_source(r.node, nm):
      if want_path is not None and tuple(r.path[:len(want_path)]) != tuple(want_path):
        return False, "projection %s of %s (wanted %s)" % (list(r.path), nm, list(want_path))
      return True, None
    for suffix, (argi, keep) in through.items():
      if endswith(nm, suffix) and depth < 6 and len(r.node.args) > argi:
        if keep is not None and tuple(r.path[:len(keep)]) != tuple(keep):
          continue
        for r2 in self.roots(r.node.args[argi], r.nid):
          ok, why = self._follow_root(r2, is_source, through, want_path, depth + 1)
          if not ok:
            return False, why
        return True, None
    return False, "comes from call %s" % (nm or short(r.node))


# ---------------------------------------------------------------------------------------------

_TERMINAL = (ast.Continue, ast.Return, ast.Raise, ast.Break)


def guards_of(fnode, target):
  """[(test expr, polarity)] under which `target` (an ast node inside fnode) executes: enclosing
  if tests (True for body, False for orelse), enclosing while tests, and for every block on the
  way earlier sibling `if T: <continue/return/raise/break>` statements (T, False); an early exit
  nested in further ifs contributes the conjunction of the tests on the way (synthesised `and`
  expression, False). A top-level `not` is folded into the polarity."""
  out = []

  def escapes(s):
    """Condition chains [(test, polarity)...] under which the if-statement s leaves the block
    (its branch ends in continue/return/raise/break), looking into nested ifs."""
    res = []
    if not isinstance(s, ast.If):
      return res
    for (branch, pol) in ((s.body, True), (s.orelse, False)):
      if not branch:
        continue
      last = branch[-1]
      if isinstance(last, _TERMINAL):
        res.append([(s.test, pol)])
      elif isinstance(last, ast.If):
        for ch in escapes(last):
          res.append([(s.test, pol)] + ch)
    return res

  def conj(chain):
    parts = [t if pol else ast.UnaryOp(op=ast.Not(), operand=t) for (t, pol) in chain]
    if len(parts) == 1:
      return parts[0], None
    return ast.BoolOp(op=ast.And(), values=parts), None

  def block_guards(stmts, upto):
    for s in stmts:
      if s is upto:
        break
      for chain in escapes(s):
        if len(chain) == 1:
          t, pol = chain[0]
          out.append((t, not pol))
        else:
          out.append((conj(chain)[0], False))

  def holds(s):
    return s is target or any(x is target for x in ast.walk(s))

  def go(stmts):
    for s in stmts:
      if not holds(s):
        continue
      block_guards(stmts, s)
      if s is target:
        return True
      if isinstance(s, (ast.FunctionDef, ast.AsyncFunctionDef, ast.ClassDef)):
        return True
      if isinstance(s, ast.If):
        if any(holds(x) for x in s.body):
          out.append((s.test, True))
          return go(s.body)
        if any(holds(x) for x in s.orelse):
          out.append((s.test, False))
          return go(s.orelse)
        return True      # inside the test itself
      if isinstance(s, ast.While):
        if any(holds(x) for x in s.body):
          out.append((s.test, True))
          return go(s.body)
        if any(holds(x) for x in s.orelse):
          return go(s.orelse)
        return True
      for fld in ("body", "orelse", "finalbody"):
        b = getattr(s, fld, None)
        if isinstance(b, list) and b and isinstance(b[0], ast.stmt) and any(holds(x) for x in b):
          return go(b)
      for h in getattr(s, "handlers", []) or []:
        if any(holds(x) for x in h.body):
          return go(h.body)
      return True
    return False

  if not go(fnode.body):
    raise AnalysisError("guards_of: node not found in %s" % getattr(fnode, "name", "?"))
  norm = []
  for (t, p) in out:
    while isinstance(t, ast.UnaryOp) and isinstance(t.op, ast.Not):
      t, p = t.operand, not p
    if isinstance(t, ast.Constant) and bool(t.value) == p:
      continue          # `if True:` and the like constrain nothing
    norm.append((t, p))
  return norm


def strip_passthrough(e):
  """Look through sorted()/list()/tuple()/reversed()/iter() wrappers."""
  while isinstance(e, ast.Call) and dotted(e.func) in PASSTHROUGH and e.args and \
      (len(e.args) == 1):
    e = e.args[0]
  return e


def bind_args(call, fi, skip_self=True):
  """{param name: arg expr} for a call against FuncInfo fi (positional + keyword; *args/**kw at
  the call site are an analysis error)."""
  a = fi.node.args
  params = [x.arg for x in a.posonlyargs + a.args]
  if skip_self and params[:1] in (["self"], ["cls"]):
    params = params[1:]
  out = {}
  for i, arg in enumerate(call.args):
    if isinstance(arg, ast.Starred):
      raise AnalysisError("starred argument in call %s" % short(call))
    if i >= len(params):
      if a.vararg is None:
        raise AnalysisError("too many arguments in call %s" % short(call))
      out.setdefault("*" + a.vararg.arg, []).append(arg)
      continue
    out[params[i]] = arg
  kwonly = [x.arg for x in a.kwonlyargs]
  for k in call.keywords:
    if k.arg is None:
      raise AnalysisError("** argument in call %s" % short(call))
    if k.arg in params or k.arg in kwonly:
      out[k.arg] = k.value
    elif a.kwarg is None:
      raise AnalysisError("unknown keyword %s in call %s" % (k.arg, short(call)))
  return out


def returns_of(fnode):
  return [s for s in walk_no_nested(fnode) if isinstance(s, ast.Return)]


def is_self_attr(node, attr=None):
  return isinstance(node, ast.Attribute) and isinstance(node.value, ast.Name) and \
      node.value.id == "self" and (attr is None or node.attr == attr)


class RuleAlias(object):
  """Run proxy that re-labels rule ids, so that a rule function written for one property can be
  evaluated under another property's rule id (used where DESIGN.md says "R2 = Cxx-Ry")."""
  def __init__(self, run, mapping, site_note=None):
    self._run = run
    self._map = mapping

  def rule(self, rule_id, desc, floor=None):
    return self._run.rule(self._map.get(rule_id, rule_id), desc, floor)

  def ob(self, rule, *a, **kw):
    return self._run.ob(self._map.get(rule, rule), *a, **kw)

  def __getattr__(self, name):
    return getattr(self._run, name)


# ---------------------------------------------------------------------------------------------
# who-may-emit (C11-R1 / C20-R1): record actions reach the gateway only through
# convert_action_values (which runs prepare_new_values on every column) or the enumerated raw
# sources.

def _ctor_names(flow, call, nid, action_names):
  """Set of action type names a call may construct (callee given directly or through a local
  holding the class), or None when the call is not an action constructor."""
  e = call
  if isinstance(e.func, ast.Attribute) and e.func.attr == "simplify" and \
      isinstance(e.func.value, ast.Call):
    e = e.func.value
  d = dotted(e.func)
  if d is None:
    return None, e
  last = d.split(".")[-1]
  if last in action_names and d in (last, "actions." + last):
    return {last}, e
  if isinstance(e.func, ast.Name) and (e.func.id in flow.defs):
    names = set()
    for r in flow.roots(e.func, nid):
      nm = None
      if r.kind == "global" and r.path and all(s[0] == "attr" for s in r.path):
        nm = r.path[-1][1]
        if not (r.node == "actions" and len(r.path) == 1):
          nm = None
      if nm is None or nm not in action_names:
        return None, e
      names.add(nm)
    return names, e
  return None, e


def _is_convert(call, nm):
  return endswith(nm, "_engine.convert_action_values", "engine.convert_action_values")


THROUGH_TRIM = {"trim_update_action": (0, ())}


def who_may_emit(run, w, RID, why):
  """One obligation per gateway call site that may carry a record action with values."""
  names = set(w.doc_action_names())
  sites = 0
  undecided = []
  for fi in w.repo.all_functions():
    fn = w.fn_of(fi)
    gw = [(n, c, nm) for (n, c, nm) in fn.calls() if E.is_gateway_call(c, nm, fn)]
    if not gw:
      continue
    flow = Flow(fn)
    for (n, c, nm) in gw:
      if len(c.args) != 1:
        raise AnalysisError("%s: gateway call with %d arguments" % (fi.qualname, len(c.args)))
      arg = c.args[0]
      extra = endswith(nm, "_do_extra_doc_action")
      roots = flow.roots(arg, n.id)
      if not roots:
        raise AnalysisError("%s: no origin for gateway argument %s" % (fi.qualname, short(arg)))
      verdicts = []
      relevant = False
      try:
        for r in roots:
          v, rel = _classify_root(w, fn, flow, r, names, extra)
          verdicts.append((v, r))
          relevant = relevant or rel
      except AnalysisError as e:
        undecided.append(e)       # this site cannot be followed; the others still report
        continue
      if not relevant:
        continue      # only schema / removal actions: no cell values carried
      sites += 1
      bad = [(v, r) for (v, r) in verdicts if v is not True]
      run.ob(RID, fi.qualname, short(c),
             "a record action with cell values reaches the gateway only as a descendant of "
             "convert_action_values (so every column's prepare_new_values ran) or from an "
             "enumerated raw source; " + why, not bad,
             witness="; ".join("%s" % (v,) for (v, r) in bad) or None, fi=fi, node=c)
  if undecided:
    raise undecided[0]
  return sites


RAW_FUNCS = {
  # call that yields the action -> functions allowed to emit it raw, with the reason
  "action_from_repr": ({"useractions.UserActions.ApplyDocActions",
                        "useractions.UserActions.ApplyUndoActions"},
                       "replays already-converted stored/undo actions verbatim"),
}


def _flow_of(fn):
  if not hasattr(fn, "_c_flow"):
    fn._c_flow = Flow(fn)
  return fn._c_flow


def _call_sites(w, fi):
  """[(caller Fn, cfg node, Call)] of a private method (self.<name>(...) in a class sharing the
  method) or private module function (<name>(...) in the same module)."""
  if not (fi.name.startswith("_") and not fi.name.startswith("__")) or fi.parent is not None:
    return []
  idx = w.__dict__.setdefault("_c_call_sites", {})
  if fi.qualname in idx:
    return idx[fi.qualname]
  out = []
  for cfi in w.repo.all_functions():
    if cfi.qualname == fi.qualname:
      continue
    if fi.cls is not None:
      tm = w.repo.find_method(cfi.cls, fi.name) if cfi.cls is not None else None
      if tm is None or tm.qualname != fi.qualname:
        continue
    elif cfi.module is not fi.module:
      continue
    if not any(isinstance(x, (ast.Attribute, ast.Name)) and
               (getattr(x, "attr", None) == fi.name or getattr(x, "id", None) == fi.name)
               for x in ast.walk(cfi.node)):
      continue
    # callers are read as written (in a view that inlines helpers the call is gone)
    if "_c_plain" not in w.__dict__:
      from ..fn import World
      w.__dict__["_c_plain"] = w if type(w) is World else World(w.repo)
    cfn = w.__dict__["_c_plain"].fn_of(cfi)
    for (n, c, nm) in cfn.calls():
      if fi.cls is not None and nm == "self." + fi.name:
        out.append((cfn, n, c))
      elif fi.cls is None and nm == fi.name:
        out.append((cfn, n, c))
  idx[fi.qualname] = out
  return out


def _params_flow_from(w, fn, flow, expr, src):
  """`expr` is built from parameters of a private helper, and at every call site of the helper
  the corresponding arguments are built from an expression satisfying src."""
  ps = [p for p in fn.fi.params() if p not in ("self", "cls") and
        flow.du.flows_from(lambda x, p=p: isinstance(x, ast.Name) and x.id == p and
                           isinstance(x.ctx, ast.Load), expr)]
  sites = _call_sites(w, fn.fi)
  if not ps or not sites:
    return False
  for (cfn, cn, cc) in sites:
    try:
      b = bind_args(cc, fn.fi)
    except AnalysisError:
      return False
    cflow = _flow_of(cfn)
    if not any(p in b and cflow.du.flows_from(src, b[p]) for p in ps):
      return False
  return True


def _only_called_from(w, fi, funcs, depth=0):
  """fi is one of `funcs`, or a private helper called only from them (one or two levels)."""
  if fi.qualname in funcs:
    return True
  if depth >= 2:
    return False
  sites = _call_sites(w, fi)
  return bool(sites) and all(_only_called_from(w, cfn.fi, funcs, depth + 1)
                             for (cfn, n, c) in sites)


def _classify_root(w, fn, flow, r, names, extra, depth=0):
  """(True | reason-string, carries-values?) for one origin of a gateway argument."""
  q = fn.qualname
  if r.kind == "call":
    nm = flow.call_name(r.node)
    cn, ctor = _ctor_names(flow, r.node, r.nid, names)
    if cn is not None and not r.path:
      if not (cn & set(RECORD_ACTIONS)):
        return True, False
      # metadata-table literal: prepare_new_values has nothing to do for `_grist_*` bootstrap rows
      if ctor.args and isinstance(ctor.args[0], ast.Constant) and \
          isinstance(ctor.args[0].value, str) and ctor.args[0].value.startswith("_grist_"):
        return True, True
      # the forwarding gateway re-wraps its own parameter
      if q.endswith("._do_extra_doc_action"):
        ok = True
        for a in ctor.args:
          for ra in flow.roots(a, r.nid):
            if ra.kind != "param":
              ok = False
        return (True if ok else "re-wrapped action not built from the parameter"), True
      # back-reference clean-up: values computed by get_updates_for_removed_target_rows
      if len(ctor.args) == 3:
        src = lambda x: isinstance(x, ast.Call) and isinstance(x.func, ast.Attribute) and \
            x.func.attr == "get_updates_for_removed_target_rows"
        if all(flow.du.flows_from(src, a) or _params_flow_from(w, fn, flow, a, src)
               for a in ctor.args[1:]):
          return True, True
      return "raw %s built outside convert_action_values" % "/".join(sorted(cn)), True
    if _is_convert(r.node, nm):
      if extra:
        ok = tuple(r.path[:2]) == (("idx", 1), ("elem",))
        return (True if ok else "extra action is not an element of the adjustments list"), True
      ok = tuple(r.path[:1]) == (("idx", 0),)
      return (True if ok else "main action is not element 0 of convert_action_values"), True
    if endswith(nm, "trim_update_action") and not r.path and not extra:
      ok, why = flow.follows(r.node.args[0], r.nid, _is_convert, want_path=(("idx", 0),))
      return (True if ok else "trimmed action does not come from convert_action_values: %s" % why), True
    if endswith(nm, "recalc_from_reverse_values") and not r.path:
      return True, True     # rebuild of a reverse column from the relation (C11-R4)
    for suffix, (funcs, _reason) in RAW_FUNCS.items():
      if endswith(nm, suffix) and not r.path:
        return (True if _only_called_from(w, fn.fi, funcs)
                else "%s used outside %s" % (suffix, sorted(funcs))), True
    # a helper of the same class / module that hands the action back: decided on what it returns
    target = None
    f = r.node.func
    if isinstance(f, ast.Attribute) and isinstance(f.value, ast.Name) and f.value.id == "self" \
        and fn.fi.cls is not None:
      target = w.repo.find_method(fn.fi.cls, f.attr)
    elif isinstance(f, ast.Name):
      target = fn.fi.module.functions.get(f.id)
    if target is not None and depth < 2 and target.qualname != fn.fi.qualname:
      tfn = w.fn_of(target)
      tflow = _flow_of(tfn)
      verdict, rel = True, False
      rets = [n for n in tfn.cfg.nodes if n.kind == "return" and n.stmt.value is not None]
      if not rets:
        raise AnalysisError("%s: %s returns nothing, cannot follow the emitted action"
                            % (q, target.qualname))
      for n in rets:
        for r2 in tflow.roots(n.stmt.value, n.id):
          v2, rel2 = _classify_root(w, tfn, tflow, r2.plus(*r.path), names, extra, depth + 1)
          rel = rel or rel2
          if v2 is not True:
            verdict = v2
      return verdict, rel
    raise AnalysisError("%s: cannot follow the action produced by %s"
                        % (q, nm or short(r.node)))
  if r.kind == "param":
    if q.endswith("._do_extra_doc_action") and not r.path:
      return True, True
    # a private helper forwarding (part of) its parameter: decided at its call sites
    sites = _call_sites(w, fn.fi) if depth < 2 else []
    if sites:
      verdict, rel = True, False
      for (cfn, cn, cc) in sites:
        try:
          b = bind_args(cc, fn.fi)
        except AnalysisError:
          b = {}
        if r.node not in b:
          raise AnalysisError("cannot follow parameter %s of %s to its call in %s"
                              % (r.node, q, cfn.qualname))
        cflow = _flow_of(cfn)
        for r2 in cflow.roots(b[r.node], cn.id):
          v2, rel2 = _classify_root(w, cfn, cflow, r2.plus(*r.path), names, extra, depth + 1)
          rel = rel or rel2
          if v2 is not True:
            verdict = v2
      return verdict, rel
    raise AnalysisError("%s: the emitted action is the parameter %s and no call site of the "
                        "function could be followed" % (q, r.node))
  if r.kind == "lit" and r.path and r.path[0][0] == "elem":
    raise AnalysisError("%s: cannot follow an element of a list literal to the gateway" % q)
  if r.kind == "const" and r.node.value is None:
    return True, False
  if r.kind == "empty":
    return True, False      # element of an empty literal: nothing is emitted
  raise AnalysisError("%s: cannot follow gateway argument origin %r" % (q, r))


# ---------------------------------------------------------------------------------------------
# views: a rule function is evaluated on the plain source and on behaviour-preserving normal
# forms of it (see _h_C_norm.py); it is discharged when it is discharged on one of them.

class _BufRun(object):
  """Run proxy that records what a rule function reports, to be committed or dropped."""
  def __init__(self, run):
    self._run = run
    self.log = []           # ("rule", args, kw) | ("ob", args, kw) | ("note", msg) | ...
    self.errors = []
    self.bad = 0

  def rule(self, rule_id, desc, floor=None):
    self.log.append(("rule", (rule_id, desc, floor), {}))
    return rule_id

  def ob(self, rule, site, construct, what, ok, **kw):
    self.log.append(("ob", (rule, site, construct, what, bool(ok)), kw))
    if not ok:
      self.bad += 1
    return bool(ok)

  def note(self, msg):
    self.log.append(("note", (msg,), {}))

  def assume(self, msg):
    self.log.append(("assume", (msg,), {}))

  def analysed(self, fi):
    self.log.append(("analysed", (fi,), {}))

  def guard(self, func, *args, **kw):
    try:
      return func(*args, **kw)
    except AnalysisError as e:
      self.errors.append((getattr(func, "__name__", "?"), str(e)))
      return None

  def commit(self):
    for (kind, args, kw) in self.log:
      getattr(self._run, kind)(*args, **kw)
    for e in self.errors:
      self._run.errors.append(e)

  def __getattr__(self, name):
    return getattr(self._run, name)


_WORLDS = {}


def world_for(repo, view):
  from . import _h_C_norm as N
  key = (id(repo), view.name)
  if key not in _WORLDS:
    _WORLDS[key] = (repo, N.VWorld(repo, view))
  return _WORLDS[key][1]


def view_list():
  """Views in the order they are tried. VERIF_C_VIEW=<name> (debugging aid) forces a single one."""
  import os
  from . import _h_C_norm as N
  views = list(N.VIEWS)
  force = os.environ.get("VERIF_C_VIEW")
  if force:
    views = [v for v in views if v.name == force] or views
  return views


class _Pending(object):
  def __init__(self, func, args, kw):
    self.func, self.args, self.kw = func, args, kw
    self.tried = []        # [(view, buf, err)] in the order tried
    self.chosen = None     # index into tried of the outcome to report

  def counts(self, i):
    out = {}
    for (kind, a, k) in self.tried[i][1].log:
      if kind == "ob":
        out[a[0]] = out.get(a[0], 0) + 1
    return out


def _evaluate(run, repo, v, func, args, kw):
  buf = _BufRun(run)
  err = None
  try:
    func(buf, world_for(repo, v), *args, **kw)
  except AnalysisError as e:
    err = e
  except (AttributeError, IndexError, KeyError, TypeError, ValueError) as e:
    # a shape the rule function did not anticipate: it cannot decide on this view (the other
    # rule functions of the property still report)
    import traceback
    tb = traceback.extract_tb(e.__traceback__)
    where = "%s:%d" % (tb[-1].filename.split("/")[-1], tb[-1].lineno) if tb else "?"
    err = AnalysisError("%s: unsupported code shape (%s: %s at %s)"
                        % (getattr(func, "__name__", "?"), type(e).__name__, e, where))
  return buf, err


def _passes(buf, err):
  return err is None and not buf.bad and not buf.errors


def guarded_views(run, repo, func, *args, **kw):
  """Evaluate rule function func(run, world, *args) on each view of the sources until one
  discharges every obligation. All views are behaviour-preserving rewritings of the same code, so
  a discharge on any of them stands for the code as written; when none discharges, the outcome on
  the first (plain) view is reported. Outcomes are committed by finish_views(), which first gives
  a rule that fell short of its floor the chance to be read through a view that sees more of the
  mechanism (e.g. through an extracted helper)."""
  pend = _Pending(func, args, kw)
  run.__dict__.setdefault("_c_pending", []).append(pend)
  for v in view_list():
    buf, err = _evaluate(run, repo, v, func, args, kw)
    pend.tried.append((v, buf, err))
    if _passes(buf, err):
      pend.chosen = len(pend.tried) - 1
      return
  pend.chosen = 0


def finish_views(run, repo):
  pending = run.__dict__.pop("_c_pending", [])
  # floors of the rules, as registered so far or by the chosen outcomes
  floors = {rid: r["floor"] for rid, r in run.rules.items() if r.get("floor") is not None}
  have = {rid: r["instances"] for rid, r in run.rules.items()}
  for p in pending:
    for (kind, a, k) in p.tried[p.chosen][1].log:
      if kind == "rule" and a[2] is not None:
        floors[a[0]] = a[2]
    for rid, n in p.counts(p.chosen).items():
      have[rid] = have.get(rid, 0) + n
  short_rules = {rid for rid, fl in floors.items() if have.get(rid, 0) < fl}
  if short_rules:
    views = view_list()
    for p in pending:
      if not _passes(*p.tried[p.chosen][1:]):
        continue
      mine = set(p.counts(p.chosen)) | {a[0] for (kind, a, k) in p.tried[p.chosen][1].log
                                        if kind == "rule"}
      if not (mine & short_rules):
        continue
      best, best_n = p.chosen, sum(p.counts(p.chosen).get(r, 0) for r in short_rules)
      for v in views[len(p.tried):]:
        buf, err = _evaluate(run, repo, v, p.func, p.args, p.kw)
        p.tried.append((v, buf, err))
        if _passes(buf, err):
          n = sum(p.counts(len(p.tried) - 1).get(r, 0) for r in short_rules)
          if n > best_n:
            best, best_n = len(p.tried) - 1, n
      p.chosen = best
  for p in pending:
    (v, buf, err) = p.tried[p.chosen]
    buf.commit()
    if err is not None:
      run.errors.append((getattr(p.func, "__name__", "?"), str(err)))


# ---------------------------------------------------------------------------------------------
# spelling-independent readers

def calls(fn, cfg=None):
  """fn.calls() with a name for every method call: when the receiver is not a dotted name the
  name is '?.<method>' (so endswith(name, '<method>') still recognises the call)."""
  out = []
  for (n, c, nm) in fn.calls(cfg):
    if nm is None and isinstance(c.func, ast.Attribute):
      nm = "?." + c.func.attr
    out.append((n, c, nm))
  return out


def resolve(flow, expr, nid=None):
  """The expression a local name stands for: when `expr` is a Name with exactly one origin that
  is a call / comprehension / literal taken whole, that expression; else `expr` itself."""
  seen = 0
  while isinstance(expr, ast.Name) and seen < 6:
    seen += 1
    try:
      rs = flow.roots(expr, nid if nid is not None else flow.node_of(expr))
    except AnalysisError:
      return expr
    if len(rs) == 1 and rs[0].kind in ("call", "comp", "lit") and not rs[0].path and \
        isinstance(rs[0].node, ast.AST):
      expr, nid = rs[0].node, rs[0].nid
    else:
      break
  return expr


_POSITIVE_OP = {ast.NotEq: ast.Eq, ast.NotIn: ast.In, ast.IsNot: ast.Is}


def split_guard(t, pol):
  """Atoms [(expr, polarity)] a guard establishes: conjunctions that hold and disjunctions that
  fail are split, `not` is folded into the polarity, and negative comparisons (!=, not in, is
  not) are stated as the positive comparison with the opposite polarity."""
  out = []
  def go(e, p):
    if isinstance(e, ast.UnaryOp) and isinstance(e.op, ast.Not):
      go(e.operand, not p)
    elif isinstance(e, ast.BoolOp) and ((isinstance(e.op, ast.And) and p) or
                                        (isinstance(e.op, ast.Or) and not p)):
      for v in e.values:
        go(v, p)
    elif isinstance(e, ast.Compare) and len(e.ops) == 1 and type(e.ops[0]) in _POSITIVE_OP:
      # `a != b` / `a not in b` / `a is not b`: the positive comparison with the other polarity
      pos = ast.Compare(left=e.left, ops=[_POSITIVE_OP[type(e.ops[0])]()],
                        comparators=e.comparators)
      out.append((ast.copy_location(pos, e), not p))
    else:
      out.append((e, p))
  go(t, pol)
  return out


def guard_atoms(fnode, target):
  """guards_of() split into atoms."""
  out = []
  for (t, p) in guards_of(fnode, target):
    out.extend(split_guard(t, p))
  return out


def atom_texts(atoms):
  return sorted({(text(t), p) for (t, p) in atoms})


class Case(object):
  """One way a function returns (or a name gets its value): the value expression and the atoms
  that hold when it is chosen."""
  __slots__ = ("value", "atoms", "stmt")

  def __init__(self, value, atoms, stmt):
    self.value = value
    self.atoms = atoms
    self.stmt = stmt

  def holds(self, txt, pol):
    return any(text(t) == txt and p == pol for (t, p) in self.atoms)


def _split_ifexp(v, atoms, stmt, out):
  if isinstance(v, ast.IfExp):
    _split_ifexp(v.body, atoms + split_guard(v.test, True), stmt, out)
    _split_ifexp(v.orelse, atoms + split_guard(v.test, False), stmt, out)
  else:
    out.append(Case(v, atoms, stmt))


def return_cases(fnode):
  """Every (value, atoms) the function may return: one per return statement, conditional
  expressions split, with the atoms of the enclosing / preceding guards."""
  out = []
  for s in walk_no_nested(fnode):
    if isinstance(s, ast.Return):
      atoms = guard_atoms(fnode, s)
      _split_ifexp(s.value, atoms, s, out)
  return out


def value_cases(fn, flow, expr, nid=None, depth=0):
  """Cases of the value of `expr`: conditional expressions split; a local name is followed to
  each reaching plain assignment (with the guards of that assignment when there are several);
  any other binding (loop target, parameter, unpacking) is a case of its own: the name itself."""
  out = []
  if nid is None:
    nid = flow.node_of(expr)
  def go(e, atoms, at, d):
    if isinstance(e, ast.IfExp):
      go(e.body, atoms + split_guard(e.test, True), at, d)
      go(e.orelse, atoms + split_guard(e.test, False), at, d)
      return
    if isinstance(e, ast.Name) and d < 6 and flow._comp_binding(e) is None and \
        e.id in flow.defs:
      rdefs, from_entry = flow.reaching(e.id, at)
      many = len(rdefs) + (1 if from_entry else 0) > 1
      if from_entry:
        out.append(Case(e, atoms, None))
      for dn in sorted(rdefs):
        s = flow.cfg.nodes[dn].stmt
        g = guard_atoms(fn.node, s) if many and flow.cfg.nodes[dn].kind == "stmt" else []
        if isinstance(s, ast.Assign) and len(s.targets) == 1 and \
            isinstance(s.targets[0], ast.Name) and s.targets[0].id == e.id:
          go(s.value, atoms + g, dn, d + 1)
        else:
          out.append(Case(e, atoms + g, s))
      return
    out.append(Case(e, atoms, None))
  go(expr, [], nid, depth)
  return out


class Elem(object):
  """One producer of elements of a list / set: the element expression, the generators
  [(target, iter)] it runs under, and the conditions under which it is added."""
  __slots__ = ("elt", "gens", "conds", "nid", "site")

  def __init__(self, elt, gens, conds, nid, site):
    self.elt = elt
    self.gens = gens
    self.conds = conds
    self.nid = nid
    self.site = site


def _enclosing_loops(fnode, target):
  def go(stmts, acc):
    for s in stmts:
      if s is target or any(x is target for x in ast.walk(s)):
        if s is target:
          return acc
        if isinstance(s, (ast.FunctionDef, ast.AsyncFunctionDef, ast.ClassDef)):
          return acc
        nacc = acc + [s] if isinstance(s, (ast.For, ast.While)) else acc
        for fld in ("body", "orelse", "finalbody"):
          b = getattr(s, fld, None)
          if isinstance(b, list) and b and isinstance(b[0], ast.stmt):
            if any(x is target for y in b for x in ast.walk(y)):
              return go(b, nacc if fld == "body" else acc)
        for h in getattr(s, "handlers", []) or []:
          if any(x is target for y in h.body for x in ast.walk(y)):
            return go(h.body, acc)
        return acc
    return acc
  return go(fnode.body, [])


def elements(fn, flow, expr, nid=None):
  """[Elem] describing every way an element gets into the list/set `expr` denotes, whether it is
  written as a comprehension, a literal, or an empty container filled by append/add in loops.
  None when the construction is not understood."""
  if nid is None:
    nid = flow.node_of(expr)
  out = []
  rs = flow.roots(expr, nid)
  if not rs:
    return None
  for r in rs:
    if r.path:
      return None
    if r.kind == "comp" and isinstance(r.node, (ast.ListComp, ast.SetComp, ast.GeneratorExp)):
      gens = [(g.target, g.iter) for g in r.node.generators]
      conds = [(c, True) for g in r.node.generators for c in g.ifs]
      out.append(Elem(r.node.elt, gens, conds, r.nid, r.node))
    elif r.kind == "lit" and isinstance(r.node, (ast.List, ast.Tuple, ast.Set)):
      for e in r.node.elts:
        out.append(Elem(e, [], [], r.nid, r.node))
    elif r.kind == "call" and dotted(r.node.func) in ("list", "set") and not r.node.args:
      pass
    else:
      return None
  owners = set()
  for r in rs:
    if r.kind in ("lit", "call") and r.nid is not None:
      st = flow.cfg.nodes[r.nid].stmt
      if isinstance(st, ast.Assign) and st.value is r.node and len(st.targets) == 1 and \
          isinstance(st.targets[0], ast.Name):
        owners.add((st.targets[0].id, r.nid))
  for (X, defn) in sorted(owners):
    for nmut in sorted(flow.du.muts.get(X, set())):
      if nmut not in flow.cfg.reach_after({defn}):
        continue            # mutates an earlier binding of the name
      node = flow.cfg.nodes[nmut]
      found = False
      for c in [x for e in node.exprs for x in walk_no_nested(e) if isinstance(x, ast.Call)]:
        if isinstance(c.func, ast.Attribute) and isinstance(c.func.value, ast.Name) and \
            c.func.value.id == X:
          if c.func.attr in ("append", "add") and len(c.args) == 1:
            found = True
            if nid not in flow.cfg.reach_after({nmut}):
              continue        # happens after the use
            stmt = node.stmt
            loops = _enclosing_loops(fn.node, stmt)
            # loops that also enclose the use of the list are not generators of its elements
            ustmt = flow.cfg.nodes[nid].stmt
            use_loops = {id(l) for l in _enclosing_loops(fn.node, ustmt)} if ustmt is not None \
                else set()
            loops = [l for l in loops if id(l) not in use_loops]
            if any(isinstance(l, ast.While) for l in loops):
              return None
            if loops:
              conds = [(t, p) for (t, p) in guards_of(fn.node, stmt)
                       if _synth_within(t, loops[0])]
              if any(isinstance(x, ast.Break) for x in ast.walk(loops[0])):
                conds.append((ast.Constant(value="<break in loop>"), True))
            else:
              conds = list(guards_of(fn.node, stmt))
            out.append(Elem(c.args[0], [(l.target, l.iter) for l in loops], conds, nmut, c))
          else:
            return None
      if not found:
        return None
  return out


def _synth_within(t, container):
  """A synthesised conjunction (guards_of builds them for nested early exits) belongs to
  `container` when one of its parts does."""
  ids = {id(x) for x in ast.walk(container) if isinstance(x, ast.expr)}
  return any(id(y) in ids for y in ast.walk(t) if isinstance(y, ast.expr))


def expr_atoms(fnode, expr):
  """Atoms that hold when `expr` is evaluated: guards of its statement plus the tests of the
  conditional expressions / comprehension filters it sits in."""
  parents = {}
  for n in ast.walk(fnode):
    for ch in ast.iter_child_nodes(n):
      parents[id(ch)] = n
  atoms = []
  cur = expr
  stmt = None
  while id(cur) in parents:
    par = parents[id(cur)]
    if isinstance(par, ast.IfExp):
      if cur is par.body:
        atoms += split_guard(par.test, True)
      elif cur is par.orelse:
        atoms += split_guard(par.test, False)
    elif isinstance(par, ast.BoolOp) and isinstance(par.op, ast.And):
      i = [k for k, v in enumerate(par.values) if v is cur][0]
      for v in par.values[:i]:
        atoms += split_guard(v, True)
    elif isinstance(par, (ast.ListComp, ast.SetComp, ast.GeneratorExp, ast.DictComp)):
      if not any(cur is g for g in par.generators):
        for g in par.generators:
          for t in g.ifs:
            atoms += split_guard(t, True)
    if isinstance(par, ast.stmt):
      stmt = par
      break
    cur = par
  if stmt is not None:
    if isinstance(stmt, (ast.If, ast.While)) and cur is stmt.test:
      atoms += guard_atoms(fnode, stmt)
    else:
      atoms += guard_atoms(fnode, stmt)
  return atoms


def inline(flow, expr, nid=None, stop=(), depth=6):
  """Copy of `expr` in which every local name that has exactly one reaching binding at the point
  of evaluation, a plain `name = value` assignment, is replaced by that value (recursively).
  Flow-sensitive counterpart of DefUse.inline: a name bound several times is still replaced
  where only one of its bindings can reach. Names in `stop` and names bound by comprehensions
  are kept."""
  import copy
  if nid is None:
    for x in ast.walk(expr):          # synthesised guards are not CFG expressions themselves
      if id(x) in flow._node_of:
        nid = flow._node_of[id(x)]
        break
    if nid is None:
      return copy.deepcopy(expr)

  def value_of(name_node, at):
    if name_node.id in stop or not isinstance(name_node.ctx, ast.Load):
      return None
    if flow._comp_binding(name_node) is not None or name_node.id not in flow.defs:
      return None
    rdefs, from_entry = flow.reaching(name_node.id, at)
    if not rdefs and not from_entry:
      # code only reachable exceptionally (an except handler): fall back to "bound once"
      rdefs = set(flow.defs.get(name_node.id, ()))
      from_entry = name_node.id in flow.params
    if from_entry or len(rdefs) != 1:
      return None
    dn = next(iter(rdefs))
    s = flow.cfg.nodes[dn].stmt
    if flow.cfg.nodes[dn].kind == "stmt" and isinstance(s, ast.Assign) and \
        len(s.targets) == 1 and isinstance(s.targets[0], ast.Name) and \
        s.targets[0].id == name_node.id:
      return s.value, dn
    return None

  def go(e, at, d):
    if isinstance(e, ast.Name):
      if d > 0:
        got = value_of(e, at)
        if got is not None:
          return go(got[0], got[1], d - 1)
      return copy.deepcopy(e)
    if not isinstance(e, ast.AST):
      return e
    new = copy.copy(e)
    for fld, val in ast.iter_fields(e):
      if isinstance(val, list):
        setattr(new, fld, [go(x, at, d) if isinstance(x, ast.AST) else x for x in val])
      elif isinstance(val, ast.AST):
        setattr(new, fld, go(val, at, d))
    return new
  return go(expr, nid, depth)


# ---------------------------------------------------------------------------------------------
# conditions as boolean formulas: "under which condition does this statement run" compared with
# the condition a rule expects, by truth table over the atomic tests -- independent of nesting,
# early exits, De Morgan rewritings, merged / split tests and boolean flag locals.

def f_atom(key):
  return ("atom", key)


def f_not(f):
  if f[0] == "not":
    return f[1]
  if f[0] == "const":
    return ("const", not f[1])
  return ("not", f)


def f_and(*fs):
  return ("and", list(fs))


def f_or(*fs):
  return ("or", list(fs))


F_TRUE = ("const", True)
F_FALSE = ("const", False)


def f_atoms(f, acc=None):
  acc = acc if acc is not None else []
  if f[0] == "atom":
    if f[1] not in acc:
      acc.append(f[1])
  elif f[0] == "not":
    f_atoms(f[1], acc)
  elif f[0] in ("and", "or"):
    for x in f[1]:
      f_atoms(x, acc)
  return acc


def f_eval(f, env):
  k = f[0]
  if k == "const":
    return f[1]
  if k == "atom":
    return env[f[1]]
  if k == "not":
    return not f_eval(f[1], env)
  if k == "and":
    return all(f_eval(x, env) for x in f[1])
  return any(f_eval(x, env) for x in f[1])


def f_equivalent(f1, f2, given=None, limit=16):
  """Truth-table equivalence of two formulas (under the assumption `given`, a formula, when
  present). Raises AnalysisError when there are too many atoms to enumerate."""
  atoms = f_atoms(f1)
  f_atoms(f2, atoms)
  if given is not None:
    f_atoms(given, atoms)
  if len(atoms) > limit:
    raise AnalysisError("condition with %d atomic tests is too large to compare" % len(atoms))
  for bits in range(1 << len(atoms)):
    env = {a: bool(bits >> i & 1) for i, a in enumerate(atoms)}
    if given is not None and not f_eval(given, env):
      continue
    if f_eval(f1, env) != f_eval(f2, env):
      return False
  return True


def f_show(f):
  k = f[0]
  if k == "const":
    return str(f[1])
  if k == "atom":
    return str(f[1])
  if k == "not":
    return "not (%s)" % f_show(f[1])
  return "(" + (" %s " % k).join(f_show(x) for x in f[1]) + ")"


class Conditions(object):
  """Builds formulas for one function. key(expr) names an atomic test: rules pass a function that
  maps the tests they know to role names (e.g. 'supplied', 'never'); anything else is keyed by
  its text with locals inlined, so an unexpected test stays visible as an extra atom."""
  def __init__(self, fn, flow, key=None):
    self.fn = fn
    self.flow = flow
    self.key = key or (lambda e: None)

  def _atom(self, e):
    k = self.key(e)
    if k is None:
      k = text(inline(self.flow, e))
    if isinstance(k, tuple) and k and k[0] in ("atom", "not", "and", "or", "const"):
      return k            # the key function may answer with a formula
    return f_atom(k)

  def of_expr(self, e, nid=None, depth=0):
    if isinstance(e, ast.UnaryOp) and isinstance(e.op, ast.Not):
      return f_not(self.of_expr(e.operand, nid, depth))
    if isinstance(e, ast.BoolOp):
      parts = [self.of_expr(v, nid, depth) for v in e.values]
      return f_and(*parts) if isinstance(e.op, ast.And) else f_or(*parts)
    if isinstance(e, ast.Constant):
      return ("const", bool(e.value))
    if isinstance(e, ast.IfExp):
      c = self.of_expr(e.test, nid, depth)
      return f_or(f_and(c, self.of_expr(e.body, nid, depth)),
                  f_and(f_not(c), self.of_expr(e.orelse, nid, depth)))
    if isinstance(e, ast.Compare) and len(e.ops) == 1 and type(e.ops[0]) in _POSITIVE_OP:
      if self.key(e) is None:
        pos = ast.copy_location(ast.Compare(left=e.left, ops=[_POSITIVE_OP[type(e.ops[0])]()],
                                            comparators=e.comparators), e)
        return f_not(self._atom(pos))
    if isinstance(e, ast.Name) and depth < 4 and self.key(e) is None:
      v = self._flag(e, nid, depth)
      if v is not None:
        return v
    return self._atom(e)

  def _flag(self, name, nid, depth):
    """A boolean flag local: its value as a formula of the tests it was computed from."""
    flow = self.flow
    if flow._comp_binding(name) is not None or name.id not in flow.defs:
      return None
    if nid is None:
      nid = flow._node_of.get(id(name))
      if nid is None:
        return None
    rdefs, from_entry = flow.reaching(name.id, nid)
    if from_entry or not rdefs:
      return None
    defs = []
    for dn in sorted(rdefs):
      n = flow.cfg.nodes[dn]
      s = n.stmt
      if not (n.kind == "stmt" and isinstance(s, ast.Assign) and len(s.targets) == 1 and
              isinstance(s.targets[0], ast.Name) and s.targets[0].id == name.id):
        return None
      if not _boolean_valued(s.value):
        return None
      defs.append((dn, s))
    # later bindings override earlier ones when their guards hold
    use_guards = {id(t) for (t, p) in guards_of(self.fn.node, flow.cfg.nodes[nid].stmt)} \
        if flow.cfg.nodes[nid].stmt is not None else set()
    value = None
    for (dn, s) in defs:
      v = self.of_expr(s.value, dn, depth + 1)
      g = [(t, p) for (t, p) in guards_of(self.fn.node, s) if id(t) not in use_guards]
      if value is None:
        if g:
          return None       # the first binding must be the unconditional one
        value = v
      else:
        gf = f_and(*[self.of_expr(t, None, depth + 1) if p else
                     f_not(self.of_expr(t, None, depth + 1)) for (t, p) in g]) if g else F_TRUE
        value = f_or(f_and(gf, v), f_and(f_not(gf), value))
    return value

  def of_stmt(self, stmt, scope=None, extra=(), keep=None):
    """Conjunction of the guards under which `stmt` runs (only the tests inside `scope`, an ast
    node, resp. the tests satisfying keep(test), when given), plus extra (test, polarity)
    pairs."""
    parts = []
    for (t, p) in list(guards_of(self.fn.node, stmt)) + list(extra):
      if scope is not None and not _synth_within(t, scope):
        continue
      if keep is not None and not keep(t):
        continue
      f = self.of_expr(t)
      parts.append(f if p else f_not(f))
    return f_and(*parts) if parts else F_TRUE


def _boolean_valued(e):
  return isinstance(e, (ast.Compare, ast.BoolOp)) or \
      (isinstance(e, ast.UnaryOp) and isinstance(e.op, ast.Not)) or \
      (isinstance(e, ast.Constant) and isinstance(e.value, bool)) or \
      (isinstance(e, ast.Call) and dotted(e.func) in ("bool", "isinstance", "any", "all")) or \
      (isinstance(e, ast.IfExp) and _boolean_valued(e.body) and _boolean_valued(e.orelse))


# ---------------------------------------------------------------------------------------------
# more role readers (round 2)

def namedtuple_fields(w, class_qualname):
  """Field names of `class X(namedtuple('X', (...)))` / `X = namedtuple('X', (...))`, read from
  the code; AnalysisError when the definition is not of that form."""
  ci = w.repo.classes.get(class_qualname)
  spec = None
  if ci is not None:
    for b in ci.node.bases:
      if isinstance(b, ast.Call) and endswith(dotted(b.func), "namedtuple") and len(b.args) == 2:
        spec = b.args[1]
  else:
    modname, _, name = class_qualname.rpartition(".")
    mod = w.repo.modules.get(modname)
    v = mod.assigns.get(name) if mod is not None else None
    if isinstance(v, ast.Call) and len(v.args) == 2 and \
        endswith(dotted(v.func), "namedtuple", "namedtuple_eq"):
      spec = v.args[1]
  if isinstance(spec, (ast.Tuple, ast.List)) and \
      all(isinstance(e, ast.Constant) and isinstance(e.value, str) for e in spec.elts):
    return [e.value for e in spec.elts]
  if isinstance(spec, ast.Constant) and isinstance(spec.value, str):
    return spec.value.replace(",", " ").split()
  raise AnalysisError("%s is not a namedtuple with literal fields" % class_qualname)


def field_step(step, fields):
  """Projection step normalised to ('idx', i) for a namedtuple with the given fields."""
  if step[0] == "attr" and step[1] in fields:
    return ("idx", fields.index(step[1]))
  return step


def callable_of(w, fn, expr, flow=None):
  """(parameter names, [returned value expressions]) of the function an expression denotes: a
  lambda, a method of the same class given as self.<name>, a function of the same module (or an
  enclosing / nested def) given by name -- possibly through a local. None when it cannot be
  resolved. The values are those of every return (locals of the callee inlined)."""
  e = expr
  if flow is not None and isinstance(e, ast.Name):
    e = resolve(flow, e)
  if isinstance(e, ast.Lambda):
    return [a.arg for a in e.args.args], [e.body]
  target = None
  skip = 0
  if isinstance(e, ast.Attribute) and isinstance(e.value, ast.Name) and e.value.id == "self" and \
      fn.fi.cls is not None:
    target = w.repo.find_method(fn.fi.cls, e.attr)
    skip = 1
  elif isinstance(e, ast.Name):
    cur = fn.fi
    while cur is not None and target is None:
      target = w.repo.funcs.get(cur.qualname + "." + e.id)
      cur = cur.parent
    if target is None:
      target = fn.fi.module.functions.get(e.id)
  if target is None:
    return None
  tfn = w.fn_of(target)
  tflow = Flow(tfn)
  vals = []
  for case in return_cases(tfn.node):
    if case.value is None:
      return None
    vals.append(inline(tflow, case.value))
  if not vals:
    return None
  return target.params()[skip:], vals


def uses_of(fn, flow, is_origin):
  """[(Name node, cfg node id)] of the loads of local names every origin of which satisfies
  is_origin(Root): where a value obtained from a recognised source is used."""
  out = []
  for n in flow.cfg.nodes:
    for e in n.exprs:
      for x in walk_no_nested(e, into_lambda=True):
        if isinstance(x, ast.Name) and isinstance(x.ctx, ast.Load) and x.id in flow.defs:
          try:
            rs = flow.roots(x, n.id)
          except AnalysisError:
            continue
          if rs and all(is_origin(r) for r in rs):
            out.append((x, n.id))
  return out


def handed_to_unknown(fn, flow, uses, known=()):
  """Text of a call (other than the `known` Call nodes) that receives one of the uses as an
  argument -- the value is passed on to code the rule does not read; None when there is none."""
  par = {}
  for n in ast.walk(fn.node):
    for ch in ast.iter_child_nodes(n):
      par[id(ch)] = n
  for (x, nid) in uses:
    cur = x
    while id(cur) in par:
      up = par[id(cur)]
      if isinstance(up, ast.Call) and \
          not (known(up) if callable(known) else any(up is k for k in known)) and \
          (any(cur is a for a in up.args) or any(cur is k.value for k in up.keywords)):
        d = dotted(up.func)
        if d not in PASSTHROUGH and d not in ("len", "bool", "isinstance", "enumerate", "zip"):
          return short(up)
      if isinstance(up, ast.stmt):
        break
      cur = up
  return None


def called_elsewhere(w, method, known):
  """Qualified names of functions other than `known` that call a method / function of this name:
  when an anchor call has vanished from the function a rule reads, a new caller elsewhere means
  the mechanism moved (cannot be followed) rather than was dropped."""
  idx = w.__dict__.setdefault("_c_callers", {})
  if method not in idx:
    out = set()
    for fi in w.repo.all_functions():
      for x in ast.walk(fi.node):
        if isinstance(x, ast.Call) and \
            ((isinstance(x.func, ast.Attribute) and x.func.attr == method) or
             (isinstance(x.func, ast.Name) and x.func.id == method)):
          out.add(fi.qualname)
          break
    idx[method] = out
  return sorted(q for q in idx[method] if q not in known and
                not any(q.startswith(k + ".") for k in known))


# ---------------------------------------------------------------------------------------------
# private anchors by role (round 3): a rule names a private helper by its qualified name; when
# that name is gone (renamed, or a self-less method moved to module level / back) the helper is
# found by what it does. The name is only the first guess.

def _np(fi):
  ps = fi.params()
  return ps[1:] if ps[:1] in (["self"], ["cls"]) else ps


def _has_call(fi, pred):
  return any(isinstance(x, ast.Call) and pred(x) for x in walk_no_nested(fi.node))


def _role_adjustments_to_action(fi):
  ps = _np(fi)
  return len(ps) == 2 and _has_call(
    fi, lambda c: endswith(dotted(c.func), "BulkUpdateRecord") and c.args and
    text(c.args[0]) == ps[0] + ".table_id")


def _role_multimap_add(fi):
  ps = _np(fi)
  return len(ps) == 3 and _has_call(
    fi, lambda c: isinstance(c.func, ast.Attribute) and c.func.attr == "setdefault" and
    text(c.func.value) == ps[0] and c.args and text(c.args[0]) == ps[1])


def _role_multimap_remove(fi):
  ps = _np(fi)
  return len(ps) == 3 and _has_call(
    fi, lambda c: isinstance(c.func, ast.Attribute) and c.func.attr == "remove" and
    text(c.func.value) == "%s[%s]" % (ps[0], ps[1]) and [text(a) for a in c.args] == [ps[2]])


def _role_at(fi):
  ps = _np(fi)
  return len(ps) == 1 and any(isinstance(x, ast.Subscript) and text(x.value) == "self._row_ids"
                              and text(x.slice) == ps[0] for x in ast.walk(fi.node)) and \
      _has_call(fi, lambda c: text(c.func) == "self._table.Record")


def _role_bisect_index(fi):
  ps = _np(fi)
  return len(ps) == 3 and _has_call(
    fi, lambda c: isinstance(c.func, ast.Name) and c.func.id == ps[0] and c.args and
    text(c.args[0]) == "self._row_ids")


def _role_bisect_find(fi):
  ps = _np(fi)
  return len(ps) == 4 and any(
    isinstance(x, ast.BinOp) and isinstance(x.op, ast.Add) and
    ps[1] in (text(x.left), text(x.right)) for x in ast.walk(fi.node)) and \
      _has_call(fi, lambda c: any(text(a) == ps[0] for a in c.args) or
                any(text(k.value) == ps[0] for k in c.keywords))


def _role_find_eq(fi):
  return fi.node.args.vararg is not None and not _np(fi) and fi.cls is not None and \
      _has_call(fi, lambda c: text(c.func) == "self._table.Record" and c.args and
                isinstance(c.args[0], ast.Constant) and c.args[0].value == 0)


def _role_sorted_lookup(fi):
  kw = [a.arg for a in fi.node.args.kwonlyargs]
  return "group_by" in kw and "order_by" in kw and not fi.name.isupper() and \
      _has_call(fi, lambda c: isinstance(c.func, ast.Attribute) and
                c.func.attr == "lookup_records")


def _role_do_adjust_range(fi):
  return _has_call(fi, lambda c: text(c.func) == "self._adjustments.add") and \
      _has_call(fi, lambda c: text(c.func) == "self._insertions.add")


def _role_reset_sorted_versions(fi):
  return len(_np(fi)) == 2 and _has_call(
    fi, lambda c: isinstance(c.func, ast.Attribute) and c.func.attr == "pop" and
    isinstance(c.func.value, ast.Attribute) and c.func.value.attr == "sorted_versions")


def _role_trigger_dependencies(fi):
  return _has_call(fi, lambda c: endswith(dotted(c.func), "dep_graph.add_edge")) and \
      any(isinstance(x, ast.Name) and x.id == "SingleRowsIdentityRelation"
          for x in ast.walk(fi.node))


def _role_recompute_step(fi):
  return _has_call(fi, lambda c: isinstance(c.func, ast.Attribute) and c.func.attr == "get" and
                   isinstance(c.func.value, ast.Attribute) and
                   c.func.value.attr == "_prevent_recompute_map")


def _role_rebuild_model(fi):
  return any(isinstance(x, ast.Attribute) and x.attr == "_summary_source_table" and
             isinstance(x.ctx, ast.Store) for x in ast.walk(fi.node)) and fi.name != "__init__"


def _role_add_update_summary_col(fi):
  return sum(1 for x in ast.walk(fi.node)
             if isinstance(x, ast.FunctionDef) and x is not fi.node and
             any(isinstance(d, ast.Call) and endswith(dotted(d.func), "formulaType")
                 for d in x.decorator_list)) >= 2


def _role_list_to_value_unique(fi):
  return len(_np(fi)) == 1 and any(
    isinstance(x, ast.Raise) and x.exc is not None and
    "UniqueReferenceError" in text(x.exc) for x in ast.walk(fi.node))


def _role_do_fast_lookup(fi):
  ps = _np(fi)
  return len(ps) == 1 and _has_call(
    fi, lambda c: isinstance(c.func, ast.Attribute) and c.func.attr == "lookup_by_key" and
    c.args and isinstance(c.args[0], ast.Name) and c.args[0].id == ps[0])


ANCHOR_ROLES = {
  "column._adjustments_to_action": _role_adjustments_to_action,
  "column._multimap_add": _role_multimap_add,
  "column._multimap_remove": _role_multimap_remove,
  "records.RecordSet._at": _role_at,
  "records.RecordSet._bisect_index": _role_bisect_index,
  "records.RecordSet._bisect_find": _role_bisect_find,
  "records.RecordSet._find_eq": _role_find_eq,
  "functions.prevnext._sorted_lookup": _role_sorted_lookup,
  "relabeling.ListWithAdjustments._do_adjust_range": _role_do_adjust_range,
  "lookup.LookupMapColumn._reset_sorted_versions": _role_reset_sorted_versions,
  "lookup.LookupMapColumn._do_fast_lookup": _role_do_fast_lookup,
  "engine.Engine._maybe_update_trigger_dependencies": _role_trigger_dependencies,
  "engine.Engine._recompute_step": _role_recompute_step,
  "table.Table._rebuild_model": _role_rebuild_model,
  "table.Table._add_update_summary_col": _role_add_update_summary_col,
  "column.ReferenceColumn._list_to_value": _role_list_to_value_unique,
}


def resolve_anchor(repo, qualname):
  """FuncInfo of a private anchor: the function of that name, or -- when the name is gone -- the
  only private function of the same module (a method of the same class, of a class related to
  it, or a module-level function) that plays the anchor's role. None when there is no role for
  it or no unique candidate."""
  fi = repo.funcs.get(qualname)
  if fi is not None:
    return fi
  role = ANCHOR_ROLES.get(qualname)
  if role is None:
    return None
  # module of the anchor: the longest prefix that is a module name
  parts = qualname.split(".")
  mod = None
  for k in range(len(parts) - 1, 0, -1):
    mod = repo.modules.get(".".join(parts[:k]))
    if mod is not None:
      break
  if mod is None:
    return None
  cands = []
  for f in repo.all_functions():
    if f.module is not mod or f.parent is not None:
      continue
    if not (f.name.startswith("_") and not f.name.startswith("__")):
      continue
    try:
      if role(f):
        cands.append(f)
    except Exception:
      continue
  return cands[0] if len(cands) == 1 else None


def aname(w, qualname):
  """Current short name of a (possibly renamed) private anchor; the original one when it cannot
  be resolved (the caller's own look-up then reports the vanished anchor)."""
  fi = resolve_anchor(w.repo, qualname)
  return fi.name if fi is not None else qualname.split(".")[-1]


def calls_anchor(w, fn, call, qualname):
  """The call is to the anchor (by its current name), written as a plain name, self.<name>,
  or <anything>.<name>."""
  nm = aname(w, qualname)
  d = fn.name(call.func) or dotted(call.func)
  if d is not None:
    return d == nm or d.endswith("." + nm)
  return isinstance(call.func, ast.Attribute) and call.func.attr == nm
