"""C30 Outputs are deterministic across processes -- order-taint lint."""
import ast
from ..fn import World
from ..index import AnalysisError, dotted
from ..astutil import text, short, endswith, calls_in, walk_no_nested
from ..callgraph import CallGraph
from ..ordertaint import Analysis, REDUCERS, key_is_injective, key_has_element, key_known
from ._h_F import (ifn, Res, res_of, iterations, aliases_of, strip_wrappers, call_arg, absent,
                   sorted_view, loop_body_nodes, need, repo_callees, locate, own_params)

EXPLANATION = (
  "Order-taint analysis: iteration order of set-typed values (hash-seed / object-identity "
  "dependent) must not reach the order of emitted doc actions, the row order inside an action, or "
  "a user action's return value, unless it passes sorted()/.sort() or an order-insensitive "
  "reducer. Sinks: loops over an unordered value whose body can reach the doc-action gateway "
  "(R1), unordered values passed to calls that can reach the gateway (R2), unordered values "
  "returned by user actions (R3). The engine's own scheduling order is a total order on nodes "
  "(R4) and calc deltas are flushed in sorted order (R5). Not decided: time- or randomness-dependent "
  "formulas (excluded by the statement); key order inside a single action's dict where no "
  "emitting loop depends on it.")

GATEWAY = "useractions.UserActions._do_doc_action"

# On-demand recalculation is not an emission path for this lint: cells are evaluated in the order
# of sorted work items (R4) and their results are flushed in sorted order (R5), whatever order
# user-action code happened to touch them in.
RECALC_CUT = {"engine.Engine._use_node", "engine.Engine._recompute", "engine.Engine._update_loop",
              "engine.Engine._recompute_step", "engine.Engine._recompute_one_cell"}

# Unordered values whose order provably does not reach a reply, one reason each.
# key: (qualified function, normalised construct)
INTERNAL = {
}


def check(run, repo, tier):
  w = World(repo)
  cg = CallGraph(w)
  emit = cg.reaches({GATEWAY}, cut=RECALC_CUT)
  if len(emit) < 40:
    raise AnalysisError("fewer than 40 functions reach the gateway; call graph degraded")
  ana = Analysis(w, cg)
  run.extra["functions_reaching_gateway"] = len(emit)
  run.extra["calls_resolved"] = cg._resolved
  run.extra["calls_unresolved_or_external"] = cg._unresolved
  R0 = run.rule("C30-R0", "set-iteration sites examined (every for/comprehension over an unordered "
                "value anywhere in the engine, sanitised or not)", floor=18)
  R1 = run.rule("C30-R1", "no loop over an unordered value has a body that can reach the gateway")
  R2 = run.rule("C30-R2", "no unordered value is passed to a call that can reach the gateway")
  R3 = run.rule("C30-R3", "no unordered value is returned by a user action")
  useractions = {f.qualname for f in w.useraction_methods().values()}

  def emits(fn, nodes):
    for c in calls_in(nodes):
      for t in cg.resolve(fn, c):
        if t.qualname in emit:
          return c
    return None

  for fi in w.repo.all_functions():
    fn = w.fn_of(fi)
    ft = ana.ft(fi)
    for s in fi.node.body:
      for n in walk_no_nested(s):
        # ---- R1: loops
        if isinstance(n, (ast.For, ast.comprehension)) and not ft.unordered(n.iter) and \
            _has_unordered(ft, n.iter):
          run.ob(R0, fi.qualname, "for ... in %s" % short(n.iter, 60),
                 "iteration over an unordered value passes a sanitiser (sorted / reducer)", True,
                 fi=fi, node=n.iter, nontrivial=False)
        if isinstance(n, ast.For) and ft.unordered(n.iter):
          c = emits(fn, n.body)
          key = (fi.qualname, "for %s in %s" % (text(n.target), short(n.iter, 60)))
          run.ob(R0, fi.qualname, key[1], "iteration over an unordered value examined", True,
                 fi=fi, node=n, nontrivial=False)
          if c is not None:
            ok = key in INTERNAL
            run.ob(R1, fi.qualname, key[1], "loop over an unordered value emits doc actions in "
                   "iteration order (via %s)" % short(c, 50), ok, fi=fi, node=n,
                   witness="source: %s" % _why(ft, n.iter))
        elif isinstance(n, (ast.ListComp, ast.GeneratorExp, ast.DictComp, ast.SetComp)):
          if any(ft.unordered(g.iter) for g in n.generators):
            elt = n.elt if not isinstance(n, ast.DictComp) else n.value
            c = emits(fn, [elt])
            key = (fi.qualname, short(n, 70))
            run.ob(R0, fi.qualname, key[1], "comprehension over an unordered value examined",
                   True, fi=fi, node=n, nontrivial=False)
            if c is not None:
              run.ob(R1, fi.qualname, key[1], "comprehension over an unordered value emits doc "
                     "actions per element", key in INTERNAL, fi=fi, node=n)
        # ---- R2: arguments of emitting calls
        if isinstance(n, ast.Call):
          tg = [t for t in cg.resolve(fn, n) if t.qualname in emit]
          if tg:
            for (pos, kwname, a) in [(i, None, a) for i, a in enumerate(n.args)] + \
                [(None, k.arg, k.value) for k in n.keywords]:
              for bad in ft.tainted_names_in(a):
                if ft.is_set(bad) and not ft.is_seq(bad) and bad is a and \
                    not any(_consumes_order(t, pos, kwname, w, cg) for t in tg):
                  continue    # a set handed over as a set (membership / accumulation only)
                key = (fi.qualname, "%s(... %s ...)" % (short(n.func, 50), short(bad, 50)))
                run.ob(R2, fi.qualname, key[1], "an unordered value reaches a call that emits "
                       "doc actions; its order becomes row / action order", key in INTERNAL,
                       fi=fi, node=n, witness="source: %s" % _why(ft, bad))
        # ---- R3: return values of user actions
        if isinstance(n, ast.Return) and n.value is not None and fi.qualname in useractions:
          for bad in ft.tainted_names_in(n.value):
            key = (fi.qualname, "return %s" % short(bad, 60))
            run.ob(R3, fi.qualname, key[1], "a user action returns a value in set-iteration "
                   "order", key in INTERNAL, fi=fi, node=n)
  r4_schedule(run, w)
  r5_sorted_flush(run, w)


def _has_unordered(ft, e):
  for x in ast.walk(e):
    if isinstance(x, (ast.Name, ast.Attribute, ast.Set, ast.SetComp, ast.Call, ast.BinOp)) and \
        ft.unordered(x):
      return True
  return False


def _consumes_order(fi, pos, kwname, w=None, cg=None, depth=3):
  """Does callee fi iterate (order-sensitively) the parameter bound to this argument? A parameter
  handed on to another repository function is followed into it (a few levels)."""
  ps = fi.params()
  if fi.cls is not None and ps[:1] == ["self"]:
    ps = ps[1:]
  if kwname is not None:
    p = kwname if kwname in ps else None
  else:
    p = ps[pos] if pos is not None and pos < len(ps) else None
  if p is None:
    return True     # *args/**kwargs: unknown, assume consumed
  for s in fi.node.body:
    for n in walk_no_nested(s):
      it = None
      if isinstance(n, (ast.For, ast.comprehension)):
        it = n.iter
      elif isinstance(n, ast.Call) and dotted(n.func) in ("list", "tuple", "itertools.groupby",
                                                            "zip", "enumerate", "iter"):
        it = n.args[0] if n.args else None
      if it is not None and isinstance(it, ast.Name) and it.id == p:
        return True
      # handed on to another function
      if isinstance(n, ast.Call) and dotted(n.func) not in REDUCERS:
        if any(isinstance(a, ast.Name) and a.id == p for a in n.args) and \
            dotted(n.func) not in ("len", "isinstance", "sorted", "set", "frozenset", "bool"):
          if isinstance(n.func, ast.Attribute) and n.func.attr in ("update", "add", "discard",
                                                                    "difference_update"):
            continue
          if w is not None and cg is not None and depth > 0 and not n.keywords and \
              not any(isinstance(a, ast.Starred) for a in n.args):
            tg2 = cg.resolve(w.fn_of(fi), n)
            poss = [i for i, a in enumerate(n.args) if isinstance(a, ast.Name) and a.id == p]
            if tg2 and all(not _consumes_order(t2, i, None, w, cg, depth - 1)
                           for t2 in tg2 for i in poss):
              continue
          return True
  return False


def _why(ft, e):
  if isinstance(e, ast.Name):
    for s in ft.fn.node.body:
      for n in walk_no_nested(s):
        if isinstance(n, ast.Assign) and any(isinstance(t, ast.Name) and t.id == e.id
                                             for t in n.targets) and ft.unordered(n.value):
          return "%s = %s" % (e.id, short(n.value, 80))
    return "%s (built while iterating an unordered value)" % e.id
  return short(e, 80)


def _sorted_calls(fn):
  """(cfg node, call) of every sorted(...) evaluated in fn."""
  return [(n, c) for (n, c, nm) in fn.calls() if nm == "sorted" and c.args]


UPDATE_LOOP_CALLERS = ("engine.Engine._bring_all_up_to_date",
                       "engine.Engine._bring_mlookups_up_to_date", "engine.Engine._update_loop")


def _builder_call(w, f, fr, n, e):
  """(call, [repo functions it resolves to]) when expression e at node n is -- through locals --
  the result of a call of a repo function; else None."""
  a = fr.expand(e, n.id)
  if isinstance(a, ast.Name):
    vals = fr.values_at(n.id, a.id)
    if vals and len({text(fr.expand(v, d)) for (v, d) in vals}) == 1:
      a = fr.expand(vals[0][0], vals[0][1])
  if isinstance(a, ast.Call):
    tg = repo_callees(w, f, a)
    if tg:
      return a, tg
  return None


def r4_schedule(run, w):
  R4 = run.rule("C30-R4", "work items are ordered by a total order on nodes (lookups first)",
                floor=1)
  # The work-item builder is found by role: the function whose result is handed to _update_loop
  # (and assigned to its work list inside the loop), whatever it is called and wherever it lives.
  sites = []          # (caller Fn, Res, node, call, handed expression)
  for q in UPDATE_LOOP_CALLERS:
    f = w.fn(locate(w, q))
    fr = res_of(w, f)
    for (n, c, nm) in f.calls():
      if endswith(nm, "_update_loop") and call_arg(c, 0, "work_items") is not None:
        sites.append((f, fr, n, c, call_arg(c, 0, "work_items"), "call"))
    if q.endswith("_update_loop"):
      wp = own_params(f)[0]
      for n in fr.cfg.nodes:
        if n.kind == "stmt" and isinstance(n.stmt, ast.Assign) and \
            any(text(t) == wp for t in n.stmt.targets):
          sites.append((f, fr, n, None, n.stmt.value, "refill"))
  need([x for x in sites if x[5] == "call"], "the calls of _update_loop", None)
  need([x for x in sites if x[5] == "refill"], "the statement that refills the work list inside "
       "the update loop", None)
  builders = {}
  resolved = []
  for (f, fr, n, c, e, kind) in sites:
    bc = _builder_call(w, f, fr, n, e)
    resolved.append(bc)
    if bc is not None:
      for t in bc[1]:
        builders[t.qualname] = t
  need(builders, "the function that builds the sorted work items", None)
  # the one used most is *the* builder; a site using something else is reported below
  counts = {}
  for bc in resolved:
    if bc is not None and len(bc[1]) == 1:
      counts[bc[1][0].qualname] = counts.get(bc[1][0].qualname, 0) + 1
  need(counts, "the function that builds the sorted work items", None)
  bq = sorted(counts, key=lambda k: (-counts[k], k))[0]
  fn = ifn(w, bq)
  r = res_of(w, fn)
  p = need(own_params(fn), "the builder's parameter", fn)[0]
  # every iteration that involves the nodes handed in goes over a sorted view of them whose key
  # contains the node itself
  ok, n_sorted, n_seen = True, 0, 0
  names = aliases_of(r, p)
  for (it, tg, body, owner) in iterations(fn.node):
    at = r.node_of_expr(it) if not isinstance(owner, ast.For) else r.nodes_of(owner)
    if not at:
      continue
    t = r.expand(it, at[0].id)
    mentions = any(isinstance(x, ast.Name) and x.id in names for x in ast.walk(t)) or \
        (isinstance(it, ast.Name) and any(
          isinstance(x, ast.Name) and x.id in names
          for (v, d) in (r.values_at(at[0].id, it.id) or []) for x in ast.walk(r.expand(v, d))))
    if not mentions:
      continue
    n_seen += 1
    if isinstance(t, ast.Call) and dotted(t.func) != "sorted" and repo_callees(w, fn, t):
      raise AnalysisError("%s: the nodes are ordered by %s, which is not followed"
                          % (fn.qualname, short(t.func, 50)))
    sv = sorted_view(r, fn, it, at[0].id)
    if sv is not None and not key_known(fn, sv[1]):
      raise AnalysisError("%s: the sort key %s cannot be inspected" % (fn.qualname,
                                                                        short(sv[1], 60)))
    good = sv is not None and isinstance(sv[0], ast.Name) and sv[0].id in names and \
        key_has_element(fn, sv[1])
    n_sorted += good
    ok = ok and good
  need(n_seen, "an iteration over the nodes handed in", fn)
  run.ob(R4, fn.qualname, "sorted(nodes, key=lambda n: (..., n))", "scheduling order does not "
         "depend on dict/set iteration order: the sort key contains the node itself", ok, fi=fn.fi)
  for (f, fr, n, c, e, kind), bc in zip(sites, resolved):
    if bc is None:
      a = fr.expand(e, n.id)
      if isinstance(a, ast.Name) or (isinstance(a, ast.Call) and not repo_callees(w, f, a) and
                                     dotted(a.func) not in ("list", "sorted", "reversed")):
        raise AnalysisError("%s: what is handed to the update loop (%s) could not be traced"
                            % (f.qualname, short(a, 50)))
    ok = bc is not None and [t.qualname for t in bc[1]] == [bq]
    if kind == "call":
      run.ob(R4, f.qualname, "self._update_loop(<sorted work items>%s)" %
             "".join(", %s=%s" % (k.arg, text(k.value)) for k in c.keywords),
             "update loop starts from sorted work items", ok, fi=f.fi, node=c)
    else:
      run.ob(R4, f.qualname, "work_items = self._make_sorted_work_items(self.recompute_map.keys())",
             "remaining work is re-sorted on every round", ok, fi=f.fi)


def _defs(fnode, name):
  return [n.value for s in fnode.body for n in walk_no_nested(s)
          if isinstance(n, ast.Assign) and any(isinstance(t, ast.Name) and t.id == name
                                               for t in n.targets)]


def _outside_sorted(e, pred):
  """Does a sub-expression satisfying pred occur in e other than inside the operand of a
  sorted(...) call (or of an order-insensitive reducer)?"""
  if pred(e):
    return True
  if isinstance(e, ast.Call) and dotted(e.func) in REDUCERS and e.args:
    return any(_outside_sorted(a, pred) for a in e.args[1:]) or \
        any(_outside_sorted(k.value, pred) for k in e.keywords)
  return any(_outside_sorted(ch, pred) for ch in ast.iter_child_nodes(e))


def _parent_of(node, x):
  for root in node.exprs:
    for p in ast.walk(root):
      for ch in ast.iter_child_nodes(p):
        if ch is x:
          return p
  return None


def _inside(root, node):
  return any(x is node for x in ast.walk(root))


def r5_sorted_flush(run, w):
  R5 = run.rule("C30-R5", "calc deltas become actions in sorted (table, column, row) order; "
                "auto-removals are applied in sorted order", floor=3)
  fn = ifn(w, "action_summary.ActionSummary.convert_deltas_to_actions")
  r = res_of(w, fn)
  # every loop from which the per-column conversion is reached iterates a sorted(...) value
  conv = [c for (n, c, nm) in fn.calls() if endswith(nm, "self._changes_to_actions")]
  loops = [(it, owner) for (it, tg, body, owner) in iterations(fn.node)
           if any(_inside(b, c) for b in body for c in conv)]
  need(conv, "the call of _changes_to_actions", fn)
  need(loops, "the loop(s) around the call of _changes_to_actions", fn)
  ok = True
  for (it, owner) in loops:
    at = r.node_of_expr(it)
    need(at, "where the loop iterable is evaluated", fn)
    t = r.expand(it, at[0].id)
    sv = sorted_view(r, fn, it, at[0].id)
    if sv is None and isinstance(t, ast.Call) and repo_callees(w, fn, t):
      raise AnalysisError("convert_deltas_to_actions: iterates the result of %s, which is not "
                          "followed" % short(t.func, 50))
    ok = ok and sv is not None and key_is_injective(fn, sv[1])
  run.ob(R5, fn.qualname, "for table_id in sorted(...): for col_id in sorted(...)",
         "calc actions are emitted by table then column name", ok, fi=fn.fi)
  # rows of one column delta: every iteration over the delta dict feeds a sorted(...)
  fn = ifn(w, "action_summary.ActionSummary._changes_to_actions")
  r = res_of(w, fn)
  dp = fn.fi.params()[3]
  names = aliases_of(r, dp)
  srt = _sorted_calls(fn)
  n_it = 0
  ok = True
  def order_free_use(x, node):
    """Is this read of an accumulated list insensitive to its order (or does it put it in order)?"""
    par = _parent_of(node, x)
    if isinstance(par, ast.Call) and dotted(par.func) in REDUCERS and par.args and \
        par.args[0] is x:
      return dotted(par.func) != "sorted" or key_is_injective(fn, par)
    if isinstance(par, ast.Attribute) and par.attr == "sort":
      return True
    if isinstance(par, ast.UnaryOp) and isinstance(par.op, ast.Not):
      return True
    if node.kind in ("if", "while") and node.stmt.test is x:
      return True
    return False
  for (it, tg, body, owner) in iterations(fn.node):
    base = it
    while isinstance(base, ast.Call) and isinstance(base.func, ast.Attribute) and \
        base.func.attr in ("items", "keys", "values", "iteritems") and not base.args:
      base = base.func.value
    base = strip_wrappers(base)
    if not (isinstance(base, ast.Name) and base.id in names):
      continue
    n_it += 1
    if any(_inside(c.args[0], owner) for (n, c) in srt if key_is_injective(fn, c)):
      continue          # iterated inside the operand of a sorted(...)
    # otherwise: whatever is accumulated in iteration order must be sorted before any other use
    acc = set()
    if isinstance(owner, ast.For):
      inner = loop_body_nodes(r, owner)
      for nm, ms in r.du.muts.items():
        if set(ms) & inner:
          acc.add(nm)
      skip = inner | {x.id for x in r.nodes_of(owner)}
    else:
      at = r.node_of_expr(owner)
      skip = set()
      if at and at[0].kind == "stmt" and isinstance(at[0].stmt, ast.Assign) and \
          at[0].stmt.value is owner and len(at[0].stmt.targets) == 1 and \
          isinstance(at[0].stmt.targets[0], ast.Name):
        acc.add(at[0].stmt.targets[0].id)
        skip = {at[0].id}
      else:
        ok = False
        continue
    for L in acc:
      sorts = {n.id for n in r.cfg.nodes for c in calls_in(n.exprs)
               if isinstance(c.func, ast.Attribute) and c.func.attr == "sort" and
               isinstance(c.func.value, ast.Name) and c.func.value.id == L and
               key_is_injective(fn, c)}
      for n in r.cfg.nodes:
        if n.id in skip:
          continue
        for e in n.exprs:
          for x in walk_no_nested(e, into_lambda=True):
            if isinstance(x, ast.Name) and x.id == L and isinstance(x.ctx, ast.Load):
              if order_free_use(x, n) or (sorts and r.cfg.dominated_by(n.id, sorts)):
                continue
              ok = False
  run.ob(R5, fn.qualname, "full_row_ids = sorted(...)", "rows inside a calc action are in row id "
         "order", ok and bool(need(n_it, "an iteration over the column delta", fn)), fi=fn.fi)
  fn = ifn(w, "docmodel.DocModel.apply_auto_removes")
  r = res_of(w, fn)
  # every iteration over / copy of the auto-remove set goes through sorted()
  is_set = lambda x: isinstance(x, ast.Attribute) and x.attr == "_auto_remove_set"
  need(any(is_set(x) for x in ast.walk(fn.node)), "a use of self._auto_remove_set", fn)
  ok = False
  for (n, c) in _sorted_calls(fn):
    if "._auto_remove_set" in ("." + r.norm(c.args[0], n.id)):
      ok = True
  if not ok:
    # not sorted here: a violation only if the set is visibly iterated / copied in another order
    seen_raw = False
    for cn in r.cfg.nodes:
      for e in cn.exprs:
        for x in walk_no_nested(e):
          if isinstance(x, ast.Call) and dotted(x.func) in ("list", "tuple", "iter") and \
              x.args and is_set(r.expand(x.args[0], cn.id)):
            seen_raw = True
    for (it, tg, body, owner) in iterations(fn.node):
      at = r.node_of_expr(it)
      if at and _outside_sorted(r.expand(it, at[0].id), is_set):
        seen_raw = True
    need(seen_raw, "how the records of self._auto_remove_set are put in order", fn)
  for (it, tg, body, owner) in iterations(fn.node):
    at = r.node_of_expr(it)
    t = r.expand(it, at[0].id) if at else it
    if _outside_sorted(t, lambda x: isinstance(x, ast.Attribute) and x.attr == "_auto_remove_set"):
      ok = False
  run.ob(R5, fn.qualname, "gone_records = sorted(self._auto_remove_set, ...)",
         "auto-removals happen in a deterministic order", ok, fi=fn.fi)


U = "sandbox/grist/useractions.py"
VARIANTS = [
  ("rename-summary-unsorted", U, "    for table in sorted(rename_summary_tables):\n", "    for table in rename_summary_tables:\n", "C30-R1"),
  ("parent-sections-unsorted", U, "    for section in sorted(parent_sections):\n", "    for section in parent_sections:\n", "C30-R2"),
  ("upsert-keys-unsorted", U, "    add_record_values = {k: [] for k in sorted(col_keys | require_add_keys - {'id'})}",
   "    add_record_values = {k: [] for k in col_keys | require_add_keys - {'id'}}", "C30-R2"),
  ("bulk-values-unsorted", U, "    for key in sorted(all_keys)\n", "    for key in all_keys\n", "C30-R2"),
  ("backrefs-unsorted", U, "    for ref_col in sorted(table._back_references, key=lambda c: c.node):",
   "    for ref_col in table._back_references:", "C30-R1"),
  ("autoremove-unsorted", "sandbox/grist/docmodel.py",
   """    gone_records = sorted(
      self._auto_remove_set,
      # Remove tables last to prevent errors trying to remove rows or columns from deleted tables.
      key=lambda r: (r._table.table_id == "_grist_Tables", r)
    )""", "    gone_records = list(self._auto_remove_set)", "C30-R2"),
  ("removals-unsorted", U, "    all_removals = col_recs + sorted(c for c in more_removals if c.id and c not in orig_removals)",
   "    all_removals = col_recs + [c for c in more_removals if c.id and c not in orig_removals]", "C30-R2"),
  ("useraction-returns-set-order", U, "    return filled_row_ids\n", "    return list(set(filled_row_ids))\n", "C30-R3"),
  ("group-sort-key-not-injective", "sandbox/grist/table.py",
   "        for values_tuple in sorted(itertools.product(*lookup_values)):",
   "        for values_tuple in sorted(itertools.product(*lookup_values), key=lambda t: [str(v).lower() for v in t]):", "C30-R2"),
  ("work-items-not-total", "sandbox/grist/engine.py",
   "key=lambda n: (not n.col_id.startswith('#lookup'), n))", "key=lambda n: (not n.col_id.startswith('#lookup'), n.table_id))", "C30-R4"),
  ("deltas-unsorted", "sandbox/grist/action_summary.py", "    for table_id in sorted(self._tables):", "    for table_id in self._tables:", "C30-R5"),
]
