"""C03 Redo after undo reproduces the post-bundle state -- structural clauses.

Relies on C02-R1/R2/R6 (one gateway records exactly the action it applies; every action type has an
interpreter) and C01-R4; those are decided by the C02 / C01 modules and not repeated here.

Design deviations (DESIGN.md section 4, C03):
  * The design's R2 ("the action given to the gateway in doBulkAddOrReplace / doBulkUpdateRecord is
    a def-use descendant of Engine.convert_action_values") is NOT implemented: it is not a necessary
    condition of this property. The gateway applies the very object it records (C02-R1), so a
    replay of a recorded-but-unconverted action rebuilds the same (unconverted) state; breaking
    that rule breaks value conversion (C22/C23), not redo.
  * What a replay can diverge on is *hidden state consulted while a doc action is applied*. The
    mechanism that matters is decided here instead: the per-user-action exemption map that
    keeps replayed explicit values of trigger-formula columns from being recalculated (R3). The
    other one -- the request to evaluate default/trigger formulas of data columns
    (data_cols_to_recompute / recompute_data_col), made by user-level code only -- was considered
    and left out: the original bundle runs the same doc-action code as the replay, and a replayed
    explicit value is shielded by R3, so a violation shows up in a redo only for formulas that
    depend on something outside the document AND happened to return the stored value the first
    time; that is too weak to be called a necessary condition.

How the clauses are decided (roles, not spellings -- helpers in _h_A.py): every anchored function is
looked at through the Inliner (small same-class / same-module helpers dissolved into the caller, so
"a few statements extracted into a helper" leaves the analysed code unchanged); operands are
compared after Expander normalisation (single-assignment locals replaced by what they stand for,
tuple unpacking included); arguments are matched against the callee's signature (positional or
keyword); returned values are followed through locals (`r = E; return r`); guards are decided by
path-sensitive reachability over atoms (Facts), so `if c: X`, `if not c: return` + X and swapped
branches are the same thing; writes found in a helper are attributed to the functions that call it
(Owners), and the position-sensitive clauses then see them inlined at the call.
"""
import ast
from ..fn import World
from ..index import AnalysisError, dotted
from ..astutil import text, short, endswith, calls_in, walk_no_nested, names_loaded, enclosing_chain
from ..dataflow import DefUse
from .. import events as E
from .. import types as T
from ._h_A import canonicalise
from ._h_A import (FactReach, Facts, nodes_of_stmts, nodes_for, kwarg, is_const, stmts_in,
                   attr_sites, obj_sites, MUTATING, inliner, expander, returns_of, bind_call,
                   call_arg, strip_wrappers, real_loops, Owners, atom_of, followed, enclosing_loops,
                   innermost_loop, need, opaque_parts)

EXPLANATION = (
  "Decides that stored actions are self-contained and replayed the way they were applied. R1: "
  "get_action_repr / action_from_repr are an inverse pair: both walk the action with the same "
  "convert_recursive_in_action, one with encode_object, the other with decode_object, and the "
  "type name / argument split agree. R2: ApplyDocActions hands every element of its argument, in "
  "forward order, decoded by action_from_repr, to the gateway, unconditionally. R3: a replayed "
  "explicit value of a trigger-formula column is not recalculated: DocActions.BulkUpdateRecord "
  "exempts every non-formula column it writes (same rows), the exemption map is written only by "
  "Engine.prevent_recalc, cleared only by apply_user_actions and never between applying a user "
  "action and the recalculation that follows, only read (never consumed) by _recompute_step, which subtracts the exempt rows before scanning, and exemptions "
  "are lifted only by user-level code (which a replay never runs); DocActions.BulkAddRecord exempts "
  "the non-formula columns it is given values for, the same way. Relies "
  "on C02-R1/R2/R6 and C01-R4. Not decided: equality of the replayed state (formulas that are "
  "not functions of the document are outside any structural rule).")

PMAP = "_prevent_recompute_map"
READS = ("get", "keys", "values", "items", "copy", "__contains__", "__getitem__")
STEP = "engine.Engine._recompute_step"


def check(run, repo, tier):
  canonicalise(repo)
  w = World(repo)
  r1_codec(run, w)
  r2_forward_replay(run, w)
  r3_exemptions(run, w)


# ------------------------------------------------------------------------------------------
def _rets(fn):
  """[(Return stmt, resolved value)] of the value-returning returns, one entry per statement."""
  out, seen = [], set()
  for (n, s, v) in returns_of(fn):
    if v is not None and (id(s), text(v)) not in seen:
      seen.add((id(s), text(v)))
      out.append((s, v))
  return out


def _walker_call(w, e):
  """If e is a call of convert_recursive_in_action return its (converter, data) arguments."""
  if isinstance(e, ast.Call) and endswith(dotted(e.func), "convert_recursive_in_action"):
    m = bind_call(e, w.repo.func("actions.convert_recursive_in_action"))
    if m is not None:
      return m.get("converter"), m.get("data")
  return None


def _seq_parts(e):
  """A list-valued expression as parts: ("elt", e) single elements, ("spread", e) sub-sequences.
  [a] + list(x), [a, *x], [a] + x all read [elt a, spread x]."""
  if isinstance(e, (ast.List, ast.Tuple)):
    out = []
    for x in e.elts:
      if isinstance(x, ast.Starred):
        out.append(("spread", strip_wrappers(x.value)))
      else:
        out.append(("elt", x))
    return out
  if isinstance(e, ast.BinOp) and isinstance(e.op, ast.Add):
    return _seq_parts(e.left) + _seq_parts(e.right)
  e2 = strip_wrappers(e, names=("list", "tuple"))
  if e2 is not e:
    return _seq_parts(e2) if isinstance(e2, (ast.List, ast.Tuple, ast.BinOp)) else [("spread", e2)]
  return [("spread", e)]


def _is_type_name(e, p):
  """<p>.__class__.__name__ or type(<p>).__name__"""
  if not (isinstance(e, ast.Attribute) and e.attr == "__name__"):
    return False
  c = e.value
  if isinstance(c, ast.Attribute) and c.attr == "__class__":
    return text(c.value) == p
  return isinstance(c, ast.Call) and dotted(c.func) == "type" and len(c.args) == 1 and \
      text(c.args[0]) == p


def r1_codec(run, w):
  R1 = run.rule("C03-R1", "get_action_repr and action_from_repr are an inverse pair over the same "
                "value walker with encode_object / decode_object", floor=6)
  inl = inliner(w)
  enc = inl.fn("actions.encode_objects")
  dec = inl.fn("actions.decode_objects")
  # encode_objects(data) = convert_recursive_in_action(objtypes.encode_object, data)
  er = _rets(enc)
  for (r, v) in er:
    ew = _walker_call(w, v)
    need(ew is not None or not opaque_parts(w, enc.fi, v),
         "actions.encode_objects: cannot follow what is returned (`%s`)" % short(v))
    ok = ew is not None and ew[0] is not None and endswith(dotted(ew[0]), "encode_object") and \
        ew[1] is not None and text(ew[1]) == enc.fi.params()[0]
    run.ob(R1, enc.qualname, "return convert_recursive_in_action(encode_object, data)", "cell "
           "values of an emitted action are encoded by encode_object through the cell-value walker",
           ok, fi=enc.fi, node=r, witness=None if ok else "returns `%s`" % short(v))
  if not er:
    raise AnalysisError("actions.encode_objects: no value is returned")
  # decode_objects(data, decoder=objtypes.decode_object) = convert_recursive_in_action(decoder, data)
  dr = _rets(dec)
  dps = dec.fi.params()
  for (r, v) in dr:
    dw = _walker_call(w, v)
    need(dw is not None or not opaque_parts(w, dec.fi, v),
         "actions.decode_objects: cannot follow what is returned (`%s`)" % short(v))
    conv_ok = False
    if dw is not None and dw[0] is not None:
      if endswith(dotted(dw[0]), "decode_object"):
        conv_ok = True
      elif isinstance(dw[0], ast.Name) and dw[0].id in dps:
        i = dps.index(dw[0].id)
        defaults = dec.node.args.defaults
        off = len(dps) - len(defaults)
        conv_ok = i >= off and endswith(dotted(defaults[i - off]), "decode_object") and \
            not DefUse(dec).rebinders(dw[0].id)
    ok = dw is not None and conv_ok and dw[1] is not None and text(dw[1]) == dps[0]
    run.ob(R1, dec.qualname, "return convert_recursive_in_action(decoder, data)", "cell values of "
           "a replayed action are decoded by decode_object (the default decoder) through the same "
           "walker", ok, fi=dec.fi, node=r, witness=None if ok else "returns `%s`" % short(v))
  if not dr:
    raise AnalysisError("actions.decode_objects: no value is returned")
  # get_action_repr: [type name] + list(encode_objects(action))
  gr = inl.fn("actions.get_action_repr")
  p = gr.fi.params()[0]
  rr = _rets(gr)
  if not rr:
    raise AnalysisError("actions.get_action_repr: no value is returned")
  for (r, v) in rr:
    parts = _seq_parts(v)
    need(not opaque_parts(w, gr.fi, v), "actions.get_action_repr: the list is built step by step "
         "or by a helper (`%s`); its shape cannot be followed" % short(v))
    ok = len(parts) == 2 and parts[0][0] == "elt" and _is_type_name(parts[0][1], p) and \
        parts[1][0] == "spread" and isinstance(parts[1][1], ast.Call) and \
        endswith(dotted(parts[1][1].func), "encode_objects") and \
        (bind_call(parts[1][1], enc.fi) or {}).get(enc.fi.params()[0]) is not None and \
        text(bind_call(parts[1][1], enc.fi)[enc.fi.params()[0]]) == p
    run.ob(R1, gr.qualname, "[type name] + list(encode_objects(action))",
           "the serialised form is [type name] followed by every field of the action, encoded", ok,
           fi=gr.fi, node=r, witness=None if ok else "returns `%s`" % short(v))
  # action_from_repr: decode_objects(action_types[repr[0]](*repr[1:])) with the default decoder
  fr = inl.fn("actions.action_from_repr")
  p = fr.fi.params()[0]
  rets = _rets(fr)
  if not rets:
    raise AnalysisError("actions.action_from_repr: no value is returned")
  for (r, v) in rets:
    ok = False
    wit = "returns `%s`" % short(v)
    need(not opaque_parts(w, fr.fi, v), "actions.action_from_repr: cannot follow what is returned "
         "(`%s`)" % short(v))
    if isinstance(v, ast.Call) and endswith(dotted(v.func), "decode_objects"):
      m = bind_call(v, dec.fi)
      inner = m.get(dps[0]) if m else None
      dflt = m is not None and all(
        m.get(q) is None or endswith(dotted(m.get(q)), "decode_object") for q in dps[1:])
      if isinstance(inner, ast.Call) and dflt:
        f = inner.func
        key = None
        if isinstance(f, ast.Call) and endswith(dotted(f.func), "action_types.get") and f.args:
          key = f.args[0]
        elif isinstance(f, ast.Subscript) and endswith(dotted(f.value), "action_types"):
          key = f.slice
        ok = key is not None and text(key) == "%s[0]" % p and len(inner.args) == 1 and \
            not inner.keywords and isinstance(inner.args[0], ast.Starred) and \
            text(inner.args[0].value) == "%s[1:]" % p
    run.ob(R1, fr.qualname, "return decode_objects(action_types[repr[0]](*repr[1:]))", "the action "
           "is rebuilt from the type named first and all remaining elements, decoded with the "
           "default decoder", ok, fi=fr.fi, node=r, witness=None if ok else wit)
  # action_types is the registry of the namedtuple action types
  mod = w.repo.module("actions")
  at = mod.assigns.get("action_types")
  need(at is not None, "actions.action_types: the registry of action types vanished")
  run.ob(R1, "actions.action_types", "action_types registry exists",
         "type names are resolved through the registry of action types", True, nontrivial=False)
  # the walker converts exactly the cell values of value-carrying actions and recurses otherwise
  wk = w.fn("actions.convert_recursive_in_action")
  conv_p = wk.fi.params()[0]
  cavf = w.repo.func("actions.convert_action_values")
  crhf = w.repo.func("actions.convert_recursive_helper")
  # the walker's code: the function itself and the closures defined in it
  scopes = [wk.fi] + [fi for q, fi in w.repo.funcs.items()
                      if fi.parent is not None and fi.parent.qualname == wk.qualname]
  def same_walker(e, scope):
    """Does e denote "this walker, with the same converter", as the element converter handed to
    the generic recursion: the closure itself, functools.partial(<walker>, converter), or
    lambda v: <walker>(converter, v)?"""
    if isinstance(e, ast.Name) and scope is not wk.fi and e.id == scope.name:
      return True
    if isinstance(e, ast.Call) and endswith(dotted(e.func), "partial") and len(e.args) == 2 and \
        not e.keywords and text(e.args[0]) == wk.fi.name and text(e.args[1]) == conv_p:
      return True
    if isinstance(e, ast.Lambda) and len(e.args.args) == 1 and isinstance(e.body, ast.Call) and \
        text(e.body.func) == wk.fi.name:
      m = bind_call(e.body, wk.fi) or {}
      ps = wk.fi.params()
      return m.get(ps[0]) is not None and text(m[ps[0]]) == conv_p and \
          m.get(ps[1]) is not None and text(m[ps[1]]) == e.args.args[0].arg
    return False
  leaf, rec = [], []
  for sc in scopes:
    own = [st for st in sc.node.body
           if not isinstance(st, (ast.FunctionDef, ast.AsyncFunctionDef, ast.ClassDef))]
    for c in calls_in(own, into_lambda=True):
      if endswith(dotted(c.func), "convert_action_values"):
        a = call_arg(c, cavf, cavf.params()[0])
        leaf.append(a is not None and text(a) == conv_p)
      elif endswith(dotted(c.func), "convert_recursive_helper"):
        a = call_arg(c, crhf, crhf.params()[0])
        rec.append(a is not None and same_walker(a, sc))
  if not (leaf and rec):
    # a leg is missing: a real defect only if the walker's code is fully visible
    known = {"isinstance", "partial", "convert_action_values", "convert_recursive_helper",
             wk.fi.name} | {sc.name for sc in scopes}
    for sc in scopes:
      for c in calls_in(sc.node.body, into_lambda=True):
        nm = dotted(c.func)
        need(nm is not None and nm.split(".")[-1] in known or nm in ("type", "list", "tuple"),
             "actions.convert_recursive_in_action: the two legs of the cell-value walker "
             "(convert_action_values for action tuples, convert_recursive_helper otherwise) were "
             "not found and `%s` cannot be followed" % short(c))
  ok = bool(leaf) and bool(rec) and all(leaf) and all(rec)
  run.ob(R1, wk.qualname, "tuple -> convert_action_values(converter, .) else recurse with itself",
         "encode and decode visit the same positions: cell values of actions, nothing else", ok,
         fi=wk.fi)


# ------------------------------------------------------------------------------------------
def _decoded_elem(e, var):
  """Is e `action_from_repr(<var>)`?"""
  return isinstance(e, ast.Call) and endswith(dotted(e.func), "action_from_repr") and \
      len(e.args) + len(e.keywords) == 1 and \
      text((e.args + [k.value for k in e.keywords])[0]) == var


def _iter_source(e, p):
  """How a loop iterable relates to the parameter p holding the stored actions:
  "raw" (p itself, every element, forward), "decoded" (every element of p, forward, passed through
  action_from_repr), None otherwise."""
  e = strip_wrappers(e, names=("list", "tuple", "iter"))
  if isinstance(e, ast.Name) and e.id == p:
    return "raw"
  if isinstance(e, (ast.ListComp, ast.GeneratorExp)) and len(e.generators) == 1:
    g = e.generators[0]
    if not g.ifs and isinstance(g.target, ast.Name) and \
        _iter_source(g.iter, p) == "raw" and _decoded_elem(e.elt, g.target.id):
      return "decoded"
  if isinstance(e, ast.Call) and dotted(e.func) == "map" and len(e.args) == 2 and \
      endswith(dotted(e.args[0]), "action_from_repr") and _iter_source(e.args[1], p) == "raw":
    return "decoded"
  return None


def r2_forward_replay(run, w):
  R2 = run.rule("C03-R2", "ApplyDocActions: every element, forward order, action_from_repr, "
                "gateway, unconditionally", floor=4)
  fn = inliner(w).fn("useractions.UserActions.ApplyDocActions")
  ex = expander(fn)
  p = fn.fi.params()[1]
  cfg = fn.cfg
  gw_all = [(n, c) for (n, c, nm) in fn.calls() if E.is_strict_gateway_call(c, nm, fn)]
  if not gw_all:
    raise AnalysisError("ApplyDocActions: no gateway call")
  loops = []
  for lp in real_loops(fn.node.body, ast.For):
    body = nodes_of_stmts(cfg, lp.body)
    if any(n.id in body for (n, c) in gw_all):
      loops.append(lp)
  need(len(loops) == 1 and not loops[0].orelse and isinstance(loops[0].target, ast.Name),
       "ApplyDocActions: the loop applying the stored actions was not found (gateway calls in "
       "%d loops)" % len(loops))
  it0 = ex.expand(loops[0].iter)
  need(_iter_source(it0, p) is not None or not opaque_parts(w, fn.fi, it0),
       "ApplyDocActions: cannot follow what the replay loop iterates (`%s`)" % short(it0))
  ok = _iter_source(it0, p) is not None
  run.ob(R2, fn.qualname, "for <action> in <the stored actions>",
         "the stored actions are replayed in the order they were recorded, all of them (no "
         "reversal, slice or filter)", ok, fi=fn.fi, node=loops[0] if loops else None,
         witness=None if ok or not loops else "iterates `%s`" % short(ex.expand(loops[0].iter)))
  if not ok:
    return
  lp = loops[0]
  kind = _iter_source(ex.expand(lp.iter), p)
  var = lp.target.id
  head = nodes_for(cfg, lp)
  body = nodes_of_stmts(cfg, lp.body)
  # the loop runs on every call (an early exit is fine only when there is nothing to replay)
  fr0 = Facts(cfg, {p})
  seen0 = fr0.run([(cfg.entry.id, {p: True})], stop=head)
  run.ob(R2, fn.qualname, "the replay loop is always reached", "no path through ApplyDocActions "
         "skips the replay of a non-empty list", cfg.exit.id not in seen0, fi=fn.fi, node=lp,
         nontrivial=False)
  gws = set()
  for (n, c) in gw_all:
    if n.id not in body:
      continue
    a = call_arg(c, w.repo.func("useractions.UserActions._do_doc_action"),
                 w.repo.func("useractions.UserActions._do_doc_action").params()[1])
    if a is None:
      continue
    a = ex.expand(a)
    if (kind == "raw" and _decoded_elem(a, var)) or (kind == "decoded" and text(a) == var):
      gws.add(n.id)
    else:
      need(not opaque_parts(w, fn.fi, a), "ApplyDocActions: cannot follow what is handed to the "
           "gateway (`%s`)" % short(a))
  first = {m for h in head for m in cfg.normal_succ(h) if m in body}
  ok = bool(gws) and not (cfg.reach(first, removed=gws) & (head | {cfg.exit.id}))
  run.ob(R2, fn.qualname, "self._do_doc_action(actions.action_from_repr(<action>)) on every iteration",
         "each stored action is decoded by the inverse of get_action_repr and goes through the "
         "gateway, whatever it is", ok, fi=fn.fi, node=lp,
         witness=None if ok else "an iteration can finish without applying its action")
  reb = DefUse(fn).rebinders(var) - head
  run.ob(R2, fn.qualname, "the loop variable is not rebound in the loop",
         "the action applied is the stored one", not (reb & body), fi=fn.fi, nontrivial=False)
  # nothing else in the function changes the document
  others = [c for (n, c, nm) in fn.calls() if n.id not in gws and
            (E.is_gateway_call(c, nm, fn) or E.is_engine_mutation(c, nm, fn) or
             E.is_column_mutation(c, nm, fn))]
  run.ob(R2, fn.qualname, "no other emission in ApplyDocActions",
         "the replay consists of the stored actions only", not others, fi=fn.fi, nontrivial=False)


# ------------------------------------------------------------------------------------------
def r3_exemptions(run, w):
  R3 = run.rule("C03-R3", "explicit (replayed) values of trigger-formula columns are exempt from "
                "recalculation for the whole user action: written by prevent_recalc only, cleared "
                "at the start of each user action only, read-only in _recompute_step, subtracted "
                "before the scan; DocActions.BulkUpdateRecord exempts what it writes", floor=12)
  inl = inliner(w)
  own = Owners(w)
  # ---- (a) ownership of the map: every syntactic use, classified
  allowed = {
    ("engine.Engine.__init__", "rebind"): "initial empty map",
    ("engine.Engine.prevent_recalc", "setdefault"): "the one writer",
    ("engine.Engine.apply_user_actions", "clear"): "start of each user action",
    (STEP, "get"): "read of this node's exempt rows",
  }
  named = {q for (q, k) in allowed}
  n_sites = 0
  for fi in w.repo.all_functions():
    for site in obj_sites(fi, PMAP):
      n_sites += 1
      kind = site[0]
      if kind == "call":
        what, node = site[1], site[2]
      else:
        what, node = kind, site[1]
      if kind == "escape":
        raise AnalysisError("%s: %s escapes (`%s`); its writers cannot be enumerated"
                            % (fi.qualname, PMAP, short(node)))
      if kind == "read" or (kind == "call" and what in READS):
        ok = True     # pure reads are harmless anywhere
      elif kind == "call" and what not in MUTATING:
        raise AnalysisError("%s: unknown method %s on %s" % (fi.qualname, what, PMAP))
      else:
        owners = own.of(fi, named)
        ok = all((q, what) in allowed for q in owners)
        if ok:
          followed(inl, fi, owners)
      run.ob(R3, fi.qualname, "%s.%s" % (PMAP, what) if kind == "call" else "%s of %s" % (what, PMAP),
             "the exemption map is written by prevent_recalc, cleared by apply_user_actions, and "
             "only read elsewhere (a consuming read such as pop() would drop the exemption at the "
             "first, non-evaluating visit)", ok, fi=fi, node=node, nontrivial=(kind != "read"))
  if n_sites < 4:
    raise AnalysisError("%s: fewer than 4 uses found" % PMAP)
  # ---- (b) _recompute_step: the exempt set is read, never mutated, and subtracted before the scan
  from .c06 import Scan
  sc = Scan(w)
  fn = sc.fn
  ex = expander(fn)
  cfg = fn.cfg
  p_node = fn.fi.params()[1]
  reads = []
  for n in cfg.nodes:
    if n.kind == "stmt" and isinstance(n.stmt, ast.Assign) and len(n.stmt.targets) == 1 and \
        isinstance(n.stmt.targets[0], ast.Name) and \
        isinstance(n.stmt.value, (ast.Call, ast.Subscript)) and \
        endswith(dotted(ex.expand(n.stmt.value.func.value if isinstance(n.stmt.value, ast.Call)
                                  and isinstance(n.stmt.value.func, ast.Attribute)
                                  else getattr(n.stmt.value, "value", None))), PMAP):
      reads.append(n)     # whatever the method: (a) has judged it; here we only need the variable
  if len(reads) != 1:
    raise AnalysisError("%s: expected one `<v> = self.%s.<lookup>(node...)`" % (STEP, PMAP))
  rd = reads[0]
  exv = rd.stmt.targets[0].id
  rc = ex.expand(rd.stmt.value)
  run.ob(R3, fn.qualname, "<exempt> = self.%s.<lookup>(node)" % PMAP,
         "the exemption looked up is this node's",
         (isinstance(rc, ast.Call) and len(rc.args) >= 1 and text(rc.args[0]) == p_node) or
         (isinstance(rc, ast.Subscript) and text(rc.slice) == p_node), fi=fn.fi, node=rd.stmt,
         nontrivial=False)
  du = DefUse(fn)
  if du.rebinders(exv) - {rd.id}:
    raise AnalysisError("%s: the exempt-rows local is bound more than once" % STEP)
  names = {exv} | {nm for nm, v in ex.vals.items() if isinstance(v, ast.Name) and v.id == exv}
  bad = []
  for x in walk_body(fn):
    if isinstance(x, ast.Call) and isinstance(x.func, ast.Attribute) and \
        isinstance(x.func.value, ast.Name) and x.func.value.id in names and x.func.attr in MUTATING:
      bad.append(x)
    if isinstance(x, ast.AugAssign) and isinstance(x.target, ast.Name) and x.target.id in names:
      bad.append(x)
    if isinstance(x, (ast.Assign, ast.Delete)):
      for t in (x.targets):
        if isinstance(t, ast.Subscript) and isinstance(t.value, ast.Name) and t.value.id in names:
          bad.append(x)
    if isinstance(x, ast.Call) and not (isinstance(x.func, ast.Attribute) and
                                        isinstance(x.func.value, ast.Name) and
                                        x.func.value.id in names):
      if any(isinstance(a, ast.Name) and a.id in names
             for a in list(x.args) + [k.value for k in x.keywords]) and \
          dotted(x.func) not in ("len", "bool", "sorted", "set", "frozenset", "list"):
        raise AnalysisError("%s: exempt set passed to %s; cannot tell whether it is mutated"
                            % (STEP, short(x.func)))
  run.ob(R3, fn.qualname, "the exempt rows are only read", "the set of exempt rows stays intact "
         "for every later visit of the node in this user action", not bad, fi=fn.fi,
         node=bad[0] if bad else rd.stmt,
         witness=None if not bad else "mutated by `%s`" % short(bad[0]))
  # the scan loop's dirty rows have the exempt rows removed whenever there are any
  head = sc.head(cfg)
  dv = sc.dirty_var
  ex_norm = ex.norm(ast.Name(id=exv, ctx=ast.Load()))
  def is_exempt(e):
    return (isinstance(e, ast.Name) and e.id in names) or text(e) == ex_norm
  def is_subtraction(v):
    """Does v (locals expanded) denote the dirty rows with the exempt rows removed?"""
    # <dirty> - <exempt>   |   <dirty>.difference(<exempt>)
    if isinstance(v, ast.BinOp) and isinstance(v.op, ast.Sub) and text(v.left) == dv and \
        is_exempt(v.right):
      return True
    if isinstance(v, ast.Call) and isinstance(v.func, ast.Attribute) and \
        v.func.attr == "difference" and text(v.func.value) == dv and \
        len(v.args) == 1 and is_exempt(v.args[0]):
      return True
    # (<dirty> - <exempt>) if <exempt> else <dirty>
    if isinstance(v, ast.IfExp):
      k, pol = atom_of(v.test)
      if k in names or k == ex_norm:
        yes, no = (v.body, v.orelse) if pol else (v.orelse, v.body)
        return is_subtraction(yes) and text(no) == dv
      return False
    # <ctor>(r for r in <dirty> if r not in <exempt>)
    c = strip_wrappers(v, names=("SortedSet", "set", "sorted", "list", "frozenset"))
    if isinstance(c, (ast.GeneratorExp, ast.ListComp, ast.SetComp)) and \
        len(c.generators) == 1 and text(c.generators[0].iter) == dv and \
        isinstance(c.generators[0].target, ast.Name) and \
        text(c.elt) == c.generators[0].target.id and len(c.generators[0].ifs) == 1:
      k, pol = atom_of(c.generators[0].ifs[0])
      return pol is False and any(k == "%s in %s" % (c.generators[0].target.id, nm)
                                  for nm in set(names) | {ex_norm})
    return False
  subs = set()
  candidates = set()
  for n in cfg.nodes:
    if not (n.kind == "stmt" and isinstance(n.stmt, (ast.Assign, ast.AugAssign))):
      continue
    s_ = n.stmt
    if isinstance(s_, ast.Assign):
      if not (len(s_.targets) == 1 and text(s_.targets[0]) == dv):
        continue
      v_ = ex.expand(s_.value)
      if is_subtraction(v_):
        subs.add(n.id)
      elif dv in names_loaded(v_) and (names_loaded(s_.value) & names or ex_norm in text(v_)):
        candidates.add(n.id)      # combines the dirty rows with the exempt rows in some other way
  fr = Facts(cfg, set(names), ex=None)
  starts = [(m, {nm: True for nm in names}) for m in cfg.normal_succ(rd.id)]
  seen = fr.run(starts, stop=subs)
  need(subs or candidates, "%s: no statement removing the exempt rows from the dirty rows was "
       "recognised" % STEP)
  ok = bool(subs) and head not in seen and cfg.dominated_by(head, {rd.id})
  # and the subtracted value is not overwritten again before the scan
  reb = du.rebinders(dv)
  for s_ in subs:
    between = cfg.reach_after({s_}, removed={head}) & cfg.reach({head}, removed={s_}, forward=False)
    if between & (reb - subs):
      ok = False
  run.ob(R3, fn.qualname, "if <exempt>: <dirty> = <dirty> - <exempt>  before the scan",
         "exempt rows are neither evaluated nor reported as missing dependencies, in evaluating "
         "and non-evaluating visits alike", ok, fi=fn.fi,
         witness=None if ok else "a path with a non-empty exemption reaches the scan without "
         "subtracting it")
  # ---- (c) prevent_recalc: adds with should_prevent, removes otherwise, on this node's set
  pr = inl.fn("engine.Engine.prevent_recalc")
  pex = expander(pr)
  pps = pr.fi.params()
  if len(pps) != 4:
    raise AnalysisError("prevent_recalc: signature changed")
  pcfg = pr.cfg
  def is_set_of_node(e):
    """<x>._prevent_recompute_map.setdefault(node, <empty set>) with locals expanded"""
    e = pex.expand(e)
    return isinstance(e, ast.Call) and isinstance(e.func, ast.Attribute) and \
        e.func.attr == "setdefault" and endswith(dotted(e.func.value), "self.%s" % PMAP) and \
        len(e.args) == 2 and text(e.args[0]) == pps[1]
  def is_rows(e):
    e = strip_wrappers(pex.expand(e), names=("set", "list", "tuple", "frozenset"))
    return text(e) == pps[2]
  upd, rem, sets_seen = set(), set(), 0
  any_upd = any_rem = False       # an adding / removing operation on the node's set, whatever rows
  for n in pcfg.nodes:
    for c in calls_in(n.exprs):
      if isinstance(c.func, ast.Attribute) and is_set_of_node(c.func.value) and len(c.args) == 1:
        rows_ok = is_rows(c.args[0])
        if c.func.attr == "update":
          any_upd = True
          if rows_ok:
            upd.add(n.id)
        elif c.func.attr == "difference_update":
          any_rem = True
          if rows_ok:
            rem.add(n.id)
    if n.kind == "stmt" and isinstance(n.stmt, ast.AugAssign) and is_set_of_node(n.stmt.target):
      rows_ok = is_rows(n.stmt.value)
      if isinstance(n.stmt.op, ast.BitOr):
        any_upd = True
        if rows_ok:
          upd.add(n.id)
      elif isinstance(n.stmt.op, ast.Sub):
        any_rem = True
        if rows_ok:
          rem.add(n.id)
    for c in calls_in(n.exprs):
      if is_set_of_node(c):
        sets_seen += 1
  need(sets_seen >= 1, "prevent_recalc: the per-node set of exempt rows "
       "(self.%s.setdefault(node, set())) was not found" % PMAP)
  run.ob(R3, pr.qualname, "self.%s.setdefault(node, set())" % PMAP, "exemptions are kept per node",
         True, fi=pr.fi, nontrivial=False)
  need(any_upd and any_rem, "prevent_recalc: the operations adding / removing rows of the node's "
       "exempt set were not both recognised")
  frp = Facts(pcfg, {pps[3]}, ex=pex)
  t = frp.run([(pcfg.entry.id, {pps[3]: True})], stop=upd)
  f = frp.run([(pcfg.entry.id, {pps[3]: False})], stop=rem)
  ok = bool(upd) and pcfg.exit.id not in t and not (set(t) & rem) and \
      bool(rem) and pcfg.exit.id not in f and not (set(f) & upd)
  run.ob(R3, pr.qualname, "should_prevent: <set>.update(row_ids) / else: difference_update",
         "asking for an exemption adds exactly the given rows; lifting removes them", ok,
         fi=pr.fi)
  # ---- (d) cleared at the start of each user action, inside the loop, before it is applied
  au = inl.fn("engine.Engine.apply_user_actions")
  acfg = au.cfg
  clears = au.nodes_calling(lambda c, nm, f: endswith(nm, "self.%s.clear" % PMAP))
  aex = expander(au)
  def applies_user_action(c, nm, f):
    """self._apply_one_user_action(ua), or its body written in place: the dynamic dispatch
    getattr(self.user_actions, <action name>)(*ua)"""
    if endswith(nm, "self._apply_one_user_action"):
      return True
    g = aex.expand(c.func)
    return isinstance(g, ast.Call) and dotted(g.func) == "getattr" and len(g.args) >= 2 and \
        (endswith(dotted(g.args[0]), "user_actions") or au.type_of(g.args[0]) == T.USERACTIONS)
  applies = au.nodes_calling(applies_user_action)
  if not applies:
    raise AnalysisError("apply_user_actions: _apply_one_user_action call not found")
  p_actions = au.fi.params()[1]
  loops = []
  for a in applies:
    lp = innermost_loop(au.node, acfg.nodes[a].stmt)
    if lp is not None and not any(lp is x for x in loops):
      loops.append(lp)
  if len(loops) != 1:
    raise AnalysisError("apply_user_actions: loop over the user actions not found")
  lh = nodes_for(acfg, loops[0])
  lb = nodes_of_stmts(acfg, loops[0].body)
  first = {m for h in lh for m in acfg.normal_succ(h) if m in lb}
  recalc = au.nodes_calling(lambda c, nm, f: nm == "self._bring_all_up_to_date")
  if not recalc:
    raise AnalysisError("apply_user_actions: _bring_all_up_to_date call not found")
  # after a user action was applied, no clear happens before the recalculation that follows the
  # last one (new iterations excluded: they belong to the next user action)
  after = acfg.reach_after(applies, removed=first)
  need(clears, "apply_user_actions: self.%s.clear() not found" % PMAP)
  ok = not (after & clears) and bool(after & recalc)
  run.ob(R3, au.qualname, "no self.%s.clear() between _apply_one_user_action and "
         "_bring_all_up_to_date" % PMAP, "exemptions taken while a user action's doc actions were "
         "applied are still in force when the bundle is recalculated", ok, fi=au.fi,
         node=loops[0], witness=None if ok else "the map is cleared after the user action was "
         "applied and before formulas are recalculated")
  # ---- (e) DocActions.BulkUpdateRecord exempts every non-formula column it writes
  bu = inl.fn("docactions.DocActions.BulkUpdateRecord")
  bex = expander(bu)
  bcfg = bu.cfg
  bps = bu.fi.params()
  prf = w.repo.func("engine.Engine.prevent_recalc")
  writes = [(n, c) for (n, c, nm) in bu.calls() if E.is_column_mutation(c, nm, bu)
            and c.func.attr == "set"]
  if not writes:
    raise AnalysisError("DocActions.BulkUpdateRecord: column write not found")
  for (wn, wc) in writes:
    colv = text(wc.func.value)
    col_loops = [x for x in enclosing_loops(bu.node, wn.stmt) if isinstance(x, ast.For)]
    if not col_loops:
      raise AnalysisError("DocActions.BulkUpdateRecord: column write is not inside a loop")
    outer = col_loops[0]
    oh = nodes_for(bcfg, outer)
    ob_ = nodes_of_stmts(bcfg, outer.body)
    prev = set()
    n_prev_calls = 0
    for (n, c, nm) in bu.calls():
      if n.id in ob_ and E.is_engine_call("prevent_recalc")(c, nm, bu):
        n_prev_calls += 1
        m = bind_call(c, prf) or {}
        a_node, a_rows, a_flag = m.get(pps[1]), m.get(pps[2]), m.get(pps[3])
        if a_node is not None and bex.norm(a_node) in ("%s.node" % colv, "%s.node" % bex.norm(wc.func.value)) \
            and a_rows is not None and bex.norm(a_rows) == bps[2] and a_flag is not None and \
            is_const(bex.expand(a_flag), True):
          prev.add(n.id)
    # under "the column is not a formula column", every path from the write to the end of the
    # per-column iteration passes the exemption
    key = "%s.is_formula()" % colv
    frb = Facts(bcfg, {key}, ex=bex)
    seen = frb.run([(m, {key: False}) for m in bcfg.normal_succ(wn.id)], stop=prev)
    # leave the inner row loop first: consider only arrivals at the outer loop head / exit
    need(n_prev_calls, "DocActions.BulkUpdateRecord: no prevent_recalc call in the per-column "
         "iteration that writes the values; where the exemption is taken cannot be followed")
    ok = bool(prev) and not (set(seen) & (oh | {bcfg.exit.id}))
    run.ob(R3, bu.qualname, "<col>.set(row, value) -> self._engine.prevent_recalc(<col>.node, "
           "row_ids, should_prevent=True)",
           "every explicit value written into a data column (a replayed trigger-formula result "
           "included) is exempt from recalculation for the same rows", ok, fi=bu.fi, node=wc,
           witness=None if ok else "a non-formula column can be written without being exempted")
    # the rows written are the rows exempted
    rows_src = None
    for x in col_loops[1:]:
      it = bex.expand(x.iter)
      if isinstance(it, ast.Call) and dotted(it.func) == "zip" and it.args:
        rows_src = text(it.args[0])
      elif isinstance(it, ast.Name):
        rows_src = it.id
    if rows_src is None:
      raise AnalysisError("DocActions.BulkUpdateRecord: the rows written cannot be followed")
    run.ob(R3, bu.qualname, "rows written = rows exempted",
           "the exemption covers exactly the cells that received explicit values",
           rows_src == bps[2], fi=bu.fi, node=wc, nontrivial=False)
  # ---- (e2) DocActions.BulkAddRecord: the same for the values a new record is given
  ba = inl.fn("docactions.DocActions.BulkAddRecord")
  aex2 = expander(ba)
  acfg2 = ba.cfg
  aps = ba.fi.params()
  adds = ba.nodes_calling(lambda c, nm, f: E.is_engine_call("add_records")(c, nm, f))
  need(adds, "DocActions.BulkAddRecord: the add_records call was not found")
  pcalls = [(n, c) for (n, c, nm) in ba.calls() if E.is_engine_call("prevent_recalc")(c, nm, ba)]
  need(pcalls, "DocActions.BulkAddRecord: no prevent_recalc call; where the exemption of the "
       "values given to a new record is taken cannot be followed")
  for (pn, pc) in pcalls:
    lps = [x for x in enclosing_loops(ba.node, pn.stmt) if isinstance(x, ast.For)]
    need(lps, "DocActions.BulkAddRecord: the exemption is not taken in a loop over the columns")
    lp = lps[0]
    it = strip_wrappers(aex2.expand(lp.iter), names=("list", "sorted", "tuple", "iter"))
    if isinstance(it, ast.Call) and isinstance(it.func, ast.Attribute) and \
        it.func.attr in ("items", "keys") and not it.args:
      it = it.func.value
    m = bind_call(pc, prf) or {}
    a_node, a_rows, a_flag = m.get(pps[1]), m.get(pps[2]), m.get(pps[3])
    colx = a_node.value if isinstance(a_node, ast.Attribute) and a_node.attr == "node" else None
    # the column exempted is the one named by the loop variable
    var = lp.target.id if isinstance(lp.target, ast.Name) else \
        (lp.target.elts[0].id if isinstance(lp.target, ast.Tuple) and lp.target.elts and
         isinstance(lp.target.elts[0], ast.Name) else None)
    colv = aex2.expand(colx) if colx is not None else None
    col_ok = isinstance(colv, ast.Call) and isinstance(colv.func, ast.Attribute) and \
        colv.func.attr == "get_column" and len(colv.args) == 1 and text(colv.args[0]) == var
    need(colx is None or col_ok or not opaque_parts(w, ba.fi, colv),
         "DocActions.BulkAddRecord: cannot follow which column is exempted (`%s`)" % short(a_node))
    args_ok = text(it) == aps[3] and col_ok and a_rows is not None and \
        aex2.norm(a_rows) == aps[2] and a_flag is not None and is_const(aex2.expand(a_flag), True)
    # every iteration over a non-formula column reaches it
    lh = nodes_for(acfg2, lp)
    lb = nodes_of_stmts(acfg2, lp.body)
    first = {m_ for h in lh for m_ in acfg2.normal_succ(h) if m_ in lb}
    key = "%s.is_formula()" % (text(colx) if colx is not None else "?")
    frx = Facts(acfg2, {key}, ex=aex2)
    seenx = frx.run([(m_, {}) for m_ in first], stop={pn.id} | lh)
    leaks = [f for h in lh for f in seenx.get(h, []) if f.get(key) is not True]
    # (whether the rows are added before or after does not matter: the exemption lasts for the
    # whole user action) -- but the loop must run on every path that adds them
    ok = args_ok and not leaks and \
        all(acfg2.postdominated_by(a_, lh) or acfg2.dominated_by(a_, lh) for a_ in adds)
    run.ob(R3, ba.qualname, "for <col> in column_values: if not <col>.is_formula(): "
           "self._engine.prevent_recalc(<col>.node, row_ids, should_prevent=True)",
           "every explicit value a new record is given for a data column (a replayed "
           "trigger-formula result included) is exempt from recalculation", ok, fi=ba.fi, node=pc,
           witness=None if ok else ("a non-formula column can be left without exemption" if leaks
                                    else "the exemption does not name the column / rows added"))
  # ---- (f) exemptions are lifted only by user-level code
  for fi in w.repo.all_functions():
    f2 = w.fn_of(fi)
    fex = None
    for c in calls_in(fi.node.body):
      if isinstance(c.func, ast.Attribute) and c.func.attr == "prevent_recalc":
        flag = call_arg(c, prf, pps[3])
        if flag is None:
          raise AnalysisError("%s: prevent_recalc without a should_prevent argument" % fi.qualname)
        fex = fex or expander(f2)
        flag = fex.expand(flag)
        if is_const(flag, True):
          continue
        ua = {f3.qualname for f3 in w.repo.cls("useractions.UserActions").methods.values()}
        user_level = all(q in ua for q in own.of(fi, ua))
        run.ob(R3, fi.qualname, short(c), "an exemption is lifted only by user-level code (which "
               "a replay through ApplyDocActions never runs)", user_level and is_const(flag, False),
               fi=fi, node=c, nontrivial=False)


def walk_body(fn):
  for s in fn.node.body:
    for n in walk_no_nested(s, into_lambda=True):
      yield n



EN = "sandbox/grist/engine.py"
U = "sandbox/grist/useractions.py"
D = "sandbox/grist/docactions.py"
A = "sandbox/grist/actions.py"
VARIANTS = [
  ("exemption-consumed-by-first-visit", EN,
   "    exempt = self._prevent_recompute_map.get(node, None)",
   "    exempt = self._prevent_recompute_map.pop(node, None)", "C03-R3"),
  ("exemptions-cleared-per-frame", EN,
   "    self._recompute_done_map = {}\n    self._locked_cells = set()\n",
   "    self._recompute_done_map = {}\n    self._prevent_recompute_map.clear()\n"
   "    self._locked_cells = set()\n", "C03-R3"),
  ("exempt-set-consumed", EN,
   "      dirty_rows = dirty_rows - exempt\n",
   "      dirty_rows = dirty_rows - exempt\n      exempt.clear()\n", "C03-R3"),
  ("exempt-only-when-evaluating", EN,
   """      dirty_rows = dirty_rows - exempt
      if allow_evaluation:
        self.recompute_map[node] = dirty_rows""",
   """      if allow_evaluation:
        dirty_rows = dirty_rows - exempt
        self.recompute_map[node] = dirty_rows""", "C03-R3"),
  ("docaction-does-not-exempt", D,
   """      # even if triggered by something else within the same useraction).
      if not col.is_formula():
        self._engine.prevent_recalc(col.node, row_ids, should_prevent=True)""",
   """      # even if triggered by something else within the same useraction).
      if col.is_formula():
        self._engine.prevent_recalc(col.node, row_ids, should_prevent=True)""", "C03-R3"),
  ("docaction-lifts-exemption", D,
   """      # even if triggered by something else within the same useraction).
      if not col.is_formula():
        self._engine.prevent_recalc(col.node, row_ids, should_prevent=True)""",
   """      # even if triggered by something else within the same useraction).
      if not col.is_formula():
        self._engine.prevent_recalc(col.node, row_ids, should_prevent=False)""", "C03-R3"),
  ("added-record-not-exempted", D,
   """    # even if the same action also sets something the trigger formula depends on.
    for col_id in column_values:
      col = table.get_column(col_id)
      if not col.is_formula():""",
   """    # even if the same action also sets something the trigger formula depends on.
    for col_id in column_values:
      col = table.get_column(col_id)
      if col.is_formula():""", "C03-R3"),
  ("added-record-exempts-other-rows", D,
   """      if not col.is_formula():
        self._engine.prevent_recalc(col.node, row_ids, should_prevent=True)

  def RemoveRecord""",
   """      if not col.is_formula():
        self._engine.prevent_recalc(col.node, row_ids[:1], should_prevent=True)

  def RemoveRecord""", "C03-R3"),
  ("clear-at-end-of-user-action", EN,
   """        self._prevent_recompute_map.clear()

        self.out_actions.retValues.append(self._apply_one_user_action(user_action))
""",
   """        self.out_actions.retValues.append(self._apply_one_user_action(user_action))
        self._prevent_recompute_map.clear()
""", "C03-R3"),
  ("replay-not-decoded", A,
   "    return decode_objects(action_type(*doc_action[1:]))",
   "    return action_type(*doc_action[1:])", "C03-R1"),
  ("encode-with-generic-walker", A,
   "  return convert_recursive_in_action(objtypes.encode_object, data)",
   "  return convert_recursive_helper(objtypes.encode_object, data)", "C03-R1"),
  ("repr-drops-first-field", A,
   "    return decode_objects(action_type(*doc_action[1:]))",
   "    return decode_objects(action_type(*doc_action[2:]))", "C03-R1"),
  ("replay-reversed", U,
   "    for doc_action in doc_actions:\n      self._do_doc_action(actions.action_from_repr(doc_action))",
   "    for doc_action in reversed(doc_actions):\n      self._do_doc_action(actions.action_from_repr(doc_action))",
   "C03-R2"),
  ("replay-skips-metadata", U,
   "    for doc_action in doc_actions:\n      self._do_doc_action(actions.action_from_repr(doc_action))",
   "    for doc_action in doc_actions:\n      if doc_action[1].startswith('_grist_'):\n"
   "        continue\n      self._do_doc_action(actions.action_from_repr(doc_action))",
   "C03-R2"),
]
