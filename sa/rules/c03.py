"""C03 Redo after undo reproduces the post-bundle state -- structural clauses.

Relies on C02-R1/R2/R6 (one gateway records exactly the action it applies; every action type has an
interpreter) and C01-R4; those are decided by the C02 / C01 modules and not repeated here.

Design deviations (DESIGN.md section 4, C03):
  * The design's R2 ("the action given to the gateway in doBulkAddOrReplace / doBulkUpdateRecord is
    a def-use descendant of Engine.convert_action_values") is NOT implemented: it is not a necessary
    condition of this property. The gateway applies the very object it records (C02-R1), so a
    replay of a recorded-but-unconverted action rebuilds the same (unconverted) state; breaking
    that rule breaks value conversion (C22/C23), not redo.
  * What a replay can diverge on is *hidden state consulted while a doc action is applied*. The
    mechanism that matters is decided here instead: the per-user-action exemption map that
    keeps replayed explicit values of trigger-formula columns from being recalculated (R3). The
    other one -- the request to evaluate default/trigger formulas of data columns
    (data_cols_to_recompute / recompute_data_col), made by user-level code only -- was considered
    and left out: the original bundle runs the same doc-action code as the replay, and a replayed
    explicit value is shielded by R3, so a violation shows up in a redo only for formulas that
    depend on something outside the document AND happened to return the stored value the first
    time; that is too weak to be called a necessary condition.
"""
import ast
from ..fn import World
from ..index import AnalysisError, dotted
from ..astutil import text, short, endswith, calls_in, walk_no_nested, names_loaded, enclosing_chain
from ..dataflow import DefUse
from .. import events as E
from .. import types as T
from ._h_A import (FactReach, nodes_of_stmts, nodes_for, kwarg, is_const, stmts_in, attr_sites,
                   MUTATING)

EXPLANATION = (
  "Decides that stored actions are self-contained and replayed the way they were applied. R1: "
  "get_action_repr / action_from_repr are an inverse pair: both walk the action with the same "
  "convert_recursive_in_action, one with encode_object, the other with decode_object, and the "
  "type name / argument split agree. R2: ApplyDocActions hands every element of its argument, in "
  "forward order, decoded by action_from_repr, to the gateway, unconditionally. R3: a replayed "
  "explicit value of a trigger-formula column is not recalculated: DocActions.BulkUpdateRecord "
  "exempts every non-formula column it writes (same rows), the exemption map is written only by "
  "Engine.prevent_recalc, cleared only by apply_user_actions and never between applying a user "
  "action and the recalculation that follows, only read (never consumed) by _recompute_step, which subtracts the exempt rows before scanning, and exemptions "
  "are lifted only by user-level code (which a replay never runs). Relies "
  "on C02-R1/R2/R6 and C01-R4. Not decided: equality of the replayed state (formulas that are "
  "not functions of the document are outside any structural rule).")

PMAP = "_prevent_recompute_map"
READS = ("get", "keys", "values", "items", "copy", "__contains__", "__getitem__")
STEP = "engine.Engine._recompute_step"


def check(run, repo, tier):
  w = World(repo)
  r1_codec(run, w)
  r2_forward_replay(run, w)
  r3_exemptions(run, w)


# ------------------------------------------------------------------------------------------
def _single_return(fn):
  rets = stmts_in(fn.node.body, ast.Return)
  return rets


def _walker_call(fn, e):
  """If e is convert_recursive_in_action(<conv>, <data>) return (conv, data)."""
  if isinstance(e, ast.Call) and dotted(e.func) == "convert_recursive_in_action" and \
      len(e.args) == 2 and not e.keywords:
    return e.args[0], e.args[1]
  return None


def r1_codec(run, w):
  R1 = run.rule("C03-R1", "get_action_repr and action_from_repr are an inverse pair over the same "
                "value walker with encode_object / decode_object", floor=6)
  enc = w.fn("actions.encode_objects")
  dec = w.fn("actions.decode_objects")
  # encode_objects(data) = convert_recursive_in_action(objtypes.encode_object, data)
  er = _single_return(enc)
  ew = _walker_call(enc, er[0].value) if len(er) == 1 else None
  ok = ew is not None and endswith(dotted(ew[0]), "objtypes.encode_object") and \
      text(ew[1]) == enc.fi.params()[0]
  run.ob(R1, enc.qualname, short(er[0]) if er else "return ?", "cell values of an emitted action "
         "are encoded by encode_object through the cell-value walker", ok, fi=enc.fi)
  # decode_objects(data, decoder=objtypes.decode_object) = convert_recursive_in_action(decoder, data)
  dr = _single_return(dec)
  dw = _walker_call(dec, dr[0].value) if len(dr) == 1 else None
  dps = dec.fi.params()
  conv_ok = False
  if dw is not None:
    if endswith(dotted(dw[0]), "objtypes.decode_object"):
      conv_ok = True
    elif isinstance(dw[0], ast.Name) and dw[0].id in dps:
      i = dps.index(dw[0].id)
      defaults = dec.node.args.defaults
      off = len(dps) - len(defaults)
      conv_ok = i >= off and endswith(dotted(defaults[i - off]), "objtypes.decode_object") and \
          not DefUse(dec).rebinders(dw[0].id)
  ok = dw is not None and conv_ok and text(dw[1]) == dps[0]
  run.ob(R1, dec.qualname, short(dr[0]) if dr else "return ?", "cell values of a replayed action "
         "are decoded by decode_object (the default decoder) through the same walker", ok,
         fi=dec.fi)
  # get_action_repr: [type name] + list(encode_objects(action))
  gr = w.fn("actions.get_action_repr")
  p = gr.fi.params()[0]
  rr = _single_return(gr)
  v = rr[0].value if len(rr) == 1 else None
  ok = isinstance(v, ast.BinOp) and isinstance(v.op, ast.Add) and \
      isinstance(v.left, ast.List) and len(v.left.elts) == 1 and \
      text(v.left.elts[0]) == "%s.__class__.__name__" % p and \
      isinstance(v.right, ast.Call) and dotted(v.right.func) == "list" and \
      len(v.right.args) == 1 and isinstance(v.right.args[0], ast.Call) and \
      dotted(v.right.args[0].func) == "encode_objects" and \
      [text(a) for a in v.right.args[0].args] == [p]
  run.ob(R1, gr.qualname, short(v) if v is not None else "return ?",
         "the serialised form is [type name] followed by every field of the action, encoded", ok,
         fi=gr.fi)
  # action_from_repr: decode_objects(action_types[repr[0]](*repr[1:])) with the default decoder
  fr = w.fn("actions.action_from_repr")
  p = fr.fi.params()[0]
  tvars = {}
  for s in stmts_in(fr.node.body, ast.Assign):
    if len(s.targets) == 1 and isinstance(s.targets[0], ast.Name):
      val = s.value
      key = None
      if isinstance(val, ast.Call) and endswith(dotted(val.func), "action_types.get") and val.args:
        key = val.args[0]
      elif isinstance(val, ast.Subscript) and endswith(dotted(val.value), "action_types"):
        key = val.slice
      if key is not None:
        tvars[s.targets[0].id] = key
  rets = [r for r in _single_return(fr) if r.value is not None]
  ok_all = bool(rets)
  for r in rets:
    v = r.value
    ok = isinstance(v, ast.Call) and dotted(v.func) == "decode_objects" and len(v.args) == 1 and \
        not v.keywords and isinstance(v.args[0], ast.Call) and \
        isinstance(v.args[0].func, ast.Name) and v.args[0].func.id in tvars and \
        text(tvars[v.args[0].func.id]) == "%s[0]" % p and len(v.args[0].args) == 1 and \
        isinstance(v.args[0].args[0], ast.Starred) and \
        text(v.args[0].args[0].value) == "%s[1:]" % p
    ok_all = ok_all and ok
    run.ob(R1, fr.qualname, short(r), "the action is rebuilt from the type named first and all "
           "remaining elements, decoded with the default decoder", ok, fi=fr.fi, node=r)
  # action_types is the registry of the namedtuple action types
  mod = w.repo.module("actions")
  at = mod.assigns.get("action_types")
  ok = at is not None
  run.ob(R1, "actions.action_types", "action_types registry exists",
         "type names are resolved through the registry of action types", ok, nontrivial=False)
  # the walker converts exactly the cell values of value-carrying actions and recurses otherwise
  wk = w.fn("actions.convert_recursive_in_action")
  inner = w.repo.funcs.get("actions.convert_recursive_in_action.inner")
  ok = inner is not None and any(
    isinstance(c, ast.Call) and dotted(c.func) == "convert_action_values" and
    len(c.args) == 2 and text(c.args[0]) == wk.fi.params()[0]
    for c in calls_in(inner.node.body)) and any(
    isinstance(c, ast.Call) and dotted(c.func) == "convert_recursive_helper" and
    len(c.args) == 2 and text(c.args[0]) == "inner" for c in calls_in(inner.node.body))
  run.ob(R1, wk.qualname, "inner: tuple -> convert_action_values(converter, .) else recurse",
         "encode and decode visit the same positions: cell values of actions, nothing else", ok,
         fi=wk.fi)


# ------------------------------------------------------------------------------------------
def r2_forward_replay(run, w):
  R2 = run.rule("C03-R2", "ApplyDocActions: every element, forward order, action_from_repr, "
                "gateway, unconditionally", floor=4)
  fn = w.fn("useractions.UserActions.ApplyDocActions")
  p = fn.fi.params()[1]
  cfg = fn.cfg
  loops = [s for s in fn.node.body if isinstance(s, ast.For)]
  ok = len(loops) == 1 and isinstance(loops[0].iter, ast.Name) and loops[0].iter.id == p and \
      isinstance(loops[0].target, ast.Name) and not loops[0].orelse
  run.ob(R2, fn.qualname, "for %s in %s" % (text(loops[0].target) if loops else "?",
                                            text(loops[0].iter) if loops else "?"),
         "the stored actions are replayed in the order they were recorded, all of them (no "
         "reversal, slice or filter)", ok, fi=fn.fi, node=loops[0] if loops else None)
  if not ok:
    return
  lp = loops[0]
  var = lp.target.id
  head = nodes_for(cfg, lp)
  body = nodes_of_stmts(cfg, lp.body)
  gws = set()
  for (n, c, nm) in fn.calls():
    if n.id in body and E.is_strict_gateway_call(c, nm, fn) and len(c.args) == 1:
      a = c.args[0]
      if isinstance(a, ast.Call) and endswith(dotted(a.func), "actions.action_from_repr",
                                              "action_from_repr") and \
          len(a.args) == 1 and not a.keywords and text(a.args[0]) == var:
        gws.add(n.id)
  first = {m for h in head for m in cfg.normal_succ(h) if m in body}
  ok = bool(gws) and not (cfg.reach(first, removed=gws) & (head | {cfg.exit.id}))
  run.ob(R2, fn.qualname, "self._do_doc_action(actions.action_from_repr(%s)) on every iteration" % var,
         "each stored action is decoded by the inverse of get_action_repr and goes through the "
         "gateway, whatever it is", ok, fi=fn.fi, node=lp,
         witness=None if ok else "an iteration can finish without applying its action")
  reb = DefUse(fn).rebinders(var) - head
  run.ob(R2, fn.qualname, "%s is not rebound in the loop" % var,
         "the action applied is the stored one", not (reb & body), fi=fn.fi, nontrivial=False)
  # nothing else in the function changes the document
  others = [c for (n, c, nm) in fn.calls() if n.id not in gws and
            (E.is_gateway_call(c, nm, fn) or E.is_engine_mutation(c, nm, fn) or
             E.is_column_mutation(c, nm, fn))]
  run.ob(R2, fn.qualname, "no other emission in ApplyDocActions",
         "the replay consists of the stored actions only", not others, fi=fn.fi, nontrivial=False)


# ------------------------------------------------------------------------------------------
def r3_exemptions(run, w):
  R3 = run.rule("C03-R3", "explicit (replayed) values of trigger-formula columns are exempt from "
                "recalculation for the whole user action: written by prevent_recalc only, cleared "
                "at the start of each user action only, read-only in _recompute_step, subtracted "
                "before the scan; DocActions.BulkUpdateRecord exempts what it writes", floor=12)
  # ---- (a) ownership of the map: every syntactic use, classified
  allowed = {
    ("engine.Engine.__init__", "rebind"): "initial empty map",
    ("engine.Engine.prevent_recalc", "setdefault"): "the one writer",
    ("engine.Engine.apply_user_actions", "clear"): "start of each user action",
    (STEP, "get"): "read of this node's exempt rows",
  }
  n_sites = 0
  for fi in w.repo.all_functions():
    for site in attr_sites(fi, PMAP):
      n_sites += 1
      kind = site[0]
      if kind == "call":
        what, node = site[1], site[2]
      else:
        what, node = kind, site[1]
      if kind == "escape":
        raise AnalysisError("%s: %s escapes (`%s`); its writers cannot be enumerated"
                            % (fi.qualname, PMAP, short(node)))
      if kind == "read" or (kind == "call" and what in READS):
        ok = True     # pure reads are harmless anywhere
      elif kind == "call" and what not in MUTATING:
        raise AnalysisError("%s: unknown method %s on %s" % (fi.qualname, what, PMAP))
      else:
        ok = (fi.qualname, what) in allowed
      run.ob(R3, fi.qualname, "%s.%s" % (PMAP, what) if kind == "call" else "%s of %s" % (what, PMAP),
             "the exemption map is written by prevent_recalc, cleared by apply_user_actions, and "
             "only read elsewhere (a consuming read such as pop() would drop the exemption at the "
             "first, non-evaluating visit)", ok, fi=fi, node=node, nontrivial=(kind != "read"))
  if n_sites < 4:
    raise AnalysisError("%s: fewer than 4 uses found" % PMAP)
  # ---- (b) _recompute_step: the exempt set is read, never mutated, and subtracted before the scan
  fn = w.fn(STEP)
  cfg = fn.cfg
  p_node = fn.fi.params()[1]
  reads = []
  for n in cfg.nodes:
    if n.kind == "stmt" and isinstance(n.stmt, ast.Assign) and len(n.stmt.targets) == 1 and \
        isinstance(n.stmt.targets[0], ast.Name) and isinstance(n.stmt.value, ast.Call) and \
        isinstance(n.stmt.value.func, ast.Attribute) and \
        endswith(fn.name(n.stmt.value.func.value), "self.%s" % PMAP):
      reads.append(n)     # whatever the method: (a) has judged it; here we only need the variable
  if len(reads) != 1:
    raise AnalysisError("%s: expected one `<v> = self.%s.<lookup>(node...)`" % (STEP, PMAP))
  rd = reads[0]
  ex = rd.stmt.targets[0].id
  rc = rd.stmt.value
  run.ob(R3, fn.qualname, short(rd.stmt), "the exemption looked up is this node's",
         len(rc.args) >= 1 and text(rc.args[0]) == p_node, fi=fn.fi, node=rd.stmt,
         nontrivial=False)
  du = DefUse(fn)
  bad = []
  for x in walk_body(fn):
    if isinstance(x, ast.Call) and isinstance(x.func, ast.Attribute) and \
        isinstance(x.func.value, ast.Name) and x.func.value.id == ex and x.func.attr in MUTATING:
      bad.append(x)
    if isinstance(x, ast.AugAssign) and isinstance(x.target, ast.Name) and x.target.id == ex:
      bad.append(x)
    if isinstance(x, (ast.Assign, ast.Delete)):
      for t in (x.targets):
        if isinstance(t, ast.Subscript) and isinstance(t.value, ast.Name) and t.value.id == ex:
          bad.append(x)
    if isinstance(x, ast.Call) and not (isinstance(x.func, ast.Attribute) and
                                        isinstance(x.func.value, ast.Name) and
                                        x.func.value.id == ex):
      if any(isinstance(a, ast.Name) and a.id == ex for a in x.args) and \
          dotted(x.func) not in ("len", "bool", "sorted", "set", "frozenset", "list"):
        raise AnalysisError("%s: exempt set passed to %s; cannot tell whether it is mutated"
                            % (STEP, short(x.func)))
  run.ob(R3, fn.qualname, "%s is only read" % ex, "the set of exempt rows stays intact for every "
         "later visit of the node in this user action", not bad, fi=fn.fi,
         node=bad[0] if bad else rd.stmt,
         witness=None if not bad else "mutated by `%s`" % short(bad[0]))
  # the scan loop's dirty rows have the exempt rows removed whenever there are any
  from .c06 import Scan
  sc = Scan(w)
  head = sc.head(cfg)
  subs = set()
  for n in cfg.nodes:
    if n.kind == "stmt" and isinstance(n.stmt, ast.Assign) and len(n.stmt.targets) == 1 and \
        text(n.stmt.targets[0]) == sc.dirty_var and isinstance(n.stmt.value, ast.BinOp) and \
        isinstance(n.stmt.value.op, ast.Sub) and text(n.stmt.value.left) == sc.dirty_var and \
        text(n.stmt.value.right) == ex:
      subs.add(n.id)
    if n.kind == "stmt" and isinstance(n.stmt, ast.Assign) and len(n.stmt.targets) == 1 and \
        text(n.stmt.targets[0]) == sc.dirty_var and isinstance(n.stmt.value, ast.Call) and \
        isinstance(n.stmt.value.func, ast.Attribute) and \
        n.stmt.value.func.attr == "difference" and text(n.stmt.value.func.value) == sc.dirty_var \
        and [text(a) for a in n.stmt.value.args] == [ex]:
      subs.add(n.id)
  fr = FactReach(cfg, {ex})
  starts = [(m, {ex: True}) for m in cfg.normal_succ(rd.id)]
  seen = fr.run(starts, stop=subs)
  ok = bool(subs) and head not in seen and cfg.dominated_by(head, {rd.id})
  # and the subtracted value is not overwritten again before the scan
  reb = du.rebinders(sc.dirty_var)
  for s_ in subs:
    between = cfg.reach_after({s_}, removed={head}) & cfg.reach({head}, removed={s_}, forward=False)
    if between & (reb - subs):
      ok = False
  run.ob(R3, fn.qualname, "if %s: %s = %s - %s  before the scan" % (ex, sc.dirty_var, sc.dirty_var, ex),
         "exempt rows are neither evaluated nor reported as missing dependencies, in evaluating "
         "and non-evaluating visits alike", ok, fi=fn.fi,
         witness=None if ok else "a path with a non-empty exemption reaches the scan without "
         "subtracting it")
  # ---- (c) prevent_recalc: adds with should_prevent, removes otherwise, on this node's set
  pr = w.fn("engine.Engine.prevent_recalc")
  pps = pr.fi.params()
  if len(pps) != 4:
    raise AnalysisError("prevent_recalc: signature changed")
  sets = [s for s in stmts_in(pr.node.body, ast.Assign)
          if isinstance(s.value, ast.Call) and endswith(pr.name(s.value), "self.%s.setdefault" % PMAP)]
  ok = len(sets) == 1 and isinstance(sets[0].targets[0], ast.Name) and \
      text(sets[0].value.args[0]) == pps[1]
  run.ob(R3, pr.qualname, short(sets[0]) if sets else "setdefault ?", "exemptions are kept per node",
         ok, fi=pr.fi, nontrivial=False)
  if ok:
    sv = sets[0].targets[0].id
    pcfg = pr.cfg
    upd = pr.nodes_calling(lambda c, nm, f: nm == "%s.update" % sv and len(c.args) == 1 and
                           text(c.args[0]) == pps[2])
    rem = pr.nodes_calling(lambda c, nm, f: nm in ("%s.difference_update" % sv,) and
                           len(c.args) == 1 and text(c.args[0]) == pps[2])
    frp = FactReach(pcfg, {pps[3]})
    t = frp.run([(pcfg.entry.id, {pps[3]: True})], stop=upd)
    f = frp.run([(pcfg.entry.id, {pps[3]: False})], stop=rem)
    ok = bool(upd) and pcfg.exit.id not in t and not (set(t) & rem) and \
        bool(rem) and pcfg.exit.id not in f and not (set(f) & upd)
    run.ob(R3, pr.qualname, "should_prevent: %s.update(%s) / else: difference_update" % (sv, pps[2]),
           "asking for an exemption adds exactly the given rows; lifting removes them", ok,
           fi=pr.fi)
  # ---- (d) cleared at the start of each user action, inside the loop, before it is applied
  au = w.fn("engine.Engine.apply_user_actions")
  acfg = au.cfg
  clears = au.nodes_calling(lambda c, nm, f: endswith(nm, "self.%s.clear" % PMAP))
  applies = au.nodes_calling(lambda c, nm, f: endswith(nm, "self._apply_one_user_action"))
  if not applies:
    raise AnalysisError("apply_user_actions: _apply_one_user_action call not found")
  p_actions = au.fi.params()[1]
  loops = [s for s in stmts_in(au.node.body, ast.For)
           if isinstance(s.iter, ast.Name) and s.iter.id == p_actions]
  if len(loops) != 1:
    raise AnalysisError("apply_user_actions: loop over the user actions not found")
  lh = nodes_for(acfg, loops[0])
  lb = nodes_of_stmts(acfg, loops[0].body)
  first = {m for h in lh for m in acfg.normal_succ(h) if m in lb}
  recalc = au.nodes_calling(lambda c, nm, f: nm == "self._bring_all_up_to_date")
  if not recalc:
    raise AnalysisError("apply_user_actions: _bring_all_up_to_date call not found")
  # after a user action was applied, no clear happens before the recalculation that follows the
  # last one (new iterations excluded: they belong to the next user action)
  after = acfg.reach_after(applies, removed=first)
  ok = bool(clears) and not (after & clears) and bool(after & recalc)
  run.ob(R3, au.qualname, "no self.%s.clear() between _apply_one_user_action and "
         "_bring_all_up_to_date" % PMAP, "exemptions taken while a user action's doc actions were "
         "applied are still in force when the bundle is recalculated", ok, fi=au.fi,
         node=loops[0], witness=None if ok else "the map is cleared after the user action was "
         "applied and before formulas are recalculated")
  # ---- (e) DocActions.BulkUpdateRecord exempts every non-formula column it writes
  bu = w.fn("docactions.DocActions.BulkUpdateRecord")
  bcfg = bu.cfg
  bps = bu.fi.params()
  writes = [(n, c) for (n, c, nm) in bu.calls() if E.is_column_mutation(c, nm, bu)
            and c.func.attr == "set"]
  if not writes:
    raise AnalysisError("DocActions.BulkUpdateRecord: column write not found")
  for (wn, wc) in writes:
    colv = text(wc.func.value)
    chain = enclosing_chain(bu.node, wn.stmt)
    col_loops = [x for (x, fld) in chain if isinstance(x, ast.For)]
    if not col_loops:
      raise AnalysisError("DocActions.BulkUpdateRecord: column write is not inside a loop")
    outer = col_loops[0]
    oh = nodes_for(bcfg, outer)
    ob_ = nodes_of_stmts(bcfg, outer.body)
    prev = set()
    for (n, c, nm) in bu.calls():
      if n.id in ob_ and E.is_engine_call("prevent_recalc")(c, nm, bu):
        a_node = kwarg(c, "node", 0)
        a_rows = kwarg(c, "row_ids", 1)
        a_flag = kwarg(c, "should_prevent", 2)
        if a_node is not None and text(a_node) == "%s.node" % colv and a_rows is not None and \
            text(a_rows) == bps[2] and a_flag is not None and is_const(a_flag, True):
          prev.add(n.id)
    # under "the column is not a formula column", every path from the write to the end of the
    # per-column iteration passes the exemption
    key = "%s.is_formula()" % colv
    frb = FactReach(bcfg, set(), call_keys={key})
    seen = frb.run([(m, {key: False}) for m in bcfg.normal_succ(wn.id)], stop=prev)
    # leave the inner row loop first: consider only arrivals at the outer loop head / exit
    ok = bool(prev) and not (set(seen) & (oh | {bcfg.exit.id}))
    run.ob(R3, bu.qualname, "%s -> self._engine.prevent_recalc(%s.node, %s, should_prevent=True)"
           % (short(wc, 40), colv, bps[2]),
           "every explicit value written into a data column (a replayed trigger-formula result "
           "included) is exempt from recalculation for the same rows", ok, fi=bu.fi, node=wc,
           witness=None if ok else "a non-formula column can be written without being exempted")
    # the rows written are the rows exempted
    rows_src = None
    for (x, fld) in chain:
      if isinstance(x, ast.For) and x is not outer:
        it = x.iter
        if isinstance(it, ast.Call) and dotted(it.func) == "zip" and it.args:
          rows_src = text(it.args[0])
        elif isinstance(it, ast.Name):
          rows_src = it.id
    run.ob(R3, bu.qualname, "rows written = rows exempted (%s)" % bps[2],
           "the exemption covers exactly the cells that received explicit values",
           rows_src == bps[2], fi=bu.fi, node=wc, nontrivial=False)
  # ---- (f) exemptions are lifted only by user-level code
  for fi in w.repo.all_functions():
    f2 = w.fn_of(fi)
    for c in calls_in(fi.node.body):
      if isinstance(c.func, ast.Attribute) and c.func.attr == "prevent_recalc":
        flag = kwarg(c, "should_prevent", 2)
        if flag is None:
          raise AnalysisError("%s: prevent_recalc without a should_prevent argument" % fi.qualname)
        if is_const(flag, True):
          continue
        user_level = fi.cls is not None and fi.cls.qualname == "useractions.UserActions"
        run.ob(R3, fi.qualname, short(c), "an exemption is lifted only by user-level code (which "
               "a replay through ApplyDocActions never runs)", user_level and is_const(flag, False),
               fi=fi, node=c, nontrivial=False)


def walk_body(fn):
  for s in fn.node.body:
    for n in walk_no_nested(s, into_lambda=True):
      yield n



EN = "sandbox/grist/engine.py"
U = "sandbox/grist/useractions.py"
D = "sandbox/grist/docactions.py"
A = "sandbox/grist/actions.py"
VARIANTS = [
  ("exemption-consumed-by-first-visit", EN,
   "    exempt = self._prevent_recompute_map.get(node, None)",
   "    exempt = self._prevent_recompute_map.pop(node, None)", "C03-R3"),
  ("exemptions-cleared-per-frame", EN,
   "    self._recompute_done_map = {}\n    self._locked_cells = set()\n",
   "    self._recompute_done_map = {}\n    self._prevent_recompute_map.clear()\n"
   "    self._locked_cells = set()\n", "C03-R3"),
  ("exempt-set-consumed", EN,
   "      dirty_rows = dirty_rows - exempt\n",
   "      dirty_rows = dirty_rows - exempt\n      exempt.clear()\n", "C03-R3"),
  ("exempt-only-when-evaluating", EN,
   """      dirty_rows = dirty_rows - exempt
      if allow_evaluation:
        self.recompute_map[node] = dirty_rows""",
   """      if allow_evaluation:
        dirty_rows = dirty_rows - exempt
        self.recompute_map[node] = dirty_rows""", "C03-R3"),
  ("docaction-does-not-exempt", D,
   """      if not col.is_formula():
        self._engine.prevent_recalc(col.node, row_ids, should_prevent=True)""",
   """      if col.is_formula():
        self._engine.prevent_recalc(col.node, row_ids, should_prevent=True)""", "C03-R3"),
  ("docaction-lifts-exemption", D,
   "        self._engine.prevent_recalc(col.node, row_ids, should_prevent=True)",
   "        self._engine.prevent_recalc(col.node, row_ids, should_prevent=False)", "C03-R3"),
  ("clear-at-end-of-user-action", EN,
   """        self._prevent_recompute_map.clear()

        self.out_actions.retValues.append(self._apply_one_user_action(user_action))
""",
   """        self.out_actions.retValues.append(self._apply_one_user_action(user_action))
        self._prevent_recompute_map.clear()
""", "C03-R3"),
  ("replay-not-decoded", A,
   "    return decode_objects(action_type(*doc_action[1:]))",
   "    return action_type(*doc_action[1:])", "C03-R1"),
  ("encode-with-generic-walker", A,
   "  return convert_recursive_in_action(objtypes.encode_object, data)",
   "  return convert_recursive_helper(objtypes.encode_object, data)", "C03-R1"),
  ("repr-drops-first-field", A,
   "    return decode_objects(action_type(*doc_action[1:]))",
   "    return decode_objects(action_type(*doc_action[2:]))", "C03-R1"),
  ("replay-reversed", U,
   "    for doc_action in doc_actions:\n      self._do_doc_action(actions.action_from_repr(doc_action))",
   "    for doc_action in reversed(doc_actions):\n      self._do_doc_action(actions.action_from_repr(doc_action))",
   "C03-R2"),
  ("replay-skips-metadata", U,
   "    for doc_action in doc_actions:\n      self._do_doc_action(actions.action_from_repr(doc_action))",
   "    for doc_action in doc_actions:\n      if doc_action[1].startswith('_grist_'):\n"
   "        continue\n      self._do_doc_action(actions.action_from_repr(doc_action))",
   "C03-R2"),
]
