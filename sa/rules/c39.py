"""C39 RenameChoices renames exactly the mapped choices -- structural clauses."""
import ast
from ..fn import World
from ..index import AnalysisError, dotted
from ..astutil import text, short, endswith, calls_in, walk_no_nested
from ..dataflow import DefUse

EXPLANATION = (
  "Decides (R1) that every new value is a single lookup keyed by the old value (so swaps work): "
  "no helper iterates over the mapping rewriting values in sequence; (R2) that only changed cells "
  "and filters are written and formula columns are skipped; (R3) row-domain discipline: code that "
  "produces row ids for an action works from the table's row ids, never from indices of a "
  "column's raw storage (slot 0 and vacated slots hold right-type defaults). Not decided: the "
  "values themselves.")


def check(run, repo, tier):
  w = World(repo)
  r1_single_step(run, w)
  r2_only_changed(run, w)
  r3_row_domain(run, w)


def _iterates_mapping(fnode, mapping):
  for n in ast.walk(fnode):
    it = None
    if isinstance(n, (ast.For, ast.comprehension)):
      it = n.iter
    if it is not None:
      t = text(it)
      if t == mapping or t.startswith(mapping + ".items") or t.startswith(mapping + ".keys") or \
          t.startswith("sorted(" + mapping) or t.startswith("list(" + mapping):
        return True
  return False


def r1_single_step(run, w):
  R1 = run.rule("C39-R1", "each renamed value is one lookup renames.get(old[, old]); the mapping "
                "is never iterated to rewrite values in sequence", floor=3)
  c1 = w.fn("column.ChoiceColumn._rename_cell_choice")
  ps = c1.fi.params()
  rets = [n for n in ast.walk(c1.node) if isinstance(n, ast.Return)]
  ok = len(rets) == 1 and text(rets[0].value) == "%s.get(%s)" % (ps[1], ps[2]) and \
      not _iterates_mapping(c1.node, ps[1])
  run.ob(R1, c1.qualname, "return renames.get(value)", "a Choice cell maps through one lookup",
         ok, fi=c1.fi)
  c2 = w.fn("column.ChoiceListColumn._rename_cell_choice")
  ps = c2.fi.params()
  ok = not _iterates_mapping(c2.node, ps[1])
  comp = [n for n in ast.walk(c2.node) if isinstance(n, ast.GeneratorExp) and
          isinstance(n.elt, ast.Call) and text(n.elt.func) == ps[1] + ".get"]
  ok = ok and len(comp) == 1 and len(comp[0].elt.args) == 2 and \
      text(comp[0].elt.args[0]) == text(comp[0].elt.args[1]) == text(comp[0].generators[0].target) \
      and text(comp[0].generators[0].iter) == ps[2]
  run.ob(R1, c2.qualname, "tuple(renames.get(choice, choice) for choice in value)",
         "each element of a Choice List maps through one lookup, unmapped elements stay", ok,
         fi=c2.fi)
  ua = w.fn("useractions.UserActions.RenameChoices")
  mp = ua.fi.params()[3]
  helper = [s for s in ua.node.body if isinstance(s, ast.FunctionDef)]
  ok = len(helper) == 1 and not _iterates_mapping(ua.node, mp)
  if ok:
    h = helper[0]
    hp = h.args.args[0].arg
    rets = [n for n in ast.walk(h) if isinstance(n, ast.Return)]
    ok = len(rets) == 1 and isinstance(rets[0].value, ast.IfExp) and \
        text(rets[0].value.body) == "%s.get(%s, %s)" % (mp, hp, hp) and \
        text(rets[0].value.orelse) == hp
  run.ob(R1, ua.qualname, "rename(v) = renames.get(v, v) if isinstance(v, str) else v",
         "filter values map through one lookup; non-strings stay", ok, fi=ua.fi)


def r2_only_changed(run, w):
  R2 = run.rule("C39-R2", "only changed cells and filters are written; formula columns are "
                "skipped", floor=4)
  rc = w.fn("column.ChoiceColumn.rename_choices")
  cfg = rc.cfg
  apps = [n for n in cfg.nodes if any(isinstance(c.func, ast.Attribute) and
                                      c.func.attr == "append" for c in calls_in(n.exprs))]
  guards = {n.id for n in cfg.nodes if n.kind == "if" and
            text(n.stmt.test) in ("value is not None", "new_value is not None")}
  # the inner guard comes after the renaming call
  ren = rc.nodes_calling(lambda c, nm, f: nm == "self._rename_cell_choice")
  inner = {g for g in guards if g in cfg.reach_after(ren)}
  ok = bool(apps) and bool(inner) and all(cfg.dominated_by(a.id, inner) for a in apps)
  run.ob(R2, rc.qualname, "if value is not None: row_ids.append(...); values.append(...)",
         "cells whose value is not mapped are not written", ok, fi=rc.fi)
  c2 = w.fn("column.ChoiceListColumn._rename_cell_choice")
  ps = c2.fi.params()
  cfg2 = c2.cfg
  tests = {n.id for n in cfg2.nodes if n.kind == "if" and isinstance(n.stmt.test, ast.Call) and
           dotted(n.stmt.test.func) == "any" and ps[1] in text(n.stmt.test)}
  rets = [n for n in cfg2.nodes if n.kind == "return"]
  none_rets = [n for n in rets if isinstance(n.stmt.value, ast.Constant) and
               n.stmt.value.value is None]
  ok = bool(tests) and bool(none_rets) and all(
    cfg2.dominated_by(n.id, tests) for n in rets if n not in none_rets)
  run.ob(R2, c2.qualname, "if any(v in renames for v in value): ... else None",
         "a Choice List without any mapped element is left alone", ok, fi=c2.fi)
  ua = w.fn("useractions.UserActions.RenameChoices")
  cfg = ua.cfg
  upd = [(n, c) for (n, c, nm) in ua.calls() if nm == "self.BulkUpdateRecord"]
  col_upd = [(n, c) for (n, c) in upd if text(c.args[0]) == ua.fi.params()[1]]
  formula_guard = {n.id for n in cfg.nodes if n.kind == "if" and
                   text(n.stmt.test).startswith("not ") and "is_formula()" in text(n.stmt.test)}
  ok = len(col_upd) == 1 and bool(formula_guard) and \
      cfg.dominated_by(col_upd[0][0].id, formula_guard)
  run.ob(R2, ua.qualname, "if not col.is_formula(): ... BulkUpdateRecord(table_id, ...)",
         "formula columns are not written (they recalculate)", ok, fi=ua.fi)
  # filters: only changed filters collected, and only the filters of this column
  diff = {n.id for n in cfg.nodes if n.kind == "if" and isinstance(n.stmt.test, ast.Compare) and
          isinstance(n.stmt.test.ops[0], ast.NotEq) and
          {text(n.stmt.test.left), text(n.stmt.test.comparators[0])} == {"col_filter",
                                                                          "new_filter"}}
  fapps = [n for n in cfg.nodes if any(fn_ in ("row_ids.append", "values.append")
                                       for fn_ in [ua.name(c) for c in calls_in(n.exprs)])]
  ok = bool(diff) and bool(fapps) and all(cfg.dominated_by(a.id, diff) for a in fapps)
  run.ob(R2, ua.qualname, "if col_filter != new_filter: collect", "unchanged filters are not "
         "rewritten", ok, fi=ua.fi)
  ok = any(isinstance(c.func, ast.Attribute) and c.func.attr == "filter_records" and
           any(k.arg == "colRef" and text(k.value) == "colRef" for k in c.keywords)
           for c in calls_in(ua.node)) and \
      any(text(v) == "self._docmodel.get_column_rec(%s, %s).id" % tuple(ua.fi.params()[1:3])
          for v in _defs(ua.node, "colRef"))
  run.ob(R2, ua.qualname, "filters.filter_records(colRef=<this column>)", "only this column's "
         "saved filters are considered", ok, fi=ua.fi)


def _defs(fnode, name):
  return [n.value for s in fnode.body for n in walk_no_nested(s)
          if isinstance(n, ast.Assign) and any(isinstance(t, ast.Name) and t.id == name
                                               for t in n.targets)]


def r3_row_domain(run, w):
  R3 = run.rule("C39-R3", "row ids handed to actions come from the table's row ids, not from "
                "indices of raw column storage", floor=3)
  # (a) no column method that enumerates its raw storage returns / collects the indices
  n_enum = 0
  for fi in w.repo.all_functions():
    if fi.module.name not in ("column", "lookup"):
      continue
    for n in ast.walk(fi.node):
      if isinstance(n, (ast.For, ast.comprehension)) and isinstance(n.iter, ast.Call) and \
          dotted(n.iter.func) == "enumerate" and n.iter.args and \
          text(n.iter.args[0]).endswith("._data") and isinstance(n.target, ast.Tuple):
        n_enum += 1
        idx = text(n.target.elts[0])
        # does the index escape through a return value?
        fn = w.fn_of(fi)
        du = DefUse(fn)
        escapes = False
        for r in ast.walk(fi.node):
          if isinstance(r, ast.Return) and r.value is not None:
            if du.flows_from(lambda x: isinstance(x, ast.Name) and x.id == idx, r.value):
              escapes = True
        run.ob(R3, fi.qualname, "for %s, ... in enumerate(self._data)" % idx,
               "storage indices (which include slot 0 and vacated slots) do not leave the column "
               "as row ids", not escapes, fi=fi, node=n)
  rc = w.fn("column.ChoiceColumn.rename_choices")
  ps = rc.fi.params()
  loops = [s for s in rc.node.body if isinstance(s, ast.For)]
  ok = len(ps) >= 3 and len(loops) == 1 and text(loops[0].iter) == ps[2]
  run.ob(R3, rc.qualname, "for row_id in <row ids parameter>", "candidate rows are the rows the "
         "caller names", ok, fi=rc.fi)
  ua = w.fn("useractions.UserActions.RenameChoices")
  calls = [c for (n, c, nm) in ua.calls() if nm and nm.endswith(".rename_choices")]
  ok = len(calls) == 1 and len(calls[0].args) == 2 and \
      text(calls[0].args[1]).endswith(".row_ids") and \
      any(text(v) == "self._engine.tables[%s]" % ua.fi.params()[1]
          for v in _defs(ua.node, text(calls[0].args[1]).rsplit(".", 1)[0]))
  run.ob(R3, ua.qualname, "col.rename_choices(renames, table.row_ids)",
         "the rows considered are exactly the table's existing rows", ok, fi=ua.fi)
  # the ids returned by rename_choices are the ids given to the update action
  upd = [c for (n, c, nm) in ua.calls() if nm == "self.BulkUpdateRecord" and
         text(c.args[0]) == ua.fi.params()[1]]
  ok = False
  for s in ast.walk(ua.node):
    if isinstance(s, ast.Assign) and isinstance(s.value, ast.Call) and s.value in calls and \
        isinstance(s.targets[0], ast.Tuple) and upd:
      ok = text(s.targets[0].elts[0]) == text(upd[0].args[1])
  run.ob(R3, ua.qualname, "row_ids, values = col.rename_choices(...); BulkUpdateRecord(table_id, "
         "row_ids, ...)", "the action updates the rows the column reported", ok, fi=ua.fi)


CO = "sandbox/grist/column.py"
U = "sandbox/grist/useractions.py"
VARIANTS = [
  ("enumerate-raw-storage", CO, """    for row_id in table_row_ids:
      value = self.raw_get(row_id)
      if value is not None and self.type_obj.is_right_type(value):""",
   """    for row_id, value in enumerate(self._data):
      if value is not None and self.type_obj.is_right_type(value):""", "C39-R3"),
  ("caller-passes-range", U, "col.rename_choices(renames, table.row_ids)",
   "col.rename_choices(renames, range(col.size()))", "C39-R3"),
  ("sequential-renames", CO, """    if any((v in renames) for v in value):
      return tuple(renames.get(choice, choice) for choice in value)
    return None""", """    if any((v in renames) for v in value):
      for old, new in renames.items():
        value = tuple(new if c == old else c for c in value)
      return value
    return None""", "C39-R1"),
  ("choice-double-lookup", CO, "    return renames.get(value)\n", "    return renames.get(renames.get(value), renames.get(value))\n", "C39-R1"),
  ("writes-unmapped-cells", CO, """        if value is not None:
          row_ids.append(row_id)
          values.append(value)""", """        row_ids.append(row_id)
        values.append(value)""", "C39-R2"),
  ("formula-columns-written", U, "    if not col.is_formula():\n      row_ids, values = col.rename_choices",
   "    if True:\n      row_ids, values = col.rename_choices", "C39-R2"),
  ("all-filters-rewritten", U, "      if col_filter != new_filter:\n", "      if new_filter:\n", "C39-R2"),
  ("filter-rename-non-strings", U, "      return renames.get(value, value) if isinstance(value, str) else value",
   "      return renames.get(str(value), value)", "C39-R1"),
]
